/-
  C05 — Shifts and bit queries agree with the binary expansion for every shift amount.
  Property theorems only (helper lemmas live in CB/Lemmas/C05*.lean).  Every theorem quantifies over
  all limb counts (list lengths), all operand values and all shift amounts / bit indices.
  `BITS = 64 * a.length`, `2^BITS = B ^ a.length`.
-/
import CB.Lemmas.C05Wide
import CB.Lemmas.C05Query
import CB.Lemmas.C05Int
import CB.Lemmas.C05Boxed
import CB.Lemmas.C05Small
import CB.Lemmas.C05BitForms
namespace CB.P05
open CB CB.Shift CB.Bits

/-- T05.1a `overflowing_shl_vartime` (limb move + carry pass), every limb count and every shift:
    `is_some` exactly when `s < BITS`, then the value is `(x * 2^s) mod 2^BITS`; otherwise the
    dummy value is zero. -/
theorem shl_vartime_spec {a : List Nat} (ha : WF a) (s : Nat) :
    (overflowingShlVartime a s).2 = mask (decide (s < 64 * a.length)) ∧
    (s < 64 * a.length → val (overflowingShlVartime a s).1 = (val a * 2 ^ s) % B ^ a.length) ∧
    (64 * a.length ≤ s → val (overflowingShlVartime a s).1 = 0) ∧
    (overflowingShlVartime a s).1.length = a.length ∧ WF (overflowingShlVartime a s).1 := by
  by_cases h : s < 64 * a.length
  · have ⟨h1, h2, h3, h4⟩ := overflowingShlVartime_spec ha h
    exact ⟨by simp [h1, h, mask], fun _ => h2, fun h' => absurd h (Nat.not_lt.mpr h'), h3, h4⟩
  · have h' := Nat.not_lt.mp h
    rw [overflowingShlVartime_overflow a h']
    exact ⟨by simp [h, mask], fun h'' => absurd h'' h, fun _ => val_uzero _, uzero_length _, uzero_WF _⟩

/-- T05.1b `overflowing_shr_vartime`: `x / 2^s` when `s < BITS`, none (zero) otherwise. -/
theorem shr_vartime_spec {a : List Nat} (ha : WF a) (s : Nat) :
    (overflowingShrVartime a s).2 = mask (decide (s < 64 * a.length)) ∧
    (s < 64 * a.length → val (overflowingShrVartime a s).1 = val a / 2 ^ s) ∧
    (64 * a.length ≤ s → val (overflowingShrVartime a s).1 = 0) ∧
    (overflowingShrVartime a s).1.length = a.length ∧ WF (overflowingShrVartime a s).1 := by
  by_cases h : s < 64 * a.length
  · have ⟨h1, h2, h3, h4⟩ := overflowingShrVartime_spec ha h
    exact ⟨by simp [h1, h, mask], fun _ => h2, fun h' => absurd h (Nat.not_lt.mpr h'), h3, h4⟩
  · have h' := Nat.not_lt.mp h
    rw [overflowingShrVartime_overflow a h']
    exact ⟨by simp [h, mask], fun h'' => absurd h'' h, fun _ => val_uzero _, uzero_length _, uzero_WF _⟩

/-- non-vacuity: a 3-limb value (non-power-of-two width) shifted across a limb boundary. -/
example : val (overflowingShlVartime [WMAX, 1, 0] 65).1 = (val [WMAX, 1, 0] * 2 ^ 65) % B ^ 3 :=
  (shl_vartime_spec (a := [WMAX, 1, 0]) (WF_of_all (by decide)) 65).2.1 (by decide)
example : val (overflowingShrVartime [0, 1, WMAX] 65).1 = val [0, 1, WMAX] / 2 ^ 65 :=
  (shr_vartime_spec (a := [0, 1, WMAX]) (WF_of_all (by decide)) 65).2.1 (by decide)

/-! ## T05.2 the constant-time ladder

`Uint<LIMBS>::BITS` and the shift amount are `u32`: `64 * a.length < 2^32`, `s < 2^32` (type bounds,
not restrictions). `a ≠ []` is `LIMBS ≥ 1`.  No power-of-two assumption on the width. -/

/-- T05.2a every step `1 << i`, `i < shift_bits`, of the ladder is a legal shift, and the reduced shift
    `s % BITS` is covered by `shift_bits` bits — for EVERY width (the top step is not `BITS/2` when
    `BITS` is not a power of two). -/
theorem ladder_steps_legal {bits : Nat} (hb : 0 < bits) (h : bits ≤ TWO32) :
    (∀ j, j < shiftBits bits → 2 ^ j < bits) ∧ (∀ s, s % bits < 2 ^ shiftBits bits) :=
  ⟨fun _ hj => step_lt_bits hb h hj, fun _ => reduced_lt hb h⟩

/-- T05.2b `overflowing_shl` (ladder) = `overflowing_shl_vartime` (limb move + carry), value and
    `is_some` mask, for every width and every shift; in particular the inner `expect` never panics. -/
theorem shl_ladder_eq_vartime {a : List Nat} (ha : WF a) (hn0 : a ≠ []) (hn : 64 * a.length < TWO32)
    {s : Nat} (hs : s < TWO32) :
    overflowingShl a s = some (overflowingShlVartime a s) := overflowingShl_eq_vartime ha hn0 hn hs

theorem shr_ladder_eq_vartime {a : List Nat} (ha : WF a) (hn0 : a ≠ []) (hn : 64 * a.length < TWO32)
    {s : Nat} (hs : s < TWO32) :
    overflowingShr a s = some (overflowingShrVartime a s) := overflowingShr_eq_vartime ha hn0 hn hs

/-- T05.2c `Uint::shl` / `shl_vartime`: panic (`none`) exactly when `s ≥ BITS`, else `(x·2^s) mod 2^BITS`. -/
theorem shl_spec {a : List Nat} (ha : WF a) (hn0 : a ≠ []) (hn : 64 * a.length < TWO32)
    {s : Nat} (hs : s < TWO32) :
    ushl a s = ushlVartime a s ∧
    (64 * a.length ≤ s → ushl a s = none) ∧
    (s < 64 * a.length → ∃ r, ushl a s = some r ∧ val r = (val a * 2 ^ s) % B ^ a.length ∧
      r.length = a.length ∧ WF r) := by
  have e : ushl a s = ushlVartime a s := by
    unfold ushl ushlVartime; rw [overflowingShl_eq_vartime ha hn0 hn hs]; rfl
  refine ⟨e, ?_, ?_⟩
  · intro h
    rw [e]; unfold ushlVartime
    rw [overflowingShlVartime_overflow a h]; exact expect_none rfl
  · intro h
    have ⟨h1, h2, h3, h4⟩ := overflowingShlVartime_spec ha h
    exact ⟨_, by rw [e]; exact expect_mk h1, h2, h3, h4⟩

theorem shr_spec {a : List Nat} (ha : WF a) (hn0 : a ≠ []) (hn : 64 * a.length < TWO32)
    {s : Nat} (hs : s < TWO32) :
    ushr a s = ushrVartime a s ∧
    (64 * a.length ≤ s → ushr a s = none) ∧
    (s < 64 * a.length → ∃ r, ushr a s = some r ∧ val r = val a / 2 ^ s ∧
      r.length = a.length ∧ WF r) := by
  have e : ushr a s = ushrVartime a s := by
    unfold ushr ushrVartime; rw [overflowingShr_eq_vartime ha hn0 hn hs]; rfl
  refine ⟨e, ?_, ?_⟩
  · intro h
    rw [e]; unfold ushrVartime
    rw [overflowingShrVartime_overflow a h]; exact expect_none rfl
  · intro h
    have ⟨h1, h2, h3, h4⟩ := overflowingShrVartime_spec ha h
    exact ⟨_, by rw [e]; exact expect_mk h1, h2, h3, h4⟩

/-- T05.2d the wrapping forms (ct and vartime) never panic and return `(x·2^s) mod 2^BITS`, which is 0
    for `s ≥ BITS`. -/
theorem wrapping_shl_spec {a : List Nat} (ha : WF a) (hn0 : a ≠ []) (hn : 64 * a.length < TWO32)
    {s : Nat} (hs : s < TWO32) :
    wrappingShlU a s = some (wrappingShlVartimeU a s) ∧
    val (wrappingShlVartimeU a s) = (val a * 2 ^ s) % B ^ a.length ∧
    (64 * a.length ≤ s → val (wrappingShlVartimeU a s) = 0) := by
  have hv := shlV_val ha s
  have hsel : wrappingShlVartimeU a s = (overflowingShlVartime a s).1 := by
    unfold wrappingShlVartimeU unwrapOr
    by_cases h : s < 64 * a.length
    · rw [(overflowingShlVartime_spec ha h).1]
      exact uselect_spec true (uzero_WF _) hv.2.2 (by rw [hv.2.1, uzero_length])
    · rw [overflowingShlVartime_overflow a (Nat.not_lt.mp h)]
      exact uselect_spec false (uzero_WF _) (uzero_WF _) rfl
  refine ⟨?_, by rw [hsel]; exact hv.1, fun h => by rw [hsel, hv.1, shl_overflow_zero _ h]⟩
  unfold wrappingShlU; rw [overflowingShl_eq_vartime ha hn0 hn hs]; rfl

theorem wrapping_shr_spec {a : List Nat} (ha : WF a) (hn0 : a ≠ []) (hn : 64 * a.length < TWO32)
    {s : Nat} (hs : s < TWO32) :
    wrappingShrU a s = some (wrappingShrVartimeU a s) ∧
    val (wrappingShrVartimeU a s) = val a / 2 ^ s ∧
    (64 * a.length ≤ s → val (wrappingShrVartimeU a s) = 0) := by
  have hv := shrV_val ha s
  have hsel : wrappingShrVartimeU a s = (overflowingShrVartime a s).1 := by
    unfold wrappingShrVartimeU unwrapOr
    by_cases h : s < 64 * a.length
    · rw [(overflowingShrVartime_spec ha h).1]
      exact uselect_spec true (uzero_WF _) hv.2.2 (by rw [hv.2.1, uzero_length])
    · rw [overflowingShrVartime_overflow a (Nat.not_lt.mp h)]
      exact uselect_spec false (uzero_WF _) (uzero_WF _) rfl
  refine ⟨?_, by rw [hsel]; exact hv.1, fun h => by rw [hsel, hv.1, shr_overflow_zero ha h]⟩
  unfold wrappingShrU; rw [overflowingShr_eq_vartime ha hn0 hn hs]; rfl

example : overflowingShl [1, 2, WMAX] 191 = some (overflowingShlVartime [1, 2, WMAX] 191) :=
  shl_ladder_eq_vartime (WF_of_all (by decide)) (by simp) (by decide) (by decide)

/-! ## T05.3 double-width shifts -/

/-- T05.3a `overflowing_shl_vartime_wide((lo, hi), s)` for EVERY `s`: for `s < 2·BITS` (all three branches:
    `BITS ≤ s`, `0 < s < BITS`, and `s = 0` where the complementary `wrapping_shr_vartime(BITS)` is zero) the
    pair is `((lo + 2^BITS·hi) · 2^s) mod 2^(2·BITS)`; none for `s ≥ 2·BITS`. -/
theorem shl_wide_spec {lo hi : List Nat} (hlo : WF lo) (hhi : WF hi) (hl : hi.length = lo.length) (s : Nat) :
    (2 * (64 * lo.length) ≤ s → shlVartimeWide lo hi s = some ((uzero lo.length, uzero lo.length), 0)) ∧
    (s < 2 * (64 * lo.length) →
      ∃ rl rh, shlVartimeWide lo hi s = some ((rl, rh), WMAX) ∧
        val rl + B ^ lo.length * val rh =
          ((val lo + B ^ lo.length * val hi) * 2 ^ s) % (B ^ lo.length * B ^ lo.length) ∧
        WF rl ∧ WF rh ∧ rl.length = lo.length ∧ rh.length = lo.length) :=
  ⟨shlVartimeWide_overflow lo hi, fun h => shlVartimeWide_spec hlo hhi hl h⟩

theorem shr_wide_spec {lo hi : List Nat} (hlo : WF lo) (hhi : WF hi) (hl : hi.length = lo.length) (s : Nat) :
    (2 * (64 * lo.length) ≤ s → shrVartimeWide lo hi s = some ((uzero lo.length, uzero lo.length), 0)) ∧
    (s < 2 * (64 * lo.length) →
      ∃ rl rh, shrVartimeWide lo hi s = some ((rl, rh), WMAX) ∧
        val rl + B ^ lo.length * val rh = (val lo + B ^ lo.length * val hi) / 2 ^ s ∧
        WF rl ∧ WF rh ∧ rl.length = lo.length ∧ rh.length = lo.length) :=
  ⟨shrVartimeWide_overflow lo hi, fun h => shrVartimeWide_spec hlo hhi hl h⟩

/-- T05.3b the shift by 0 (which panicked before fix 7c6f86b, finding C05-wide-shift-zero) returns the
    input pair. -/
theorem wide_shift_zero {lo hi : List Nat} (hlo : WF lo) (hhi : WF hi) (hl : hi.length = lo.length)
    (hn : lo ≠ []) :
    shlVartimeWide lo hi 0 = some ((lo, hi), WMAX) ∧ shrVartimeWide lo hi 0 = some ((lo, hi), WMAX) := by
  have hlen : 0 < lo.length := List.length_pos_iff.mpr hn
  have hs : 0 < 2 * (64 * lo.length) := by omega
  have hlolt := val_lt hlo
  have hhilt := val_lt hhi
  rw [hl] at hhilt
  have hpair : ∀ rl rh : List Nat, WF rl → WF rh → rl.length = lo.length → rh.length = lo.length →
      val rl + B ^ lo.length * val rh = val lo + B ^ lo.length * val hi → rl = lo ∧ rh = hi := by
    intro rl rh wl wh ll lh e
    have hrl := val_lt wl
    rw [ll] at hrl
    have h1 : val rl = val lo := by
      have := congrArg (· % B ^ lo.length) e
      simp only [Nat.add_mul_mod_self_left, Nat.mod_eq_of_lt hrl, Nat.mod_eq_of_lt hlolt] at this
      exact this
    have h2 : val rh = val hi := by
      rw [h1] at e
      exact Nat.eq_of_mul_eq_mul_left (Bpow_pos lo.length) (Nat.add_left_cancel e)
    exact ⟨val_inj wl hlo ll h1, val_inj wh hhi (by rw [lh, hl]) h2⟩
  constructor
  · obtain ⟨rl, rh, e, hv, wl, wh, ll, lh⟩ := shlVartimeWide_spec hlo hhi hl hs
    rw [Nat.pow_zero, Nat.mul_one, Nat.mod_eq_of_lt (lt_sq hlolt hhilt)] at hv
    have := hpair rl rh wl wh ll lh hv
    rw [e, this.1, this.2]
  · obtain ⟨rl, rh, e, hv, wl, wh, ll, lh⟩ := shrVartimeWide_spec hlo hhi hl hs
    rw [Nat.pow_zero, Nat.div_one] at hv
    have := hpair rl rh wl wh ll lh hv
    rw [e, this.1, this.2]

/-! ## T05.6 bitwise operators -/

/-- T05.6 limb-wise `&`, `|`, `^` act on the value as the `Nat` bit operators; `!` is the complement
    within the width. -/
theorem bitand_spec {a b : List Nat} (ha : WF a) (hb : WF b) (h : a.length = b.length) :
    val (ubitand a b) = val a &&& val b := (val_ubitand ha hb h).1
theorem bitor_spec {a b : List Nat} (ha : WF a) (hb : WF b) (h : a.length = b.length) :
    val (ubitor a b) = val a ||| val b := (val_ubitor ha hb h).1
theorem bitxor_spec {a b : List Nat} (ha : WF a) (hb : WF b) (h : a.length = b.length) :
    val (ubitxor a b) = val a ^^^ val b := (val_ubitxor ha hb h).1
theorem not_spec {a : List Nat} (ha : WF a) : val (unot a) = B ^ a.length - 1 - val a := by
  have := (val_unot ha).1; omega
theorem bitand_limb_spec {a : List Nat} (ha : WF a) (l : Nat) :
    val (ubitandLimb a l) = val a &&& val (List.replicate a.length (l % B)) := ubitandLimb_spec ha l
/-- boxed operands of different precision: result has the larger precision, the shorter operand is
    zero-extended. -/
theorem boxed_bitops_spec {a b : List Nat} (ha : WF a) (hb : WF b) :
    (val (mapLimbs (· &&& ·) a b) = val a &&& val b ∧ (mapLimbs (· &&& ·) a b).length = max a.length b.length) ∧
    (val (mapLimbs (· ||| ·) a b) = val a ||| val b ∧ (mapLimbs (· ||| ·) a b).length = max a.length b.length) ∧
    (val (mapLimbs (· ^^^ ·) a b) = val a ^^^ val b ∧ (mapLimbs (· ^^^ ·) a b).length = max a.length b.length) := by
  have h1 := val_mapLimbs (f := (· &&& ·)) Nat.testBit_and (fun _ _ hx _ => and_lt_B hx) (by decide) ha hb
  have h2 := val_mapLimbs (f := (· ||| ·)) Nat.testBit_or (fun _ _ hx hy => or_lt_B hx hy) (by decide) ha hb
  have h3 := val_mapLimbs (f := (· ^^^ ·)) Nat.testBit_xor (fun _ _ hx hy => xor_lt_B hx hy) (by decide) ha hb
  exact ⟨⟨h1.1, h1.2.2⟩, ⟨h2.1, h2.2.2⟩, ⟨h3.1, h3.2.2⟩⟩

/-- T05.6b `BoxedUint |= rhs` (a zip over the receiver's limbs before fix e52b2f3, finding
    C05-boxed-or-assign-truncates): exact at the larger precision for operands of any precisions. -/
theorem or_assign_spec {a b : List Nat} (ha : WF a) (hb : WF b) :
    val (orAssign a b) = val a ||| val b ∧ (orAssign a b).length = max a.length b.length :=
  (boxed_bitops_spec ha hb).2.1

/-! ## T05.5 bit length, leading / trailing counts, bit test, bit set; ct = vartime

`bitlen x` is the position of the top set bit + 1 (`Nat.log2 x + 1`, and 0 for 0). -/

theorem bitlen_meaning (x : Nat) :
    bitlen x = (if x = 0 then 0 else Nat.log2 x + 1) ∧ x < 2 ^ bitlen x ∧
    (x ≠ 0 → 2 ^ (bitlen x - 1) ≤ x) :=
  ⟨rfl, lt_two_pow_bitlen x, two_pow_bitlen_le⟩

/-- T05.5a `bits`, `bits_vartime`, `leading_zeros`, `leading_zeros_vartime`. -/
theorem bits_spec {a : List Nat} (ha : WF a) (hne : a ≠ []) :
    ubits a = bitlen (val a) ∧ bitsVartime a = some (ubits a) ∧
    leadingZeros a = 64 * a.length - bitlen (val a) ∧
    leadingZerosVartime a = some (leadingZeros a) := by
  have h1 := ubits_spec ha
  have h2 := bitsVartime_spec ha hne
  have h3 := leadingZeros_spec ha
  refine ⟨h1, by rw [h1, h2], h3, ?_⟩
  unfold leadingZerosVartime; rw [h2, h3]; rfl

/-- T05.5b `trailing_zeros` = `trailing_zeros_vartime` = the number of zero bits below the lowest set
    bit (`BITS` for 0). -/
theorem trailing_zeros_spec {a : List Nat} (ha : WF a) :
    trailingZeros a = trailingZerosVartime a ∧ trailingZeros a ≤ 64 * a.length ∧
    (∀ j, j < trailingZeros a → (val a).testBit j = false) ∧
    (trailingZeros a < 64 * a.length → (val a).testBit (trailingZeros a) = true) := by
  rw [trailingZeros_eq_vartime ha]
  exact ⟨rfl, trailingZerosVartime_spec ha⟩

/-- T05.5c `trailing_ones` = `trailing_ones_vartime` = the length of the run of ones from bit 0. -/
theorem trailing_ones_spec {a : List Nat} (ha : WF a) :
    trailingOnes a = trailingOnesVartime a ∧ trailingOnes a ≤ 64 * a.length ∧
    (∀ j, j < trailingOnes a → (val a).testBit j = true) ∧
    (trailingOnes a < 64 * a.length → (val a).testBit (trailingOnes a) = false) := by
  rw [trailingOnes_eq_vartime ha]
  exact ⟨rfl, trailingOnesVartime_spec ha⟩

/-- T05.5d `bit i` (constant-time scan) and `bit_vartime i` are `testBit` of the value for every index
    (false beyond the width). -/
theorem bit_spec {a : List Nat} (ha : WF a) (hn : a.length ≤ TWO32) {i : Nat} (hi : i < TWO32) :
    bitCt a i = mask ((val a).testBit i) ∧ bitVartime a i = (val a).testBit i :=
  ⟨bitCt_spec ha hn hi, bitVartime_spec ha i⟩

/-- T05.5e `set_bit`: bit `i` becomes `v` when `i < BITS`, nothing else changes; unchanged for `i ≥ BITS`. -/
theorem set_bit_spec {a : List Nat} (ha : WF a) (hn : a.length ≤ TWO32) {i : Nat} (hi : i < TWO32)
    (v : Bool) (j : Nat) :
    (val (setBit a i (mask v))).testBit j = if j = i ∧ i < 64 * a.length then v else (val a).testBit j :=
  setBit_testBit ha hn hi v j

/-- T05.5f `set_bit_vartime` = `set_bit` for EVERY index, including `i ≥ BITS` where both leave the value
    unchanged (the vartime form indexed out of bounds before fix d309eb6, finding C05-set-bit-vartime-oob). -/
theorem set_bit_vartime_eq {a : List Nat} (ha : WF a) (hn : a.length ≤ TWO32) {i : Nat} (hi : i < TWO32)
    (v : Bool) :
    setBitVartime a i v = setBit a i (mask v) ∧ (64 * a.length ≤ i → setBitVartime a i v = a) := by
  have e := setBitVartime_eq ha hn hi v
  refine ⟨e, fun h => ?_⟩
  rw [e, setBit_spec_list ha hn hi]
  have : ¬ (i / 64 < a.length) := by omega
  simp [this]

example : ubits [0, 1, 0] = 65 ∧ trailingZeros [0, 1, 0] = 64 ∧ trailingOnes [WMAX, 1, 0] = 65 := by decide

/-! ## T05.4 `Int` arithmetic right shift

`toInt a` = two's complement reading of the limbs; `/` on `Int` with a positive divisor is the floor. -/

theorem toInt_meaning (a : List Nat) :
    toInt a = if B ^ a.length ≤ 2 * val a then (val a : Int) - ((B ^ a.length : Nat) : Int) else (val a : Int) :=
  rfl

/-- T05.4a `Int::overflowing_shr_vartime` (sign limb fill + the `carry ^ (carry >> rem)` trick):
    `is_some` exactly when `s < BITS`; the value is `⌊x / 2^s⌋` on the signed value for EVERY `s`
    (for `s ≥ BITS` the dummy value is the sign fill, i.e. `-1` or `0`, which is still the floor). -/
theorem int_shr_vartime_spec {a : List Nat} (ha : WF a) (hne : a ≠ []) (s : Nat) :
    (intOverflowingShrVartime a s).2 = mask (decide (s < 64 * a.length)) ∧
    toInt (intOverflowingShrVartime a s).1 = toInt a / ((2 ^ s : Nat) : Int) ∧
    (intOverflowingShrVartime a s).1.length = a.length ∧ WF (intOverflowingShrVartime a s).1 := by
  have hv := intShrV_val ha hne s
  refine ⟨?_, (toInt_intShrV ha hne s).1, hv.2.1, hv.2.2⟩
  by_cases h : s < 64 * a.length
  · rw [(intShrV_inrange ha hne h).1]; simp [h, mask]
  · rw [intShrV_overflow a (Nat.not_lt.mp h)]; simp [h, mask]

/-- T05.4b the ladder form `Int::overflowing_shr`: never panics, `is_some` iff `s < BITS`, and then the
    value is the vartime result. -/
theorem int_shr_ladder_spec {a : List Nat} (ha : WF a) (hn0 : a ≠ []) (hn : 64 * a.length < TWO32)
    {s : Nat} (hs : s < TWO32) :
    ∃ v, intOverflowingShr a s = some (v, mask (decide (s < 64 * a.length))) ∧
      (s < 64 * a.length → v = (intOverflowingShrVartime a s).1) := by
  refine ⟨_, intOverflowingShr_spec ha hn0 hn hs, fun h => ?_⟩
  rw [Nat.mod_eq_of_lt h]

/-- T05.4c `Int::shr` / `shr_vartime` panic exactly for `s ≥ BITS`; the wrapping forms never panic and
    return `⌊x / 2^s⌋` for every `s` (the sign fill for `s ≥ BITS`); ct = vartime. -/
theorem int_shr_forms {a : List Nat} (ha : WF a) (hn0 : a ≠ []) (hn : 64 * a.length < TWO32)
    {s : Nat} (hs : s < TWO32) :
    intShr a s = intShrVartime a s ∧
    (64 * a.length ≤ s → intShr a s = none) ∧
    (s < 64 * a.length → intShr a s = some (intOverflowingShrVartime a s).1) ∧
    intWrappingShr a s = some (intWrappingShrVartime a s) ∧
    toInt (intWrappingShrVartime a s) = toInt a / ((2 ^ s : Nat) : Int) := by
  have hsp := intOverflowingShr_spec ha hn0 hn hs
  have hv := intShrV_val ha hn0 s
  have hvm := intShrV_val ha hn0 (s % (64 * a.length))
  have hsf : WF (signFill a) ∧ (signFill a).length = a.length := by
    have := signFill_val ha hn0 (Nat.le_refl _); exact ⟨this.2.2, this.2.1⟩
  by_cases h : s < 64 * a.length
  · have hin := intShrV_inrange ha hn0 h
    have hwv : intWrappingShrVartime a s = (intOverflowingShrVartime a s).1 := by
      unfold intWrappingShrVartime unwrapOr
      rw [hin.1]; exact uselect_spec true hsf.1 hv.2.2 (by rw [hsf.2, hv.2.1])
    have e1 : intShr a s = some (intOverflowingShrVartime a s).1 := by
      unfold intShr; rw [hsp, Nat.mod_eq_of_lt h]; simp [h, mask, expect]
    have e2 : intShrVartime a s = some (intOverflowingShrVartime a s).1 := by
      unfold intShrVartime; exact expect_mk hin.1
    refine ⟨by rw [e1, e2], fun h' => absurd h (Nat.not_lt.mpr h'), fun _ => e1, ?_, ?_⟩
    · unfold intWrappingShr; rw [hsp, Nat.mod_eq_of_lt h, hwv]
      simp only [Option.map_some, h, decide_true]
      congr 1
      exact uselect_spec true hsf.1 hv.2.2 (by rw [hsf.2, hv.2.1])
    · rw [hwv]; exact (toInt_intShrV ha hn0 s).1
  · have h' := Nat.not_lt.mp h
    have hov := intShrV_overflow a h'
    have hwv : intWrappingShrVartime a s = signFill a := by
      unfold intWrappingShrVartime unwrapOr
      rw [hov]; exact uselect_spec false hsf.1 hsf.1 rfl
    have e1 : intShr a s = none := by
      unfold intShr; rw [hsp]; simp [h, mask, expect, WMAX_def]
    have e2 : intShrVartime a s = none := by
      unfold intShrVartime; rw [hov]; exact expect_none rfl
    refine ⟨by rw [e1, e2], fun _ => e1, fun h'' => absurd h'' h, ?_, ?_⟩
    · unfold intWrappingShr; rw [hsp, hwv]
      simp only [Option.map_some, h, decide_false]
      congr 1
      exact uselect_spec false hsf.1 hvm.2.2 (by rw [hsf.2, hvm.2.1])
    · rw [hwv]
      have := (toInt_intShrV ha hn0 s).1
      rwa [hov] at this

/-- `Int` left shifts are the `Uint` left shifts on the two's complement limbs (src/int/shl.rs forwards),
    so T05.1/T05.2 apply verbatim. -/
example : toInt (intOverflowingShrVartime [0, HALF] 65).1 = toInt [0, HALF] / ((2 ^ 65 : Nat) : Int) :=
  (int_shr_vartime_spec (WF_of_all (by decide)) (by simp) 65).2.1

/-! ## T05.7 `BoxedUint` shifts (any precision ≥ 1 limb) -/

/-- T05.7a `overflowing_shl` / `overflowing_shr` (ladder through `sh?_vartime_into` on a zeroed temp,
    `ct_assign`, `conditional_set_zero`): value `(x·2^s) mod 2^BITS` resp. `x / 2^s`, zero on overflow,
    overflow flag exactly when `s ≥ BITS`; precision preserved. -/
theorem boxed_overflowing_spec {a : List Nat} (ha : WF a) (hn0 : a ≠ []) (hn : 64 * a.length ≤ TWO32)
    (s : Nat) :
    (∃ r, boxedOverflowingShl a s = some (r, decide (64 * a.length ≤ s)) ∧
      val r = (val a * 2 ^ s) % B ^ a.length ∧ r.length = a.length ∧ WF r) ∧
    (∃ r, boxedOverflowingShr a s = some (r, decide (64 * a.length ≤ s)) ∧
      val r = val a / 2 ^ s ∧ r.length = a.length ∧ WF r) :=
  ⟨⟨_, boxedOverflowingShl_spec ha hn0 hn s, shlV_val ha s⟩,
   ⟨_, boxedOverflowingShr_spec ha hn0 hn s, shrV_val ha s⟩⟩

/-- T05.7b `shl_vartime` / `shr_vartime` return `None` exactly when `s ≥ BITS`, else the same value as the
    constant-time form; the boxed right shift's ascending carry pass equals the descending one. -/
theorem boxed_vartime_spec {a : List Nat} (ha : WF a) (s : Nat) :
    boxedShlVartime a s = (if s < 64 * a.length then some (overflowingShlVartime a s).1 else none) ∧
    boxedShrVartime a s = (if s < 64 * a.length then some (overflowingShrVartime a s).1 else none) ∧
    val (boxedWrappingShlVartime a s) = (val a * 2 ^ s) % B ^ a.length ∧
    val (boxedWrappingShrVartime a s) = val a / 2 ^ s := by
  refine ⟨boxedShlInto_zero a s, boxedShrInto_zero a s, ?_, ?_⟩
  · unfold boxedWrappingShlVartime; rw [boxedShlInto_zero]
    by_cases h : s < 64 * a.length
    · simp only [h, if_true, Option.getD_some]; exact (shlV_val ha s).1
    · simp only [h, if_false, Option.getD_none, val_uzero, shl_overflow_zero _ (Nat.not_lt.mp h)]
  · unfold boxedWrappingShrVartime; rw [boxedShrInto_zero]
    by_cases h : s < 64 * a.length
    · simp only [h, if_true, Option.getD_some]; exact (shrV_val ha s).1
    · simp only [h, if_false, Option.getD_none, val_uzero, shr_overflow_zero ha (Nat.not_lt.mp h)]

/-- T05.7c `BoxedUint::shl` / `shr` (`assert!(!overflow)`): panic exactly when `s ≥ BITS`. -/
theorem boxed_shl_shr_spec {a : List Nat} (ha : WF a) (hn0 : a ≠ []) (hn : 64 * a.length ≤ TWO32) (s : Nat) :
    boxedShl a s = (if s < 64 * a.length then some (overflowingShlVartime a s).1 else none) ∧
    boxedShr a s = (if s < 64 * a.length then some (overflowingShrVartime a s).1 else none) := by
  unfold boxedShl boxedShr
  rw [boxedOverflowingShl_spec ha hn0 hn, boxedOverflowingShr_spec ha hn0 hn]
  by_cases h : s < 64 * a.length
  · simp [h, Nat.not_le.mpr h]
  · simp [h, Nat.not_lt.mp h]

/-! ## T05.8 crate-internal one-bit / sub-limb shifts (`pub(crate)`, reached only through hooks) -/

/-- T05.8a `shl_limb(shift)`, `0 ≤ shift < 64` (with the `shift = 0` masking and `wrapping_shr`):
    `result + 2^BITS · carry = x · 2^shift`. -/
theorem shl_limb_spec {a : List Nat} (ha : WF a) (hne : a ≠ []) {s : Nat} (hs : s < 64) :
    val (shlLimb a s).1 + B ^ a.length * (shlLimb a s).2 = val a * 2 ^ s ∧
    (shlLimb a s).1.length = a.length := shlLimb_spec ha hne hs

/-- T05.8b `overflowing_shl1`: `result + 2^BITS · carry = 2x`; `shr1_with_carry`: `x / 2` and the
    choice "bit 0 was set"; the boxed `shl1_assign` / `shr1_assign` loops compute the same limbs. -/
theorem shl1_shr1_spec {a : List Nat} (ha : WF a) :
    (val (overflowingShl1 a).1 + B ^ a.length * (overflowingShl1 a).2 = 2 * val a ∧
      (overflowingShl1 a).2 ≤ 1) ∧
    (val (shr1WithCarry a).1 = val a / 2 ∧ (shr1WithCarry a).2 = mask (decide (val a % 2 = 1))) ∧
    (a ≠ [] → boxedShl1 a = overflowingShl1 a) ∧ boxedShr1 a = ushr1 a := by
  have h1 := overflowingShl1_spec ha
  have h2 := shr1WithCarry_spec ha
  exact ⟨⟨h1.1, h1.2.1⟩, ⟨h2.1, h2.2.1⟩, fun hne => boxedShl1_eq hne, boxedShr1_eq ha⟩

/-- `Limb::shl` / `Limb::shr` for `s < 64` and the limb bit counts. -/
theorem limb_shift_spec {x s : Nat} (hx : x < B) (hs : s < 64) :
    limbShl x s = some ((x * 2 ^ s) % B) ∧ limbShr x s = some (x / 2 ^ s) ∧
    limbBits x = bitlen x := by
  refine ⟨by simp [limbShl, hs, wshl], by simp [limbShr, hs, wshr], ?_⟩
  unfold limbBits wlz
  have := bitlen_word_le hx; omega

/-! ## T05.9 (coverage round) bitwise operators of `Int<LIMBS>` and of `Limb`

`Int` is a newtype over `Uint`; every spelling (inherent, `wrapping_*`, `checked_*`, operators by value / reference /
assigning, `Wrapping<Int>`) ends in the `Uint` limb loops.  The harness cross-checks the spellings on every line. -/

open CB.BitForms in
/-- T05.9a `Int` `&`, `|`, `^`, `bitand_limb` act on the two's-complement bit pattern as the `Nat` bit operators
    (width and well-formedness preserved); the `checked_*` forms are always `some`. -/
theorem int_bitops_spec {a b : List Nat} (ha : WF a) (hb : WF b) (h : a.length = b.length) :
    (val (intBitand a b) = val a &&& val b ∧ (intBitand a b).length = a.length ∧ WF (intBitand a b)) ∧
    (val (intBitor a b) = val a ||| val b ∧ (intBitor a b).length = a.length ∧ WF (intBitor a b)) ∧
    (val (intBitxor a b) = val a ^^^ val b ∧ (intBitxor a b).length = a.length ∧ WF (intBitxor a b)) ∧
    (∀ l, val (intBitandLimb a l) = val a &&& val (List.replicate a.length (l % B))) ∧
    (∀ r, (intChecked r).2 = mask true ∧ (intChecked r).1 = r) := by
  have h1 := val_ubitand ha hb h
  have h2 := val_ubitor ha hb h
  have h3 := val_ubitxor ha hb h
  exact ⟨⟨h1.1, h1.2.2, h1.2.1⟩, ⟨h2.1, h2.2.2, h2.2.1⟩, ⟨h3.1, h3.2.2, h3.2.1⟩,
    fun l => ubitandLimb_spec ha l, fun _ => ⟨rfl, rfl⟩⟩

open CB.BitForms in
/-- T05.9b `!` on `Int`: the complement within the width, i.e. `-x - 1` on the signed value. -/
theorem int_not_spec {a : List Nat} (ha : WF a) (hne : a ≠ []) :
    val (intNot a) = B ^ a.length - 1 - val a ∧ toInt (intNot a) = - toInt a - 1 ∧
    (intNot a).length = a.length := by
  have h := val_unot ha
  exact ⟨by have := h.1; unfold intNot; omega, toInt_intNot ha hne, h.2.2⟩

open CB.BitForms in
/-- T05.9c `Limb` `&`, `|`, `^`, `!` (and `&=`, `|=`, `^=`): the word operators, results are words. -/
theorem limb_bitops_spec {x y : Nat} (hx : x < B) (hy : y < B) :
    (limbAnd x y = x &&& y ∧ limbAnd x y < B) ∧ (limbOr x y = x ||| y ∧ limbOr x y < B) ∧
    (limbXor x y = x ^^^ y ∧ limbXor x y < B) ∧ (limbNot x = B - 1 - x ∧ limbNot x < B) := by
  refine ⟨⟨rfl, and_lt_B hx⟩, ⟨rfl, or_lt_B hx hy⟩, ⟨rfl, xor_lt_B hx hy⟩, ?_, ?_⟩
  · unfold limbNot; rw [wnot_eq hx]; simp only [WMAX_def, B_def]
  · unfold limbNot; rw [wnot_eq hx]; simp only [WMAX_def, B_def] at *; omega

open CB.BitForms in
example : toInt (intNot [0, HALF]) = - toInt [0, HALF] - 1 ∧ val (intBitand [WMAX, HALF] [1, WMAX]) = val [1, HALF] := by
  decide

end CB.P05
