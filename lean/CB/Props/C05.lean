/-
  C05 — Shifts and bit queries agree with the binary expansion for every shift amount.
  Property theorems only (helper lemmas live in CB/Lemmas/C05*.lean).  Every theorem quantifies over
  all limb counts (list lengths), all operand values and all shift amounts / bit indices.
  `BITS = 64 * a.length`, `2^BITS = B ^ a.length`.
-/
import CB.Lemmas.C05Shift
namespace CB.P05
open CB CB.Shift CB.Bits

/-- T05.1a `overflowing_shl_vartime` (limb move + carry pass), every limb count and every shift:
    `is_some` exactly when `s < BITS`, then the value is `(x * 2^s) mod 2^BITS`; otherwise the
    dummy value is zero. -/
theorem shl_vartime_spec {a : List Nat} (ha : WF a) (s : Nat) :
    (overflowingShlVartime a s).2 = mask (decide (s < 64 * a.length)) ∧
    (s < 64 * a.length → val (overflowingShlVartime a s).1 = (val a * 2 ^ s) % B ^ a.length) ∧
    (64 * a.length ≤ s → val (overflowingShlVartime a s).1 = 0) ∧
    (overflowingShlVartime a s).1.length = a.length ∧ WF (overflowingShlVartime a s).1 := by
  by_cases h : s < 64 * a.length
  · have ⟨h1, h2, h3, h4⟩ := overflowingShlVartime_spec ha h
    exact ⟨by simp [h1, h, mask], fun _ => h2, fun h' => absurd h (Nat.not_lt.mpr h'), h3, h4⟩
  · have h' := Nat.not_lt.mp h
    rw [overflowingShlVartime_overflow a h']
    exact ⟨by simp [h, mask], fun h'' => absurd h'' h, fun _ => uzero_val _, uzero_length _, uzero_WF _⟩

/-- T05.1b `overflowing_shr_vartime`: `x / 2^s` when `s < BITS`, none (zero) otherwise. -/
theorem shr_vartime_spec {a : List Nat} (ha : WF a) (s : Nat) :
    (overflowingShrVartime a s).2 = mask (decide (s < 64 * a.length)) ∧
    (s < 64 * a.length → val (overflowingShrVartime a s).1 = val a / 2 ^ s) ∧
    (64 * a.length ≤ s → val (overflowingShrVartime a s).1 = 0) ∧
    (overflowingShrVartime a s).1.length = a.length ∧ WF (overflowingShrVartime a s).1 := by
  by_cases h : s < 64 * a.length
  · have ⟨h1, h2, h3, h4⟩ := overflowingShrVartime_spec ha h
    exact ⟨by simp [h1, h, mask], fun _ => h2, fun h' => absurd h (Nat.not_lt.mpr h'), h3, h4⟩
  · have h' := Nat.not_lt.mp h
    rw [overflowingShrVartime_overflow a h']
    exact ⟨by simp [h, mask], fun h'' => absurd h'' h, fun _ => uzero_val _, uzero_length _, uzero_WF _⟩

/-- non-vacuity: a 3-limb value (non-power-of-two width) shifted across a limb boundary. -/
example : val (overflowingShlVartime [WMAX, 1, 0] 65).1 = (val [WMAX, 1, 0] * 2 ^ 65) % B ^ 3 :=
  (shl_vartime_spec (a := [WMAX, 1, 0]) (WF_of_all (by decide)) 65).2.1 (by decide)
example : val (overflowingShrVartime [0, 1, WMAX] 65).1 = val [0, 1, WMAX] / 2 ^ 65 :=
  (shr_vartime_spec (a := [0, 1, WMAX]) (WF_of_all (by decide)) 65).2.1 (by decide)

end CB.P05
