/-
  C13 — Signed integers behave as two's-complement mathematical integers.
  Property theorems only (helper lemmas live in CB/Lemmas/C13*.lean).  Every theorem quantifies over
  all limb counts (list lengths ≥ 1) and all operand values; statements are on `toInt` with Lean's `Int`.
  `wrapS n x` = `x mod 2^(64 n)` re-signed; `InRange n x` = `x ∈ [MIN, MAX]` of an `n`-limb `Int`.
-/
import CB.Lemmas.C13Mul
import CB.Lemmas.C13Resize
set_option linter.unusedVariables false
namespace CB.P13
open CB CB.SInt

/-- T13.1 `Int::overflowing_add` / `wrapping_add`: the value is the sum modulo `2^BITS` re-signed, the
    flag is set exactly when the true sum lies outside `[MIN, MAX]`. -/
theorem overflowing_add_spec {a b : List Nat} (ha : WF a) (hb : WF b) (hl : a.length = b.length)
    (hne : a ≠ []) :
    toInt (iOverflowingAdd a b).1 = wrapS a.length (toInt a + toInt b) ∧
    (iOverflowingAdd a b).2 = mask (decide (¬ InRange a.length (toInt a + toInt b))) := by
  have hpos : 0 < a.length := List.length_pos_iff.mpr hne
  have hr := uadc_spec a b 0 hl
  have hlen := uadc_length a b 0 hl
  have hwf := uadc_WF a b 0
  have hc := uadc_carry_le_one ha hb (Nat.zero_le 1)
  have hva := val_lt ha
  have hvb := val_lt hb
  have hvr := val_lt hwf
  have na := isNegative_spec ha
  have nb := isNegative_spec hb
  have nr := isNegative_spec hwf
  obtain ⟨H, hH, hHpos⟩ := Bpow_even hpos
  have ca := toInt_cases a
  have cb := toInt_cases b
  have cr := toInt_cases (uadc a b 0).1
  have hM : (0 : Int) < ((B ^ a.length : Nat) : Int) := by exact_mod_cast Bpow_pos' a.length
  rw [hlen] at hvr nr cr
  rw [← hl] at hvb nb cb
  suffices key : toInt (uadc a b 0).1 = wrapS a.length (toInt a + toInt b) ∧
      (((B ^ a.length ≤ 2 * val a ↔ B ^ a.length ≤ 2 * val b) ∧
        ¬(B ^ a.length ≤ 2 * val a ↔ B ^ a.length ≤ 2 * val (uadc a b 0).1)) ↔
       ¬ InRange a.length (toInt a + toInt b)) by
    refine ⟨key.1, ?_⟩
    show cand (ceq (isNegative a) (isNegative b)) (cne (isNegative a) (isNegative (uadc a b 0).1)) = _
    rw [na, nb, nr, ceq_dec, cne_dec, cand_dec]
    exact mask_congr key.2
  clear na nb nr
  unfold wrapS InRange
  have rc := resign_cases (M := ((B ^ a.length : Nat) : Int)) (s := toInt a + toInt b) hM (by omega)
  generalize B ^ a.length = M at *
  generalize (uadc a b 0).2 = c at *
  have hc2 : c = 0 ∨ c = 1 := by omega
  rcases hc2 with h | h <;> subst h <;> constructor <;> omega

/-- T13.1 `wrapping_add` (also `WrappingAdd`, `Wrapping<Int> +`): sum modulo `2^BITS`, re-signed. -/
theorem wrapping_add_spec {a b : List Nat} (ha : WF a) (hb : WF b) (hl : a.length = b.length)
    (hne : a ≠ []) : toInt (iWrappingAdd a b) = wrapS a.length (toInt a + toInt b) :=
  (overflowing_add_spec ha hb hl hne).1

/-- T13.1 `checked_add` (also `CheckedAdd`, `+`, `+=`, `Checked<Int> +`): `is_some` exactly when the
    true sum lies in `[MIN, MAX]`, and then the value is the sum. -/
theorem checked_add_spec {a b : List Nat} (ha : WF a) (hb : WF b) (hl : a.length = b.length)
    (hne : a ≠ []) :
    (iCheckedAdd a b).2 = mask (decide (InRange a.length (toInt a + toInt b))) ∧
    (InRange a.length (toInt a + toInt b) → toInt (iCheckedAdd a b).1 = toInt a + toInt b) := by
  have ⟨h1, h2⟩ := overflowing_add_spec ha hb hl hne
  refine ⟨?_, fun hin => ?_⟩
  · show cnot (iOverflowingAdd a b).2 = _
    rw [h2, cnot_dec]; exact mask_congr not_not
  · show toInt (iOverflowingAdd a b).1 = _
    rw [h1, wrapS_of_inRange hin]

/-- T13.2 `CheckedSub::checked_sub` / `WrappingSub::wrapping_sub` (also `-`, `Checked<Int> -`,
    `Wrapping<Int> -`): difference modulo `2^BITS` re-signed; `is_some` exactly when the true difference
    lies in `[MIN, MAX]`. -/
theorem checked_sub_spec {a b : List Nat} (ha : WF a) (hb : WF b) (hl : a.length = b.length)
    (hne : a ≠ []) :
    toInt (iCheckedSub a b).1 = wrapS a.length (toInt a - toInt b) ∧
    (iCheckedSub a b).2 = mask (decide (InRange a.length (toInt a - toInt b))) ∧
    (InRange a.length (toInt a - toInt b) → toInt (iCheckedSub a b).1 = toInt a - toInt b) := by
  have hpos : 0 < a.length := List.length_pos_iff.mpr hne
  obtain ⟨hr, hbw, hm⟩ := usbb_spec ha hb (show 0 < B by decide) hl
  have hm := hm hne
  have hlen := usbb_length a b 0 hl
  have hwf := usbb_WF a b 0
  have hva := val_lt ha
  have hvb := val_lt hb
  have hvr := val_lt hwf
  have na := isNegative_spec ha
  have nb := isNegative_spec hb
  have nr := isNegative_spec hwf
  obtain ⟨H, hH, hHpos⟩ := Bpow_even hpos
  have ca := toInt_cases a
  have cb := toInt_cases b
  have cr := toInt_cases (usbb a b 0).1
  have hM : (0 : Int) < ((B ^ a.length : Nat) : Int) := by exact_mod_cast Bpow_pos' a.length
  rw [hlen] at hvr nr cr
  rw [← hl] at hvb nb cb
  have h0 : (0 : Nat) / HALF = 0 := by decide
  have h1 : WMAX / HALF = 1 := by decide
  suffices key : toInt (usbb a b 0).1 = wrapS a.length (toInt a - toInt b) ∧
      ((¬((¬(B ^ a.length ≤ 2 * val a ↔ B ^ a.length ≤ 2 * val b)) ∧
        ¬(B ^ a.length ≤ 2 * val a ↔ B ^ a.length ≤ 2 * val (usbb a b 0).1))) ↔
       InRange a.length (toInt a - toInt b)) by
    refine ⟨key.1, ?_, fun hin => ?_⟩
    · show cnot (cand (cne (isNegative a) (isNegative b)) (cne (isNegative a) (isNegative (usbb a b 0).1))) = _
      rw [na, nb, nr, cne_dec, cne_dec, cand_dec, cnot_dec]
      exact mask_congr key.2
    · show toInt (usbb a b 0).1 = _
      rw [key.1, wrapS_of_inRange hin]
  clear na nb nr
  unfold wrapS InRange
  have rc := resign_cases (M := ((B ^ a.length : Nat) : Int)) (s := toInt a - toInt b) hM (by omega)
  generalize B ^ a.length = M at *
  generalize (usbb a b 0).2 = c at *
  rcases hm with h | h <;> subst h <;> simp only [h0, h1] at hr <;> constructor <;> omega

theorem wrapping_sub_spec {a b : List Nat} (ha : WF a) (hb : WF b) (hl : a.length = b.length)
    (hne : a ≠ []) : toInt (iWrappingSub a b) = wrapS a.length (toInt a - toInt b) :=
  (checked_sub_spec ha hb hl hne).1

/-- `Int::ONE` and the complement `self ^ MAX` read as `1` and `-self - 1`. -/
theorem toInt_one_xorMax {a : List Nat} (ha : WF a) (hne : a ≠ []) :
    toInt (iOne a.length) = 1 ∧ toInt (xorMax a) = - toInt a - 1 := by
  have hpos : 0 < a.length := List.length_pos_iff.mpr hne
  obtain ⟨k, hk⟩ : ∃ k, a.length = k + 1 := ⟨a.length - 1, by omega⟩
  obtain ⟨x1, x2, x3⟩ := xorMax_spec ha
  obtain ⟨o1, o2, o3⟩ := uone_spec k
  obtain ⟨H, hH, hHpos⟩ := Bpow_even hpos
  have hB : B ≤ B ^ a.length := by
    rw [hk, Nat.pow_succ]; exact Nat.le_mul_of_pos_left B (Bpow_pos' k)
  have hva := val_lt ha
  have c1 := toInt_cases (iOne a.length)
  have c2 := toInt_cases (xorMax a)
  have c3 := toInt_cases a
  unfold iOne at *
  rw [hk] at c1
  rw [o2, o3, ← hk] at c1
  rw [x2] at c2
  generalize B ^ a.length = M at *
  simp only [B_def] at hB
  constructor <;> omega

/-- T13.3 `overflowing_neg` / `wrapping_neg`: the negation modulo `2^BITS` re-signed; overflow exactly
    when `-self` lies outside `[MIN, MAX]` (i.e. only for `MIN`). -/
theorem overflowing_neg_spec {a : List Nat} (ha : WF a) (hne : a ≠ []) :
    toInt (iOverflowingNeg a).1 = wrapS a.length (- toInt a) ∧
    (iOverflowingNeg a).2 = mask (decide (¬ InRange a.length (- toInt a))) := by
  obtain ⟨x1, x2, x3⟩ := xorMax_spec ha
  obtain ⟨k, hk⟩ : ∃ k, a.length = k + 1 := ⟨a.length - 1, by
    have := List.length_pos_iff.mpr hne; omega⟩
  obtain ⟨o1, o2, o3⟩ := uone_spec k
  have ⟨t1, t2⟩ := toInt_one_xorMax ha hne
  have hne' : xorMax a ≠ [] := by
    intro h; rw [h] at x2; simp at x2; exact hne (List.length_eq_zero_iff.mp x2.symm)
  have hw1 : WF (iOne a.length) := by unfold iOne; rw [hk]; exact o1
  have hl1 : (xorMax a).length = (iOne a.length).length := by unfold iOne; rw [x2, hk, o2]
  have := overflowing_add_spec x1 hw1 hl1 hne'
  rw [x2, t1, t2, show - toInt a - 1 + 1 = - toInt a by ring] at this
  exact this

theorem wrapping_neg_spec {a : List Nat} (ha : WF a) (hne : a ≠ []) :
    toInt (iWrappingNeg a) = wrapS a.length (- toInt a) := (overflowing_neg_spec ha hne).1

/-- T13.3 `checked_neg`: `none` exactly for `MIN`. -/
theorem checked_neg_spec {a : List Nat} (ha : WF a) (hne : a ≠ []) :
    (iCheckedNeg a).2 = mask (decide (InRange a.length (- toInt a))) ∧
    (InRange a.length (- toInt a) → toInt (iCheckedNeg a).1 = - toInt a) := by
  have ⟨h1, h2⟩ := overflowing_neg_spec ha hne
  refine ⟨?_, fun hin => ?_⟩
  · show cnot (iOverflowingNeg a).2 = _
    rw [h2, cnot_dec]; exact mask_congr not_not
  · show toInt (iOverflowingNeg a).1 = _
    rw [h1, wrapS_of_inRange hin]

/-- `-x` overflows exactly for `x = MIN` -/
theorem neg_inRange_iff {n : Nat} {x : Int} (hx : InRange n x) :
    InRange n (-x) ↔ 2 * x ≠ -((B ^ n : Nat) : Int) := by
  unfold InRange at *; omega

/-- T13.3 `wrapping_neg_if` (the `Uint` conditional negation reused by `Int`): `self` or `-self`
    modulo `2^BITS` re-signed. -/
theorem wrapping_neg_if_spec {a : List Nat} (p : Bool) (ha : WF a) (hne : a ≠ []) :
    toInt (iWrappingNegIf a (mask p)) = if p then wrapS a.length (- toInt a) else toInt a :=
  wrappingNegIf_toInt p ha

/-! ### T13.4 sign predicates, MIN / MAX, sign–magnitude decomposition -/

/-- T13.4 `is_negative`, `is_positive`, `is_min`, `is_max` are exact. -/
theorem sign_predicates_spec {a : List Nat} (ha : WF a) (hne : a ≠ []) :
    isNegative a = mask (decide (toInt a < 0)) ∧ isPositive a = mask (decide (0 < toInt a)) ∧
    isMin a = mask (decide (2 * toInt a = -((B ^ a.length : Nat) : Int))) ∧
    isMax a = mask (decide (2 * toInt a = ((B ^ a.length : Nat) : Int) - 2)) :=
  ⟨isNegative_toInt ha, isPositive_spec ha, isMin_spec ha hne, isMax_spec ha hne⟩

/-- the constants: `toInt MIN = -2^(BITS-1)`, `toInt MAX = 2^(BITS-1) - 1` -/
theorem min_max_values (k : Nat) :
    2 * toInt (intMin (k + 1)) = -((B ^ (k + 1) : Nat) : Int) ∧
    2 * toInt (intMax (k + 1)) = ((B ^ (k + 1) : Nat) : Int) - 2 := by
  obtain ⟨m1, m2, m3⟩ := intMin_spec k
  obtain ⟨x1, x2, x3⟩ := intMax_spec k
  have c1 := toInt_cases (intMin (k + 1))
  have c2 := toInt_cases (intMax (k + 1))
  rw [m2] at c1; rw [x2] at c2
  generalize B ^ (k + 1) = M at *
  constructor <;> omega

/-- T13.4 `abs_sign` / `abs`: the magnitude is `|self|` as an unsigned value (`2^(BITS-1)` for `MIN`), the
    sign flag is `self < 0`. -/
theorem abs_sign_spec {a : List Nat} (ha : WF a) :
    val (absSign a).1 = (toInt a).natAbs ∧ (absSign a).2 = mask (decide (toInt a < 0)) ∧
    WF (absSign a).1 ∧ (absSign a).1.length = a.length := by
  obtain ⟨h1, h2, h3, h4⟩ := absSign_spec ha
  exact ⟨by omega, h3, h1, h2⟩

/-- T13.4 `new_from_abs_sign`: `some` exactly when `±abs ∈ [MIN, MAX]` — magnitude `2^(BITS-1)` is accepted
    with the negative sign only, a negative zero is `0` — and then the value is `±abs`. -/
theorem new_from_abs_sign_spec {abs : List Nat} (p : Bool) (h : WF abs) (hne : abs ≠ []) :
    (newFromAbsSign abs (mask p)).2 =
      mask (decide (InRange abs.length (if p then -(val abs : Int) else (val abs : Int)))) ∧
    (InRange abs.length (if p then -(val abs : Int) else (val abs : Int)) →
      toInt (newFromAbsSign abs (mask p)).1 = (if p then -(val abs : Int) else (val abs : Int))) := by
  obtain ⟨h1, h2⟩ := newFromAbsSign_spec p h hne
  exact ⟨h1, fun hin => by rw [h2, wrapS_of_inRange hin]⟩

/-- reconstruction: `new_from_abs_sign(abs_sign(x)) = x` for every `x` including `MIN` -/
theorem abs_sign_roundtrip {a : List Nat} (ha : WF a) (hne : a ≠ []) :
    (newFromAbsSign (absSign a).1 (absSign a).2).2 = WMAX ∧
    toInt (newFromAbsSign (absSign a).1 (absSign a).2).1 = toInt a := by
  obtain ⟨w, l, s, c, _, _⟩ := mag_view ha
  have lne : (absSign a).1 ≠ [] := by
    intro h; rw [h] at l; exact hne (List.length_eq_zero_iff.mp l.symm)
  obtain ⟨h1, h2⟩ := new_from_abs_sign_spec (decide (toInt a < 0)) w lne
  have hr := toInt_inRange ha
  have hx : (if decide (toInt a < 0) = true then -((val (absSign a).1 : Nat) : Int)
      else ((val (absSign a).1 : Nat) : Int)) = toInt a := by
    rcases c with ⟨c1, c2⟩ | ⟨c1, c2⟩
    · simp only [c1, decide_true, if_true]; omega
    · have : ¬ toInt a < 0 := by omega
      simp only [this, decide_false, Bool.false_eq_true, if_false]; omega
  rw [s]
  rw [hx, l] at h1 h2
  exact ⟨by rw [h1]; simp [hr, mask], h2 hr⟩

/-! ### T13.5 products through magnitudes (unsigned product at value level; exactness of mul is C03) -/

/-- T13.5 `split_mul`: `lo + 2^BITS·hi = |a|·|b|`, `negate` = signs differ. Mixed widths. -/
theorem split_mul_spec {a b : List Nat} (ha : WF a) (hb : WF b) :
    val (iSplitMul a b).1 + B ^ a.length * val (iSplitMul a b).2.1 = (toInt a).natAbs * (toInt b).natAbs ∧
    (iSplitMul a b).1.length = a.length ∧ (iSplitMul a b).2.1.length = b.length ∧
    (iSplitMul a b).2.2 = mask (decide (¬(toInt a < 0 ↔ toInt b < 0))) := by
  obtain ⟨_, h2, _, h4, h5, h6⟩ := splitMul_spec ha hb
  exact ⟨h5, h2, h4, h6⟩

/-- T13.5 `widening_mul`: the exact product in `LIMBS + RHS_LIMBS` limbs. Mixed widths. -/
theorem widening_mul_spec {a b : List Nat} (ha : WF a) (hb : WF b) :
    toInt (iWideningMul a b) = toInt a * toInt b ∧ (iWideningMul a b).length = a.length + b.length :=
  wideningMul_spec ha hb

/-- T13.5 `checked_mul` (`CheckedMul<Int<RHS>>`, `*`, `Checked<Int> *`): `some` exactly when the true product
    lies in `[MIN, MAX]` of the LEFT operand's width (so `MIN·1`, `(-2^k)·2^(BITS-1-k)` are accepted and
    `2^k·2^(BITS-1-k)`, `MIN·(-1)` are not); then the value is the product. Mixed widths. -/
theorem checked_mul_spec {a b : List Nat} (ha : WF a) (hb : WF b) (hne : a ≠ []) :
    (iCheckedMul a b).2 = mask (decide (InRange a.length (toInt a * toInt b))) ∧
    (InRange a.length (toInt a * toInt b) → toInt (iCheckedMul a b).1 = toInt a * toInt b) :=
  checkedMul_spec ha hb hne

/-- T13.5 `split_mul_uint`, `split_mul_uint_right` -/
theorem split_mul_uint_spec {a b : List Nat} (ha : WF a) (hb : WF b) :
    val (iSplitMulUint a b).1 + B ^ a.length * val (iSplitMulUint a b).2.1 = (toInt a).natAbs * val b ∧
    (iSplitMulUint a b).2.2 = mask (decide (toInt a < 0)) ∧
    val (iSplitMulUintRight a b).1 + B ^ b.length * val (iSplitMulUintRight a b).2.1 = (toInt a).natAbs * val b ∧
    (iSplitMulUintRight a b).2.2 = mask (decide (toInt a < 0)) := by
  obtain ⟨h1, _, _, h4, h5, _, _, h8⟩ := splitMulUint_spec ha hb
  exact ⟨h1, h4, h5, h8⟩

/-- T13.5 `widening_mul_uint` -/
theorem widening_mul_uint_spec {a b : List Nat} (ha : WF a) (hb : WF b) :
    toInt (iWideningMulUint a b) = toInt a * (val b : Int) ∧
    (iWideningMulUint a b).length = a.length + b.length := wideningMulUint_spec ha hb

/-- T13.5 `checked_mul` by a `Uint` (`CheckedMul<Uint<RHS>>`, `*`): range of the LEFT (signed) operand -/
theorem checked_mul_uint_spec {a b : List Nat} (ha : WF a) (hb : WF b) (hne : a ≠ []) :
    (iCheckedMulUint a b).2 = mask (decide (InRange a.length (toInt a * (val b : Int)))) ∧
    (InRange a.length (toInt a * (val b : Int)) → toInt (iCheckedMulUint a b).1 = toInt a * (val b : Int)) :=
  checkedMulUint_spec ha hb hne

/-- T13.5 `checked_mul_uint_right`: range of an `Int` with the width of the RIGHT (unsigned) operand -/
theorem checked_mul_uint_right_spec {a b : List Nat} (ha : WF a) (hb : WF b) (hne : b ≠ []) :
    (iCheckedMulUintRight a b).2 = mask (decide (InRange b.length (toInt a * (val b : Int)))) ∧
    (InRange b.length (toInt a * (val b : Int)) →
      toInt (iCheckedMulUintRight a b).1 = toInt a * (val b : Int)) :=
  checkedMulUintRight_spec ha hb hne

/-- T13.5 squares (results are unsigned): widening = `self²`; checked `some` iff `self² < 2^BITS`;
    wrapping = `self² mod 2^BITS`; saturating = `min(self², 2^BITS - 1)`. -/
theorem squares_spec {a : List Nat} (ha : WF a) :
    val (iWideningSquare a) = (toInt a).natAbs * (toInt a).natAbs ∧
    (iWideningSquare a).length = a.length + a.length ∧
    (iCheckedSquare a).2 = mask (decide ((toInt a).natAbs * (toInt a).natAbs < B ^ a.length)) ∧
    ((toInt a).natAbs * (toInt a).natAbs < B ^ a.length →
      val (iCheckedSquare a).1 = (toInt a).natAbs * (toInt a).natAbs) ∧
    val (iWrappingSquare a) = (toInt a).natAbs * (toInt a).natAbs % B ^ a.length ∧
    val (iSaturatingSquare a) = min ((toInt a).natAbs * (toInt a).natAbs) (B ^ a.length - 1) :=
  CB.SInt.squares_spec ha

/-! ### T13.6 resize and conversions from primitives -/

/-- T13.6 `resize::<T>`: the value modulo `2^(64·T)` re-signed (truncation), and the value itself when
    `T ≥ LIMBS` (sign extension). -/
theorem resize_spec {a : List Nat} (ha : WF a) (t : Nat) :
    (iResize a t).length = t ∧ WF (iResize a t) ∧ toInt (iResize a t) = wrapS t (toInt a) ∧
    (a.length ≤ t → toInt (iResize a t) = toInt a) := by
  obtain ⟨h1, h2, h3⟩ := CB.SInt.resize_spec ha t
  exact ⟨h2, h1, h3, fun hle => resize_widen ha hle⟩

/-- T13.6 `from_i8 / from_i16 / from_i32 / from_i64` (and `From<iN>`): the primitive's value for every
    `LIMBS ≥ 1`; the primitive is given by its `k`-bit pattern `x`. -/
theorem from_prim_spec {k x n : Nat} (hk : k = 8 ∨ k = 16 ∨ k = 32 ∨ k = 64) (hx : x < 2 ^ k) (hn : 0 < n) :
    toInt (iFromPrim k x n) = sprim k x ∧ (iFromPrim k x n).length = n :=
  fromPrim_spec (by omega) (by omega) hx hn

/-- T13.6 `from_i128` (and `From<i128>`): the primitive's value for every `LIMBS ≥ 2`. -/
theorem from_i128_spec {x n : Nat} (hx : x < 2 ^ 128) (hn : 2 ≤ n) :
    toInt (iFromI128 x n) = sprim 128 x ∧ (iFromI128 x n).length = n := fromI128_spec hx hn

/-! ### non-vacuity: the hypotheses are met by concrete non-trivial operands, and the boundary cases
    named by the property evaluate as stated (two limbs: `MIN = [0, HALF]`, `MAX = [WMAX, WMAX/2]`) -/
example : WF [0, HALF] ∧ WF [WMAX, WMAX / 2] ∧ [0, HALF] ≠ [] := by
  refine ⟨?_, ?_, by simp⟩ <;> intro x hx <;> simp at hx <;> rcases hx with h | h <;> subst h <;> decide
example : toInt [0, HALF] = -170141183460469231731687303715884105728 := by decide
example : iOverflowingAdd [0, HALF] [WMAX, WMAX] = ([WMAX, WMAX / 2], WMAX) := by decide      -- MIN + (-1) overflows
example : iOverflowingAdd [0, HALF] [WMAX, WMAX / 2] = ([WMAX, WMAX], 0) := by decide          -- MIN + MAX = -1
example : iCheckedSub [0, 0] [0, HALF] = ([0, HALF], 0) := by decide                           -- 0 - MIN: none
example : iOverflowingNeg [0, HALF] = ([0, HALF], WMAX) := by decide                           -- -MIN overflows
example : newFromAbsSign [0, HALF] WMAX = ([0, HALF], WMAX) := by decide                       -- -(2^127) = MIN
example : (newFromAbsSign [0, HALF] 0).2 = 0 := by decide                                      -- +2^127: none
example : newFromAbsSign [0, 0] WMAX = ([0, 0], WMAX) := by decide                             -- negative zero
example : iCheckedMul [0, HALF] [1, 0] = ([0, HALF], WMAX) := by decide                        -- MIN * 1
example : (iCheckedMul [0, HALF] [WMAX, WMAX]).2 = 0 := by decide                              -- MIN * -1: none
example : iCheckedMul [0, B - 2] [HALF / 2] = ([0, HALF], WMAX) := by decide                   -- (-2^65) * 2^62 = MIN (mixed widths)
example : (iCheckedMul [0, 2] [HALF / 2]).2 = 0 := by decide                                   -- 2^65 * 2^62 = 2^127: none
example : iResize [5, HALF] 1 = [5] ∧ iResize [B - 5] 3 = [B - 5, WMAX, WMAX] := by decide
example : iFromPrim 8 0x80 2 = [B - 128, WMAX] := by decide                                    -- i8::MIN

end CB.P13
