/-
  C13 — Signed integers behave as two's-complement mathematical integers.
  Property theorems only (helper lemmas live in CB/Lemmas/C13*.lean).  Every theorem quantifies over
  all limb counts (list lengths ≥ 1) and all operand values; statements are on `toInt` with Lean's `Int`.
  `wrapS n x` = `x mod 2^(64 n)` re-signed; `InRange n x` = `x ∈ [MIN, MAX]` of an `n`-limb `Int`.
-/
import CB.Lemmas.C13Int
set_option linter.unusedVariables false
namespace CB.P13
open CB CB.SInt

/-- T13.1 `Int::overflowing_add` / `wrapping_add`: the value is the sum modulo `2^BITS` re-signed, the
    flag is set exactly when the true sum lies outside `[MIN, MAX]`. -/
theorem overflowing_add_spec {a b : List Nat} (ha : WF a) (hb : WF b) (hl : a.length = b.length)
    (hne : a ≠ []) :
    toInt (iOverflowingAdd a b).1 = wrapS a.length (toInt a + toInt b) ∧
    (iOverflowingAdd a b).2 = mask (decide (¬ InRange a.length (toInt a + toInt b))) := by
  have hpos : 0 < a.length := List.length_pos_iff.mpr hne
  have hr := uadc_spec a b 0 hl
  have hlen := uadc_length a b 0 hl
  have hwf := uadc_WF a b 0
  have hc := uadc_carry_le_one ha hb (Nat.zero_le 1)
  have hva := val_lt ha
  have hvb := val_lt hb
  have hvr := val_lt hwf
  have na := isNegative_spec ha
  have nb := isNegative_spec hb
  have nr := isNegative_spec hwf
  obtain ⟨H, hH, hHpos⟩ := Bpow_even hpos
  have ca := toInt_cases a
  have cb := toInt_cases b
  have cr := toInt_cases (uadc a b 0).1
  have hM : (0 : Int) < ((B ^ a.length : Nat) : Int) := by exact_mod_cast Bpow_pos' a.length
  rw [hlen] at hvr nr cr
  rw [← hl] at hvb nb cb
  suffices key : toInt (uadc a b 0).1 = wrapS a.length (toInt a + toInt b) ∧
      (((B ^ a.length ≤ 2 * val a ↔ B ^ a.length ≤ 2 * val b) ∧
        ¬(B ^ a.length ≤ 2 * val a ↔ B ^ a.length ≤ 2 * val (uadc a b 0).1)) ↔
       ¬ InRange a.length (toInt a + toInt b)) by
    refine ⟨key.1, ?_⟩
    show cand (ceq (isNegative a) (isNegative b)) (cne (isNegative a) (isNegative (uadc a b 0).1)) = _
    rw [na, nb, nr, ceq_dec, cne_dec, cand_dec]
    exact mask_congr key.2
  clear na nb nr
  unfold wrapS InRange
  have rc := resign_cases (M := ((B ^ a.length : Nat) : Int)) (s := toInt a + toInt b) hM (by omega)
  generalize B ^ a.length = M at *
  generalize (uadc a b 0).2 = c at *
  have hc2 : c = 0 ∨ c = 1 := by omega
  rcases hc2 with h | h <;> subst h <;> constructor <;> omega

/-- T13.1 `wrapping_add` (also `WrappingAdd`, `Wrapping<Int> +`): sum modulo `2^BITS`, re-signed. -/
theorem wrapping_add_spec {a b : List Nat} (ha : WF a) (hb : WF b) (hl : a.length = b.length)
    (hne : a ≠ []) : toInt (iWrappingAdd a b) = wrapS a.length (toInt a + toInt b) :=
  (overflowing_add_spec ha hb hl hne).1

/-- T13.1 `checked_add` (also `CheckedAdd`, `+`, `+=`, `Checked<Int> +`): `is_some` exactly when the
    true sum lies in `[MIN, MAX]`, and then the value is the sum. -/
theorem checked_add_spec {a b : List Nat} (ha : WF a) (hb : WF b) (hl : a.length = b.length)
    (hne : a ≠ []) :
    (iCheckedAdd a b).2 = mask (decide (InRange a.length (toInt a + toInt b))) ∧
    (InRange a.length (toInt a + toInt b) → toInt (iCheckedAdd a b).1 = toInt a + toInt b) := by
  have ⟨h1, h2⟩ := overflowing_add_spec ha hb hl hne
  refine ⟨?_, fun hin => ?_⟩
  · show cnot (iOverflowingAdd a b).2 = _
    rw [h2, cnot_dec]; exact mask_congr not_not
  · show toInt (iOverflowingAdd a b).1 = _
    rw [h1, wrapS_of_inRange hin]

/-- T13.2 `CheckedSub::checked_sub` / `WrappingSub::wrapping_sub` (also `-`, `Checked<Int> -`,
    `Wrapping<Int> -`): difference modulo `2^BITS` re-signed; `is_some` exactly when the true difference
    lies in `[MIN, MAX]`. -/
theorem checked_sub_spec {a b : List Nat} (ha : WF a) (hb : WF b) (hl : a.length = b.length)
    (hne : a ≠ []) :
    toInt (iCheckedSub a b).1 = wrapS a.length (toInt a - toInt b) ∧
    (iCheckedSub a b).2 = mask (decide (InRange a.length (toInt a - toInt b))) ∧
    (InRange a.length (toInt a - toInt b) → toInt (iCheckedSub a b).1 = toInt a - toInt b) := by
  have hpos : 0 < a.length := List.length_pos_iff.mpr hne
  obtain ⟨hr, hbw, hm⟩ := usbb_spec ha hb (show 0 < B by decide) hl
  have hm := hm hne
  have hlen := usbb_length a b 0 hl
  have hwf := usbb_WF a b 0
  have hva := val_lt ha
  have hvb := val_lt hb
  have hvr := val_lt hwf
  have na := isNegative_spec ha
  have nb := isNegative_spec hb
  have nr := isNegative_spec hwf
  obtain ⟨H, hH, hHpos⟩ := Bpow_even hpos
  have ca := toInt_cases a
  have cb := toInt_cases b
  have cr := toInt_cases (usbb a b 0).1
  have hM : (0 : Int) < ((B ^ a.length : Nat) : Int) := by exact_mod_cast Bpow_pos' a.length
  rw [hlen] at hvr nr cr
  rw [← hl] at hvb nb cb
  have h0 : (0 : Nat) / HALF = 0 := by decide
  have h1 : WMAX / HALF = 1 := by decide
  suffices key : toInt (usbb a b 0).1 = wrapS a.length (toInt a - toInt b) ∧
      ((¬((¬(B ^ a.length ≤ 2 * val a ↔ B ^ a.length ≤ 2 * val b)) ∧
        ¬(B ^ a.length ≤ 2 * val a ↔ B ^ a.length ≤ 2 * val (usbb a b 0).1))) ↔
       InRange a.length (toInt a - toInt b)) by
    refine ⟨key.1, ?_, fun hin => ?_⟩
    · show cnot (cand (cne (isNegative a) (isNegative b)) (cne (isNegative a) (isNegative (usbb a b 0).1))) = _
      rw [na, nb, nr, cne_dec, cne_dec, cand_dec, cnot_dec]
      exact mask_congr key.2
    · show toInt (usbb a b 0).1 = _
      rw [key.1, wrapS_of_inRange hin]
  clear na nb nr
  unfold wrapS InRange
  have rc := resign_cases (M := ((B ^ a.length : Nat) : Int)) (s := toInt a - toInt b) hM (by omega)
  generalize B ^ a.length = M at *
  generalize (usbb a b 0).2 = c at *
  rcases hm with h | h <;> subst h <;> simp only [h0, h1] at hr <;> constructor <;> omega

theorem wrapping_sub_spec {a b : List Nat} (ha : WF a) (hb : WF b) (hl : a.length = b.length)
    (hne : a ≠ []) : toInt (iWrappingSub a b) = wrapS a.length (toInt a - toInt b) :=
  (checked_sub_spec ha hb hl hne).1

/-- `Int::ONE` and the complement `self ^ MAX` read as `1` and `-self - 1`. -/
theorem toInt_one_xorMax {a : List Nat} (ha : WF a) (hne : a ≠ []) :
    toInt (iOne a.length) = 1 ∧ toInt (xorMax a) = - toInt a - 1 := by
  have hpos : 0 < a.length := List.length_pos_iff.mpr hne
  obtain ⟨k, hk⟩ : ∃ k, a.length = k + 1 := ⟨a.length - 1, by omega⟩
  obtain ⟨x1, x2, x3⟩ := xorMax_spec ha
  obtain ⟨o1, o2, o3⟩ := uone_spec k
  obtain ⟨H, hH, hHpos⟩ := Bpow_even hpos
  have hB : B ≤ B ^ a.length := by
    rw [hk, Nat.pow_succ]; exact Nat.le_mul_of_pos_left B (Bpow_pos' k)
  have hva := val_lt ha
  have c1 := toInt_cases (iOne a.length)
  have c2 := toInt_cases (xorMax a)
  have c3 := toInt_cases a
  unfold iOne at *
  rw [hk] at c1
  rw [o2, o3, ← hk] at c1
  rw [x2] at c2
  generalize B ^ a.length = M at *
  simp only [B_def] at hB
  constructor <;> omega

/-- T13.3 `overflowing_neg` / `wrapping_neg`: the negation modulo `2^BITS` re-signed; overflow exactly
    when `-self` lies outside `[MIN, MAX]` (i.e. only for `MIN`). -/
theorem overflowing_neg_spec {a : List Nat} (ha : WF a) (hne : a ≠ []) :
    toInt (iOverflowingNeg a).1 = wrapS a.length (- toInt a) ∧
    (iOverflowingNeg a).2 = mask (decide (¬ InRange a.length (- toInt a))) := by
  obtain ⟨x1, x2, x3⟩ := xorMax_spec ha
  obtain ⟨k, hk⟩ : ∃ k, a.length = k + 1 := ⟨a.length - 1, by
    have := List.length_pos_iff.mpr hne; omega⟩
  obtain ⟨o1, o2, o3⟩ := uone_spec k
  have ⟨t1, t2⟩ := toInt_one_xorMax ha hne
  have hne' : xorMax a ≠ [] := by
    intro h; rw [h] at x2; simp at x2; exact hne (List.length_eq_zero_iff.mp x2.symm)
  have hw1 : WF (iOne a.length) := by unfold iOne; rw [hk]; exact o1
  have hl1 : (xorMax a).length = (iOne a.length).length := by unfold iOne; rw [x2, hk, o2]
  have := overflowing_add_spec x1 hw1 hl1 hne'
  rw [x2, t1, t2, show - toInt a - 1 + 1 = - toInt a by ring] at this
  exact this

theorem wrapping_neg_spec {a : List Nat} (ha : WF a) (hne : a ≠ []) :
    toInt (iWrappingNeg a) = wrapS a.length (- toInt a) := (overflowing_neg_spec ha hne).1

/-- T13.3 `checked_neg`: `none` exactly for `MIN`. -/
theorem checked_neg_spec {a : List Nat} (ha : WF a) (hne : a ≠ []) :
    (iCheckedNeg a).2 = mask (decide (InRange a.length (- toInt a))) ∧
    (InRange a.length (- toInt a) → toInt (iCheckedNeg a).1 = - toInt a) := by
  have ⟨h1, h2⟩ := overflowing_neg_spec ha hne
  refine ⟨?_, fun hin => ?_⟩
  · show cnot (iOverflowingNeg a).2 = _
    rw [h2, cnot_dec]; exact mask_congr not_not
  · show toInt (iOverflowingNeg a).1 = _
    rw [h1, wrapS_of_inRange hin]

/-- `-x` overflows exactly for `x = MIN` -/
theorem neg_inRange_iff {n : Nat} {x : Int} (hx : InRange n x) :
    InRange n (-x) ↔ 2 * x ≠ -((B ^ n : Nat) : Int) := by
  unfold InRange at *; omega

/-- T13.3 `wrapping_neg_if` (the `Uint` conditional negation reused by `Int`): `self` or `-self`
    modulo `2^BITS` re-signed. -/
theorem wrapping_neg_if_spec {a : List Nat} (p : Bool) (ha : WF a) (hne : a ≠ []) :
    toInt (iWrappingNegIf a (mask p)) = if p then wrapS a.length (- toInt a) else toInt a := by
  obtain ⟨w1, w2, w3⟩ := wrappingNegIf_spec p ha
  have hM : (0 : Int) < ((B ^ a.length : Nat) : Int) := by exact_mod_cast Bpow_pos' a.length
  have hva := val_lt ha
  cases p
  · have : wrappingNegIf a (mask false) = a := val_inj w1 ha w2 (by simpa using w3)
    show toInt (wrappingNegIf a (mask false)) = _
    rw [this]; simp
  · simp only [if_true] at w3 ⊢
    have c1 := toInt_cases (wrappingNegIf a (mask true))
    have c2 := toInt_cases a
    rw [w2, w3] at c1
    have hmod : (B ^ a.length - val a) % B ^ a.length =
        if val a = 0 then 0 else B ^ a.length - val a := by
      by_cases hz : val a = 0
      · rw [hz]; simp
      · rw [if_neg hz, Nat.mod_eq_of_lt (by omega)]
    rw [hmod] at c1
    unfold wrapS
    have rc := resign_cases (M := ((B ^ a.length : Nat) : Int)) (s := - toInt a) hM (by omega)
    show toInt (wrappingNegIf a (mask true)) = _
    generalize B ^ a.length = M at *
    split at c1 <;> omega
