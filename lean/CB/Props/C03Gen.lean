/-
  C03 — theorems about the SOURCE of the word-level functions this property rests on, regenerated from /repo on
  every run by tools/translate.py (CB/Gen/Prim.lean).  Kept in a module of its own (nothing imports it) so that a
  change in one of these Rust functions breaks exactly this property's obligations and no other module's build.
  Audited together with CB/Props/C03.lean by tools/runner.py.
-/
import CB.Props.C03
import CB.Lemmas.GenBitsMul
namespace CB.P03G
open CB

/-! ## T03.G — the SOURCE of `primitives::{mac, mul_wide, mulhilo, addhilo}`, regenerated on every run
(tools/translate.py → CB/Gen/Prim.lean; see the note at T06.G in CB/Props/C06.lean) -/

/-- `mac` of the source: `lo + 2^64·hi = a + b·c + carry` — in particular the final `hi.wrapping_add(c)` never wraps
    ("even if all the arguments are Word::MAX we can't overflow hi"); `mul_wide`, `mulhilo`: the full 128-bit product;
    `addhilo`: the 128-bit sum of two (hi, lo) pairs modulo 2^128 -/
theorem src_mac_mul (a b c k : BitVec 64) :
    (((Gen.Prim.mac a b c k).2.setWidth 128 <<< 64) ||| (Gen.Prim.mac a b c k).1.setWidth 128 =
        a.setWidth 128 + b.setWidth 128 * c.setWidth 128 + k.setWidth 128) ∧
    (((Gen.Prim.mul_wide a b).2.setWidth 128 <<< 64) ||| (Gen.Prim.mul_wide a b).1.setWidth 128 = a.setWidth 128 * b.setWidth 128) ∧
    (((Gen.Prim.mulhilo a b).1.setWidth 128 <<< 64) ||| (Gen.Prim.mulhilo a b).2.setWidth 128 = a.setWidth 128 * b.setWidth 128) ∧
    (((Gen.Prim.addhilo a b c k).1.setWidth 128 <<< 64) ||| (Gen.Prim.addhilo a b c k).2.setWidth 128 =
        ((a.setWidth 128 <<< 64) ||| b.setWidth 128) + ((c.setWidth 128 <<< 64) ||| k.setWidth 128)) :=
  ⟨GenBits.mac_meaning a b c k, GenBits.mul_wide_meaning a b, GenBits.mulhilo_meaning a b, GenBits.addhilo_meaning a b c k⟩

/-- the hand-written `Nat` model of `mac` / `mul_wide` (what `mac_exact`, the row and Karatsuba theorems are built on)
    IS the translated source function, on all words -/
theorem model_is_translated_source (a b c k : BitVec 64) :
    CB.mac a.toNat b.toNat c.toNat k.toNat = ((Gen.Prim.mac a b c k).1.toNat, (Gen.Prim.mac a b c k).2.toNat) ∧
    CB.mulWide a.toNat b.toNat = ((Gen.Prim.mul_wide a b).1.toNat, (Gen.Prim.mul_wide a b).2.toNat) :=
  ⟨GenBits.mac_bridge a b c k, GenBits.mulWide_bridge a b⟩


end CB.P03G
