/-
  C03 — theorems about the SOURCE of the word-level functions this property rests on, regenerated from /repo on
  every run by tools/translate.py (CB/Gen/Prim.lean).  Kept in a module of its own (nothing imports it) so that a
  change in one of these Rust functions breaks exactly this property's obligations and no other module's build.
  Audited together with CB/Props/C03.lean by tools/runner.py.
-/
import CB.Props.C03
import CB.Lemmas.GenBitsMul
import CB.Lemmas.GenMulRows
namespace CB.P03G
open CB

/-! ## T03.G — the SOURCE of `primitives::{mac, mul_wide, mulhilo, addhilo}`, regenerated on every run
(tools/translate.py → CB/Gen/Prim.lean; see the note at T06.G in CB/Props/C06.lean) -/

/-- `mac` of the source: `lo + 2^64·hi = a + b·c + carry` — in particular the final `hi.wrapping_add(c)` never wraps
    ("even if all the arguments are Word::MAX we can't overflow hi"); `mul_wide`, `mulhilo`: the full 128-bit product;
    `addhilo`: the 128-bit sum of two (hi, lo) pairs modulo 2^128 -/
theorem src_mac_mul (a b c k : BitVec 64) :
    (((Gen.Prim.mac a b c k).2.setWidth 128 <<< 64) ||| (Gen.Prim.mac a b c k).1.setWidth 128 =
        a.setWidth 128 + b.setWidth 128 * c.setWidth 128 + k.setWidth 128) ∧
    (((Gen.Prim.mul_wide a b).2.setWidth 128 <<< 64) ||| (Gen.Prim.mul_wide a b).1.setWidth 128 = a.setWidth 128 * b.setWidth 128) ∧
    (((Gen.Prim.mulhilo a b).1.setWidth 128 <<< 64) ||| (Gen.Prim.mulhilo a b).2.setWidth 128 = a.setWidth 128 * b.setWidth 128) ∧
    (((Gen.Prim.addhilo a b c k).1.setWidth 128 <<< 64) ||| (Gen.Prim.addhilo a b c k).2.setWidth 128 =
        ((a.setWidth 128 <<< 64) ||| b.setWidth 128) + ((c.setWidth 128 <<< 64) ||| k.setWidth 128)) :=
  ⟨GenBits.mac_meaning a b c k, GenBits.mul_wide_meaning a b, GenBits.mulhilo_meaning a b, GenBits.addhilo_meaning a b c k⟩

/-- the hand-written `Nat` model of `mac` / `mul_wide` (what `mac_exact`, the row and Karatsuba theorems are built on)
    IS the translated source function, on all words -/
theorem model_is_translated_source (a b c k : BitVec 64) :
    CB.mac a.toNat b.toNat c.toNat k.toNat = ((Gen.Prim.mac a b c k).1.toNat, (Gen.Prim.mac a b c k).2.toNat) ∧
    CB.mulWide a.toNat b.toNat = ((Gen.Prim.mul_wide a b).1.toNat, (Gen.Prim.mul_wide a b).2.toNat) :=
  ⟨GenBits.mac_bridge a b c k, GenBits.mulWide_bridge a b⟩

/-! ## T03.G2 — the SOURCE of the multiplication rows: `schoolbook_multiplication` (src/uint/mul.rs) and
`Limb::{wrapping_mul, saturating_mul, mul_wide}` (src/limb/mul.rs), regenerated on every run
(tools/translate.py → CB/Gen/MulRows.lean)

`Gen.MulRows.schoolbook_multiplication lhs rhs lo hi` is the Lean translation of what src/uint/mul.rs says NOW: a slice is
the list of its limbs (`List (BitVec 64)`, `.len()` is `.length`); the function, which has two `&mut [Limb]` parameters and
no return value, RETURNS the final `(lo, hi)`; the outer `while i < lhs.len()` and the inner `while j < rhs.len()` are two
recursive auxiliary definitions (the inner one called from the outer one) that re-test their loop condition every round;
`if k >= lhs.len() { hi[k - lhs.len()] .. } else { lo[k] .. }` is an `if … then … else …` updating both lists.  The
source's guard `if lhs.len() != lo.len() || rhs.len() != hi.len() { panic!(..) }` is the precondition of the theorems.
They hold for EVERY pair of limb counts; `GenChains.nats l` is `l.map BitVec.toNat`. -/

/-- `Limb::wrapping_mul / saturating_mul / mul_wide` of the source are the model's word multiplications, on all words -/
theorem src_limb_mul (a b : BitVec 64) :
    Mul.limbWrappingMul a.toNat b.toNat = (Gen.MulRows.Limb.wrapping_mul a b).toNat ∧
    Mul.limbSaturatingMul a.toNat b.toNat = (Gen.MulRows.Limb.saturating_mul a b).toNat ∧
    CB.mulWide a.toNat b.toNat = ((Gen.MulRows.Limb.mul_wide a b).1.toNat, (Gen.MulRows.Limb.mul_wide a b).2.toNat) :=
  ⟨GenMulRows.limbWrappingMul_bridge a b, GenMulRows.limbSaturatingMul_bridge a b, GenMulRows.limbMulWide_bridge a b⟩

/-- the hand-written row model (`schoolRows` on the one buffer `lo ++ hi`, `schoolbookMul`, `uintMulLimbs` — what T03.2
    and everything above it are proved about) IS the translated source, for every pair of limb counts: on ANY buffers of
    the lengths the source insists on, and in particular on the zeroed buffers `uint_mul_limbs` / `mul_limbs` pass -/
theorem mul_model_is_translated_source (a b lo hi : List (BitVec 64)) (hl : lo.length = a.length)
    (hh : hi.length = b.length) :
    Mul.schoolRows (GenChains.nats a) (GenChains.nats b) (GenChains.nats (lo ++ hi)) =
      GenChains.nats ((Gen.MulRows.schoolbook_multiplication a b lo hi).1 ++
        (Gen.MulRows.schoolbook_multiplication a b lo hi).2) ∧
    Mul.schoolbookMul (GenChains.nats a) (GenChains.nats b) =
      GenChains.nats ((Gen.MulRows.schoolbook_multiplication a b (List.replicate a.length 0#64) (List.replicate b.length 0#64)).1 ++
        (Gen.MulRows.schoolbook_multiplication a b (List.replicate a.length 0#64) (List.replicate b.length 0#64)).2) ∧
    Mul.uintMulLimbs (GenChains.nats a) (GenChains.nats b) =
      (GenChains.nats (Gen.MulRows.schoolbook_multiplication a b (List.replicate a.length 0#64) (List.replicate b.length 0#64)).1,
       GenChains.nats (Gen.MulRows.schoolbook_multiplication a b (List.replicate a.length 0#64) (List.replicate b.length 0#64)).2) :=
  ⟨(GenMulRows.schoolRows_bridge a b lo hi hl hh).1, GenMulRows.schoolbookMul_bridge a b, GenMulRows.uintMulLimbs_bridge a b⟩

/-- the translated `schoolbook_multiplication` keeps the slice lengths (`lo`: `lhs.len()` limbs, `hi`: `rhs.len()`) -/
theorem src_schoolbook_mul_lengths (a b lo hi : List (BitVec 64)) (hl : lo.length = a.length) (hh : hi.length = b.length) :
    (Gen.MulRows.schoolbook_multiplication a b lo hi).1.length = a.length ∧
    (Gen.MulRows.schoolbook_multiplication a b lo hi).2.length = b.length :=
  (GenMulRows.schoolRows_bridge a b lo hi hl hh).2

/-- **T03.2 about the source**: the TRANSLATED `schoolbook_multiplication`, called as `uint_mul_limbs` and `mul_limbs` call
    it (`lo` = `lhs.len()` zero limbs, `hi` = `rhs.len()` zero limbs), returns the exact product of ANY two limb lists, of
    any (equal or different, also zero) limb counts: `val lo' + B^|a| · val hi' = val a · val b`, with `|lo'| = |a|`,
    `|hi'| = |b|` — so `lo'` is the product mod `2^BITS` and `hi'` its quotient.  From `uint_mul_limbs_exact` + the bridge. -/
theorem src_schoolbook_mul_exact (a b : List (BitVec 64)) :
    val (GenChains.nats (Gen.MulRows.schoolbook_multiplication a b (List.replicate a.length 0#64) (List.replicate b.length 0#64)).1) +
        B ^ a.length *
          val (GenChains.nats (Gen.MulRows.schoolbook_multiplication a b (List.replicate a.length 0#64) (List.replicate b.length 0#64)).2) =
      val (GenChains.nats a) * val (GenChains.nats b) ∧
    (Gen.MulRows.schoolbook_multiplication a b (List.replicate a.length 0#64) (List.replicate b.length 0#64)).1.length = a.length ∧
    (Gen.MulRows.schoolbook_multiplication a b (List.replicate a.length 0#64) (List.replicate b.length 0#64)).2.length = b.length := by
  have h := P03.uint_mul_limbs_exact (GenChains.nats a) (GenChains.nats b) (GenChains.nats_WF a) (GenChains.nats_WF b)
  rw [GenMulRows.uintMulLimbs_bridge] at h
  obtain ⟨_, _, h3, h4, h5⟩ := h
  simp only [GenChains.nats_length] at h3 h4 h5
  exact ⟨h5, h3, h4⟩

/-- the low and the high half separately: remainder and quotient of the product by `B^|a|` -/
theorem src_schoolbook_mul_lo_hi (a b : List (BitVec 64)) :
    val (GenChains.nats (Gen.MulRows.schoolbook_multiplication a b (List.replicate a.length 0#64) (List.replicate b.length 0#64)).1) =
      (val (GenChains.nats a) * val (GenChains.nats b)) % B ^ a.length ∧
    val (GenChains.nats (Gen.MulRows.schoolbook_multiplication a b (List.replicate a.length 0#64) (List.replicate b.length 0#64)).2) =
      (val (GenChains.nats a) * val (GenChains.nats b)) / B ^ a.length := by
  have h := P03.uint_mul_limbs_lo_hi (GenChains.nats a) (GenChains.nats b) (GenChains.nats_WF a) (GenChains.nats_WF b)
  rw [GenMulRows.uintMulLimbs_bridge] at h
  simp only [GenChains.nats_length] at h
  exact ⟨h.1, h.2.1⟩

/-! evaluated instances of the translated source (kernel evaluation of the generated definitions) -/
example : Gen.MulRows.schoolbook_multiplication [~~~0#64, ~~~0#64] [~~~0#64] [0#64, 0#64] [0#64] =
    ([1#64, ~~~0#64], [~~~0#64 - 1#64]) := by decide
example : Gen.MulRows.schoolbook_multiplication [3#64] [5#64, 7#64] [0#64] [0#64, 0#64] = ([15#64], [21#64, 0#64]) := by decide
example : Gen.MulRows.Limb.saturating_mul (~~~0#64) 2#64 = ~~~0#64 ∧ Gen.MulRows.Limb.saturating_mul 3#64 5#64 = 15#64 := by decide


end CB.P03G
