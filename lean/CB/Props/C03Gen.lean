/-
  C03 — theorems about the SOURCE of the word-level functions this property rests on, regenerated from /repo on
  every run by tools/translate.py (CB/Gen/Prim.lean).  Kept in a module of its own (nothing imports it) so that a
  change in one of these Rust functions breaks exactly this property's obligations and no other module's build.
  Audited together with CB/Props/C03.lean by tools/runner.py.
-/
import CB.Props.C03
import CB.Lemmas.GenBitsMul
import CB.Lemmas.GenMulRows
import CB.Lemmas.GenMulSq
import CB.Lemmas.GenMulAdc
namespace CB.P03G
open CB

/-! ## T03.G — the SOURCE of `primitives::{mac, mul_wide, mulhilo, addhilo}`, regenerated on every run
(tools/translate.py → CB/Gen/Prim.lean; see the note at T06.G in CB/Props/C06.lean) -/

/-- `mac` of the source: `lo + 2^64·hi = a + b·c + carry` — in particular the final `hi.wrapping_add(c)` never wraps
    ("even if all the arguments are Word::MAX we can't overflow hi"); `mul_wide`, `mulhilo`: the full 128-bit product;
    `addhilo`: the 128-bit sum of two (hi, lo) pairs modulo 2^128 -/
theorem src_mac_mul (a b c k : BitVec 64) :
    (((Gen.Prim.mac a b c k).2.setWidth 128 <<< 64) ||| (Gen.Prim.mac a b c k).1.setWidth 128 =
        a.setWidth 128 + b.setWidth 128 * c.setWidth 128 + k.setWidth 128) ∧
    (((Gen.Prim.mul_wide a b).2.setWidth 128 <<< 64) ||| (Gen.Prim.mul_wide a b).1.setWidth 128 = a.setWidth 128 * b.setWidth 128) ∧
    (((Gen.Prim.mulhilo a b).1.setWidth 128 <<< 64) ||| (Gen.Prim.mulhilo a b).2.setWidth 128 = a.setWidth 128 * b.setWidth 128) ∧
    (((Gen.Prim.addhilo a b c k).1.setWidth 128 <<< 64) ||| (Gen.Prim.addhilo a b c k).2.setWidth 128 =
        ((a.setWidth 128 <<< 64) ||| b.setWidth 128) + ((c.setWidth 128 <<< 64) ||| k.setWidth 128)) :=
  ⟨GenBits.mac_meaning a b c k, GenBits.mul_wide_meaning a b, GenBits.mulhilo_meaning a b, GenBits.addhilo_meaning a b c k⟩

/-- the hand-written `Nat` model of `mac` / `mul_wide` (what `mac_exact`, the row and Karatsuba theorems are built on)
    IS the translated source function, on all words -/
theorem model_is_translated_source (a b c k : BitVec 64) :
    CB.mac a.toNat b.toNat c.toNat k.toNat = ((Gen.Prim.mac a b c k).1.toNat, (Gen.Prim.mac a b c k).2.toNat) ∧
    CB.mulWide a.toNat b.toNat = ((Gen.Prim.mul_wide a b).1.toNat, (Gen.Prim.mul_wide a b).2.toNat) :=
  ⟨GenBits.mac_bridge a b c k, GenBits.mulWide_bridge a b⟩

/-! ## T03.G2 — the SOURCE of the multiplication rows: `schoolbook_multiplication` (src/uint/mul.rs) and
`Limb::{wrapping_mul, saturating_mul, mul_wide}` (src/limb/mul.rs), regenerated on every run
(tools/translate.py → CB/Gen/MulRows.lean)

`Gen.MulRows.schoolbook_multiplication lhs rhs lo hi` is the Lean translation of what src/uint/mul.rs says NOW: a slice is
the list of its limbs (`List (BitVec 64)`, `.len()` is `.length`); the function, which has two `&mut [Limb]` parameters and
no return value, RETURNS the final `(lo, hi)`; the outer `while i < lhs.len()` and the inner `while j < rhs.len()` are two
recursive auxiliary definitions (the inner one called from the outer one) that re-test their loop condition every round;
`if k >= lhs.len() { hi[k - lhs.len()] .. } else { lo[k] .. }` is an `if … then … else …` updating both lists.  The
source's guard `if lhs.len() != lo.len() || rhs.len() != hi.len() { panic!(..) }` is the precondition of the theorems.
They hold for EVERY pair of limb counts; `GenChains.nats l` is `l.map BitVec.toNat`. -/

/-- `Limb::wrapping_mul / saturating_mul / mul_wide` of the source are the model's word multiplications, on all words -/
theorem src_limb_mul (a b : BitVec 64) :
    Mul.limbWrappingMul a.toNat b.toNat = (Gen.MulRows.Limb.wrapping_mul a b).toNat ∧
    Mul.limbSaturatingMul a.toNat b.toNat = (Gen.MulRows.Limb.saturating_mul a b).toNat ∧
    CB.mulWide a.toNat b.toNat = ((Gen.MulRows.Limb.mul_wide a b).1.toNat, (Gen.MulRows.Limb.mul_wide a b).2.toNat) :=
  ⟨GenMulRows.limbWrappingMul_bridge a b, GenMulRows.limbSaturatingMul_bridge a b, GenMulRows.limbMulWide_bridge a b⟩

/-- the hand-written row model (`schoolRows` on the one buffer `lo ++ hi`, `schoolbookMul`, `uintMulLimbs` — what T03.2
    and everything above it are proved about) IS the translated source, for every pair of limb counts: on ANY buffers of
    the lengths the source insists on, and in particular on the zeroed buffers `uint_mul_limbs` / `mul_limbs` pass -/
theorem mul_model_is_translated_source (a b lo hi : List (BitVec 64)) (hl : lo.length = a.length)
    (hh : hi.length = b.length) :
    Mul.schoolRows (GenChains.nats a) (GenChains.nats b) (GenChains.nats (lo ++ hi)) =
      GenChains.nats ((Gen.MulRows.schoolbook_multiplication a b lo hi).1 ++
        (Gen.MulRows.schoolbook_multiplication a b lo hi).2) ∧
    Mul.schoolbookMul (GenChains.nats a) (GenChains.nats b) =
      GenChains.nats ((Gen.MulRows.schoolbook_multiplication a b (List.replicate a.length 0#64) (List.replicate b.length 0#64)).1 ++
        (Gen.MulRows.schoolbook_multiplication a b (List.replicate a.length 0#64) (List.replicate b.length 0#64)).2) ∧
    Mul.uintMulLimbs (GenChains.nats a) (GenChains.nats b) =
      (GenChains.nats (Gen.MulRows.schoolbook_multiplication a b (List.replicate a.length 0#64) (List.replicate b.length 0#64)).1,
       GenChains.nats (Gen.MulRows.schoolbook_multiplication a b (List.replicate a.length 0#64) (List.replicate b.length 0#64)).2) :=
  ⟨(GenMulRows.schoolRows_bridge a b lo hi hl hh).1, GenMulRows.schoolbookMul_bridge a b, GenMulRows.uintMulLimbs_bridge a b⟩

/-- the translated `schoolbook_multiplication` keeps the slice lengths (`lo`: `lhs.len()` limbs, `hi`: `rhs.len()`) -/
theorem src_schoolbook_mul_lengths (a b lo hi : List (BitVec 64)) (hl : lo.length = a.length) (hh : hi.length = b.length) :
    (Gen.MulRows.schoolbook_multiplication a b lo hi).1.length = a.length ∧
    (Gen.MulRows.schoolbook_multiplication a b lo hi).2.length = b.length :=
  (GenMulRows.schoolRows_bridge a b lo hi hl hh).2

/-- **T03.2 about the source**: the TRANSLATED `schoolbook_multiplication`, called as `uint_mul_limbs` and `mul_limbs` call
    it (`lo` = `lhs.len()` zero limbs, `hi` = `rhs.len()` zero limbs), returns the exact product of ANY two limb lists, of
    any (equal or different, also zero) limb counts: `val lo' + B^|a| · val hi' = val a · val b`, with `|lo'| = |a|`,
    `|hi'| = |b|` — so `lo'` is the product mod `2^BITS` and `hi'` its quotient.  From `uint_mul_limbs_exact` + the bridge. -/
theorem src_schoolbook_mul_exact (a b : List (BitVec 64)) :
    val (GenChains.nats (Gen.MulRows.schoolbook_multiplication a b (List.replicate a.length 0#64) (List.replicate b.length 0#64)).1) +
        B ^ a.length *
          val (GenChains.nats (Gen.MulRows.schoolbook_multiplication a b (List.replicate a.length 0#64) (List.replicate b.length 0#64)).2) =
      val (GenChains.nats a) * val (GenChains.nats b) ∧
    (Gen.MulRows.schoolbook_multiplication a b (List.replicate a.length 0#64) (List.replicate b.length 0#64)).1.length = a.length ∧
    (Gen.MulRows.schoolbook_multiplication a b (List.replicate a.length 0#64) (List.replicate b.length 0#64)).2.length = b.length := by
  have h := P03.uint_mul_limbs_exact (GenChains.nats a) (GenChains.nats b) (GenChains.nats_WF a) (GenChains.nats_WF b)
  rw [GenMulRows.uintMulLimbs_bridge] at h
  obtain ⟨_, _, h3, h4, h5⟩ := h
  simp only [GenChains.nats_length] at h3 h4 h5
  exact ⟨h5, h3, h4⟩

/-- the low and the high half separately: remainder and quotient of the product by `B^|a|` -/
theorem src_schoolbook_mul_lo_hi (a b : List (BitVec 64)) :
    val (GenChains.nats (Gen.MulRows.schoolbook_multiplication a b (List.replicate a.length 0#64) (List.replicate b.length 0#64)).1) =
      (val (GenChains.nats a) * val (GenChains.nats b)) % B ^ a.length ∧
    val (GenChains.nats (Gen.MulRows.schoolbook_multiplication a b (List.replicate a.length 0#64) (List.replicate b.length 0#64)).2) =
      (val (GenChains.nats a) * val (GenChains.nats b)) / B ^ a.length := by
  have h := P03.uint_mul_limbs_lo_hi (GenChains.nats a) (GenChains.nats b) (GenChains.nats_WF a) (GenChains.nats_WF b)
  rw [GenMulRows.uintMulLimbs_bridge] at h
  simp only [GenChains.nats_length] at h
  exact ⟨h.1, h.2.1⟩

/-! evaluated instances of the translated source (kernel evaluation of the generated definitions) -/
example : Gen.MulRows.schoolbook_multiplication [~~~0#64, ~~~0#64] [~~~0#64] [0#64, 0#64] [0#64] =
    ([1#64, ~~~0#64], [~~~0#64 - 1#64]) := by decide
example : Gen.MulRows.schoolbook_multiplication [3#64] [5#64, 7#64] [0#64] [0#64, 0#64] = ([15#64], [21#64, 0#64]) := by decide
example : Gen.MulRows.Limb.saturating_mul (~~~0#64) 2#64 = ~~~0#64 ∧ Gen.MulRows.Limb.saturating_mul 3#64 5#64 = 15#64 := by decide


/-! ## T03.G3 — the SOURCE of the squaring: `schoolbook_squaring` (src/uint/mul.rs) with `Limb::{overflowing_add, shr}`
(src/limb/add.rs, src/limb/shr.rs), regenerated on every run (tools/translate.py → CB/Gen/MulRows.lean)

`Gen.MulRows.schoolbook_squaring limbs lo hi` RETURNS the final `(lo, hi)`.  Its five `while` loops are five recursive
auxiliary definitions: `_loop1` the off-diagonal rows from `i = 1` (calling `_loop2`, the inner `while j < i` — the bound is
the outer counter), `_loop3` / `_loop4` the doubling of `lo` and of all but the top limb of `hi` with one running carry
(`(lo[i].0, carry) = ((lo[i].0 << 1) | carry.0, lo[i].shr(Limb::BITS - 1))`, then `hi[limbs.len() - 1] = carry`), `_loop5` the
diagonal (`mac(xi, xi, carry)` at `2i`, `overflowing_add(carry)` at `2i + 1`, each on `lo` or `hi` by its own index test; the
final carry is dropped).  The source's guard `if limbs.len() != lo.len() || lo.len() != hi.len() { panic!(..) }` holds for the
buffers below.  For EVERY limb count. -/

/-- `Limb::overflowing_add` of the source is the model's `overflowingAdd`; `Limb::shr` is the word shift (amount mod 64) -/
theorem src_limb_sq (a b : BitVec 64) (s : BitVec 32) :
    CB.overflowingAdd a.toNat b.toNat =
      ((Gen.MulRows.LimbSq.overflowing_add a b).1.toNat, (Gen.MulRows.LimbSq.overflowing_add a b).2.toNat) ∧
    Gen.MulRows.LimbSq.shr a s = a >>> (s % 64#32) := by
  rw [GenBits.limb_overflowing_add_eq]
  exact ⟨GenBits.overflowingAdd_bridge a b, GenBits.limb_shr_eq a s⟩

/-- the hand-written squaring model (`schoolbookSquare` = `sqRows`, `shl1Loop`, `sqDiagLoop` on the one buffer `lo ++ hi`;
    `uintSquareLimbs` — what T03.3 and every squaring form above it are proved about) IS the translated source on the
    zeroed buffers `uint_square_limbs` / `square_limbs` pass, for every limb count -/
theorem sq_model_is_translated_source (a : List (BitVec 64)) :
    Mul.schoolbookSquare (GenChains.nats a) =
      GenChains.nats ((Gen.MulRows.schoolbook_squaring a (List.replicate a.length 0#64) (List.replicate a.length 0#64)).1 ++
        (Gen.MulRows.schoolbook_squaring a (List.replicate a.length 0#64) (List.replicate a.length 0#64)).2) ∧
    Mul.uintSquareLimbs (GenChains.nats a) =
      (GenChains.nats (Gen.MulRows.schoolbook_squaring a (List.replicate a.length 0#64) (List.replicate a.length 0#64)).1,
       GenChains.nats (Gen.MulRows.schoolbook_squaring a (List.replicate a.length 0#64) (List.replicate a.length 0#64)).2) :=
  ⟨(GenMulSq.schoolbookSquare_bridge a).1, GenMulSq.uintSquareLimbs_bridge a⟩

/-- **T03.3 about the source**: the TRANSLATED `schoolbook_squaring`, called as `uint_square_limbs` and `square_limbs` call
    it (`lo`, `hi` = `limbs.len()` zero limbs each), returns the exact square of ANY limb list, of any limb count:
    `val lo' + B^n · val hi' = (val a)²`, `|lo'| = |hi'| = n`.  From `uint_square_limbs_exact` + the bridge. -/
theorem src_schoolbook_squaring_exact (a : List (BitVec 64)) :
    val (GenChains.nats (Gen.MulRows.schoolbook_squaring a (List.replicate a.length 0#64) (List.replicate a.length 0#64)).1) +
        B ^ a.length *
          val (GenChains.nats (Gen.MulRows.schoolbook_squaring a (List.replicate a.length 0#64) (List.replicate a.length 0#64)).2) =
      val (GenChains.nats a) * val (GenChains.nats a) ∧
    (Gen.MulRows.schoolbook_squaring a (List.replicate a.length 0#64) (List.replicate a.length 0#64)).1.length = a.length ∧
    (Gen.MulRows.schoolbook_squaring a (List.replicate a.length 0#64) (List.replicate a.length 0#64)).2.length = a.length := by
  have h := P03.uint_square_limbs_exact (GenChains.nats a) (GenChains.nats_WF a)
  rw [GenMulSq.uintSquareLimbs_bridge] at h
  obtain ⟨_, _, h3, h4, h5⟩ := h
  simp only [GenChains.nats_length] at h3 h4 h5
  exact ⟨h5, h3, h4⟩

/-- the translated squaring and the translated multiplication of `a` by itself return the same limbs -/
theorem src_squaring_eq_mul_self (a : List (BitVec 64)) :
    GenChains.nats ((Gen.MulRows.schoolbook_squaring a (List.replicate a.length 0#64) (List.replicate a.length 0#64)).1 ++
        (Gen.MulRows.schoolbook_squaring a (List.replicate a.length 0#64) (List.replicate a.length 0#64)).2) =
      GenChains.nats ((Gen.MulRows.schoolbook_multiplication a a (List.replicate a.length 0#64) (List.replicate a.length 0#64)).1 ++
        (Gen.MulRows.schoolbook_multiplication a a (List.replicate a.length 0#64) (List.replicate a.length 0#64)).2) := by
  rw [← (GenMulSq.schoolbookSquare_bridge a).1, ← GenMulRows.schoolbookMul_bridge a a]
  exact P03.schoolbook_square_eq_mul_self (GenChains.nats a) (GenChains.nats_WF a)

example : Gen.MulRows.schoolbook_squaring [~~~0#64, ~~~0#64] [0#64, 0#64] [0#64, 0#64] =
    ([1#64, 0#64], [~~~0#64 - 1#64, ~~~0#64]) := by decide
example : Gen.MulRows.schoolbook_squaring [3#64, 5#64, 7#64] [0#64, 0#64, 0#64] [0#64, 0#64, 0#64] =
    ([9#64, 30#64, 67#64], [70#64, 49#64, 0#64]) := by decide


/-! ## T03.G4 — the SOURCE of the const-generic wrappers `uint_mul_limbs` / `uint_square_limbs` (src/uint/mul.rs) and of the
boxed row accumulate `adc_mul_limbs` (src/uint/mul/karatsuba.rs, a non-`const` fn), regenerated on every run
(tools/translate.py → CB/Gen/MulRows.lean, namespaces `Wrap` and `Karatsuba`)

`Gen.MulRows.Wrap.uint_mul_limbs LIMBS RHS_LIMBS lhs rhs`: both const generics are explicit `Nat` arguments; `Uint::<LIMBS>::ZERO`
/ `Uint::<RHS_LIMBS>::ZERO` are `List.replicate .. 0#64`; the STATEMENT call `schoolbook_multiplication(lhs, rhs, &mut lo.limbs,
&mut hi.limbs);` writes the returned slices back to `lo`, `hi`; the result is `(lo, hi)`.  Its `debug_assert!(lhs.len() == LIMBS &&
rhs.len() == RHS_LIMBS)` is the instantiation below.  `Gen.MulRows.Karatsuba.adc_mul_limbs lhs rhs out` RETURNS `(out', carry)`
(the final `&mut [Limb]` in front of the result); the guard `if lhs.len() + rhs.len() != out.len() { panic!(..) }` is the
precondition. -/

/-- the models `uintMulLimbs`, `uintSquareLimbs`, `adcMulLimbs` ARE the translated wrappers / row accumulate -/
theorem wrap_model_is_translated_source (a b out : List (BitVec 64)) (hl : out.length = a.length + b.length) :
    Mul.uintMulLimbs (GenChains.nats a) (GenChains.nats b) =
      (GenChains.nats (Gen.MulRows.Wrap.uint_mul_limbs a.length b.length a b).1,
       GenChains.nats (Gen.MulRows.Wrap.uint_mul_limbs a.length b.length a b).2) ∧
    Mul.uintSquareLimbs (GenChains.nats a) =
      (GenChains.nats (Gen.MulRows.Wrap.uint_square_limbs a.length a).1,
       GenChains.nats (Gen.MulRows.Wrap.uint_square_limbs a.length a).2) ∧
    Mul.adcMulLimbs (GenChains.nats a) (GenChains.nats b) (GenChains.nats out) =
      (GenChains.nats (Gen.MulRows.Karatsuba.adc_mul_limbs a b out).1, (Gen.MulRows.Karatsuba.adc_mul_limbs a b out).2.toNat) :=
  ⟨GenMulAdc.uintMulLimbs_wrap_bridge a b, GenMulAdc.uintSquareLimbs_wrap_bridge a, (GenMulAdc.adcMulLimbs_bridge a b out hl).1⟩

/-- **T03.2 about the source, at the wrapper**: the TRANSLATED `uint_mul_limbs::<|a|, |b|>(a, b)` returns `(lo, hi)` with
    `val lo + B^|a| · val hi = val a · val b`, `|lo| = |a|`, `|hi| = |b|`, for ANY two limb lists -/
theorem src_uint_mul_limbs_exact (a b : List (BitVec 64)) :
    val (GenChains.nats (Gen.MulRows.Wrap.uint_mul_limbs a.length b.length a b).1) +
        B ^ a.length * val (GenChains.nats (Gen.MulRows.Wrap.uint_mul_limbs a.length b.length a b).2) =
      val (GenChains.nats a) * val (GenChains.nats b) ∧
    (Gen.MulRows.Wrap.uint_mul_limbs a.length b.length a b).1.length = a.length ∧
    (Gen.MulRows.Wrap.uint_mul_limbs a.length b.length a b).2.length = b.length := by
  rw [GenBits.uint_mul_limbs_eq]
  exact src_schoolbook_mul_exact a b

/-- **T03.3 about the source, at the wrapper**: the TRANSLATED `uint_square_limbs::<|a|>(a)` returns the exact square -/
theorem src_uint_square_limbs_exact (a : List (BitVec 64)) :
    val (GenChains.nats (Gen.MulRows.Wrap.uint_square_limbs a.length a).1) +
        B ^ a.length * val (GenChains.nats (Gen.MulRows.Wrap.uint_square_limbs a.length a).2) =
      val (GenChains.nats a) * val (GenChains.nats a) ∧
    (Gen.MulRows.Wrap.uint_square_limbs a.length a).1.length = a.length ∧
    (Gen.MulRows.Wrap.uint_square_limbs a.length a).2.length = a.length := by
  rw [GenBits.uint_square_limbs_eq]
  exact src_schoolbook_squaring_exact a

/-- **T03.7 (row accumulate) about the source**: the TRANSLATED `adc_mul_limbs(a, b, out)` adds the product to ANY accumulator
    of `|a| + |b|` limbs exactly: `val out' + B^|out| · carry = val out + val a · val b`, `carry ≤ 1`, `|out'| = |out|`, for
    every pair of limb counts.  From `adc_mul_limbs_exact` + the bridge. -/
theorem src_adc_mul_limbs_exact (a b out : List (BitVec 64)) (hl : out.length = a.length + b.length) :
    val (GenChains.nats (Gen.MulRows.Karatsuba.adc_mul_limbs a b out).1) +
        B ^ out.length * (Gen.MulRows.Karatsuba.adc_mul_limbs a b out).2.toNat =
      val (GenChains.nats out) + val (GenChains.nats a) * val (GenChains.nats b) ∧
    (Gen.MulRows.Karatsuba.adc_mul_limbs a b out).2.toNat ≤ 1 ∧
    (Gen.MulRows.Karatsuba.adc_mul_limbs a b out).1.length = out.length := by
  have h := P03.adc_mul_limbs_exact (GenChains.nats a) (GenChains.nats b) (GenChains.nats out) (GenChains.nats_WF a)
    (GenChains.nats_WF b) (GenChains.nats_WF out) (by simp only [GenChains.nats_length]; exact hl)
  rw [(GenMulAdc.adcMulLimbs_bridge a b out hl).1] at h
  obtain ⟨h1, _, _, h4⟩ := h
  simp only [GenChains.nats_length] at h1
  exact ⟨h1, h4, (GenMulAdc.adcMulLimbs_bridge a b out hl).2⟩

/-- on a zeroed accumulator (the fallback of `karatsuba_mul_limbs`): the exact product, carry 0 -/
theorem src_adc_mul_limbs_zero_exact (a b : List (BitVec 64)) :
    val (GenChains.nats (Gen.MulRows.Karatsuba.adc_mul_limbs a b (List.replicate (a.length + b.length) 0#64)).1) =
      val (GenChains.nats a) * val (GenChains.nats b) ∧
    (Gen.MulRows.Karatsuba.adc_mul_limbs a b (List.replicate (a.length + b.length) 0#64)).2 = 0#64 := by
  have h := P03.adc_mul_limbs_zero_exact (GenChains.nats a) (GenChains.nats b) (GenChains.nats_WF a) (GenChains.nats_WF b)
  have e : uzero ((GenChains.nats a).length + (GenChains.nats b).length) =
      GenChains.nats (List.replicate (a.length + b.length) 0#64) := by
    simp only [GenChains.nats, uzero, List.map_replicate, List.length_map]; rfl
  rw [e, (GenMulAdc.adcMulLimbs_bridge a b _ (by simp)).1] at h
  exact ⟨h.1, BitVec.eq_of_toNat_eq h.2⟩

example : Gen.MulRows.Wrap.uint_mul_limbs 1 2 [3#64] [5#64, 7#64] = ([15#64], [21#64, 0#64]) := by decide
example : Gen.MulRows.Karatsuba.adc_mul_limbs [~~~0#64] [~~~0#64] [~~~0#64, ~~~0#64] = ([0#64, ~~~0#64 - 1#64], 1#64) := by decide


end CB.P03G
