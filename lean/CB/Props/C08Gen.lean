/-
  C08 — theorems about the SOURCE of the fixed-width helpers the Montgomery layer rests on, regenerated from /repo on every
  run by tools/translate.py (CB/Gen/Modular.lean).  Kept in a module of its own (nothing imports it) so that a change in one
  of these Rust functions breaks exactly this property's obligations and no other module's build.  Audited together with
  CB/Props/C08.lean by tools/runner.py.
-/
import CB.Props.C08
import CB.Lemmas.GenModularMonty
namespace CB.P08G
open CB CB.Monty

/-! ## T08.G — the SOURCE of the Montgomery-form add / double / sub / neg and of the final step of `montgomery_reduction`

The Montgomery model (CB/Model/Monty.lean) computes `add_montgomery_form` / `double_montgomery_form` / `sub_montgomery_form` /
`neg` with `addMod` / `doubleMod` / `subMod` / `negMod`, and ends `montgomery_reduction` with
`upper.sub_mod_with_carry(meta_carry, &modulus, &modulus)`.  Those model functions ARE the translated source
(`Gen.Modular.Form.*`, `Gen.Modular.Uint.*`: src/modular/{add,sub}.rs, src/uint/{add_mod,sub_mod,neg_mod}.rs as they read NOW),
for every limb count.  The nested loops of `montgomery_reduction_inner` itself are not translated (see notes/C08.md). -/

/-- the Montgomery model's fixed-width helpers are the translated source, for every limb count -/
theorem monty_helpers_model_is_translated_source (a b m : List (BitVec 64)) (carry : BitVec 64)
    (hab : a.length = b.length) (ham : a.length = m.length) :
    addMod (GenChains.nats a) (GenChains.nats b) (GenChains.nats m) =
      GenChains.nats (Gen.Modular.Form.add_montgomery_form a.length a b m) ∧
    doubleMod (GenChains.nats a) (GenChains.nats m) =
      GenChains.nats (Gen.Modular.Form.double_montgomery_form a.length a m) ∧
    subMod (GenChains.nats a) (GenChains.nats b) (GenChains.nats m) =
      GenChains.nats (Gen.Modular.Form.sub_montgomery_form a.length a b m) ∧
    negMod (GenChains.nats a) (GenChains.nats m) = GenChains.nats (Gen.Modular.Uint.neg_mod a.length a m) ∧
    subModWithCarry (GenChains.nats a) carry.toNat (GenChains.nats b) (GenChains.nats m) =
      GenChains.nats (Gen.Modular.Uint.sub_mod_with_carry a.length a carry b m) := by
  rw [GenBits.add_montgomery_form_eq, GenBits.double_montgomery_form_eq, GenBits.sub_montgomery_form_eq,
    GenModular.monty_addMod_eq, GenModular.monty_doubleMod_eq (GenChains.nats_WF a), GenModular.monty_subMod_eq,
    GenModular.monty_negMod_eq, GenModular.monty_subModWithCarry_eq]
  exact ⟨GenModular.addMod_bridge a b m hab ham, GenModular.doubleMod_bridge a m ham,
    GenModular.subMod_bridge a b m hab ham, GenModular.negMod_bridge a m ham,
    GenModular.subModWithCarry_bridge a carry b m hab ham⟩

/-- the final step of `montgomery_reduction`: whatever limbs `up` and carry word `mc` the inner loops produce, the model's
    result is the TRANSLATED `up.sub_mod_with_carry(mc, &modulus, &modulus)` -/
theorem redc_final_step_is_translated_source (lo hi ms up : List (BitVec 64)) (k : Nat) (mc : BitVec 64)
    (hul : up.length = ms.length)
    (hin : redcInner (GenChains.nats hi) (GenChains.nats lo) (GenChains.nats ms) k = (GenChains.nats up, mc.toNat)) :
    montgomeryReduction (GenChains.nats lo) (GenChains.nats hi) (GenChains.nats ms) k =
      GenChains.nats (Gen.Modular.Uint.sub_mod_with_carry up.length up mc ms ms) := by
  unfold montgomeryReduction
  rw [hin]
  dsimp only
  rw [GenModular.monty_subModWithCarry_eq]
  exact GenModular.subModWithCarry_bridge up mc ms ms hul hul

/-- T08.1 (`redc_spec`) restated with the TRANSLATED final step: for `k·m ≡ −1 (mod 2^64)` and `T = lo + B^n·hi < m·B^n`, the
    translated `sub_mod_with_carry` applied to the inner loops' output is canonical and `r·B^n ≡ T (mod m)` -/
theorem src_redc_final_step_exact (lo hi ms up : List (BitVec 64)) (k : Nat) (mc : BitVec 64)
    (hll : lo.length = ms.length) (hhl : hi.length = ms.length) (hul : up.length = ms.length)
    (hk : (k * val (GenChains.nats ms) + 1) % B = 0)
    (hT : val (GenChains.nats lo) + B ^ ms.length * val (GenChains.nats hi) < val (GenChains.nats ms) * B ^ ms.length)
    (hin : redcInner (GenChains.nats hi) (GenChains.nats lo) (GenChains.nats ms) k = (GenChains.nats up, mc.toNat)) :
    val (GenChains.nats (Gen.Modular.Uint.sub_mod_with_carry up.length up mc ms ms)) < val (GenChains.nats ms) ∧
    (val (GenChains.nats (Gen.Modular.Uint.sub_mod_with_carry up.length up mc ms ms)) * B ^ ms.length)
        % val (GenChains.nats ms)
      = (val (GenChains.nats lo) + B ^ ms.length * val (GenChains.nats hi)) % val (GenChains.nats ms) := by
  have h := P08.redc_spec (GenChains.nats lo) (GenChains.nats hi) (GenChains.nats ms) k (GenChains.nats_WF lo)
    (GenChains.nats_WF hi) (GenChains.nats_WF ms) (by rw [GenChains.nats_length, GenChains.nats_length, hll])
    (by rw [GenChains.nats_length, GenChains.nats_length, hhl]) hk (by rw [GenChains.nats_length]; exact hT)
  rw [redc_final_step_is_translated_source lo hi ms up k mc hul hin, GenChains.nats_length] at h
  exact ⟨h.1, h.2.1⟩

/-- non-vacuity: the hypotheses of `src_redc_final_step_exact` hold for 2 limbs, `m = 2^64 + 1` (`k = 2^64 − 1`),
    `T = m·B² − 1`; the translated final step returns `2^64` -/
example : redcInner (GenChains.nats [0#64, 1#64]) (GenChains.nats [~~~0#64, ~~~0#64]) (GenChains.nats [1#64, 1#64]) WMAX =
      (GenChains.nats [1#64, 2#64], (0#64).toNat) ∧
    Gen.Modular.Uint.sub_mod_with_carry 2 [1#64, 2#64] 0#64 [1#64, 1#64] [1#64, 1#64] = [0#64, 1#64] := by
  constructor
  · decide +kernel
  · decide

end CB.P08G
