/-
  C08 — theorems about the SOURCE of Montgomery reduction and of the fixed-width helpers the Montgomery layer rests on,
  regenerated from /repo on every run by tools/translate.py (CB/Gen/Modular.lean).  Kept in a module of its own (nothing imports it) so that a change in one
  of these Rust functions breaks exactly this property's obligations and no other module's build.  Audited together with
  CB/Props/C08.lean by tools/runner.py.
-/
import CB.Props.C08
import CB.Lemmas.GenRedc
namespace CB.P08G
open CB CB.Monty

/-! ## T08.G — the SOURCE of the Montgomery-form add / double / sub / neg, of `montgomery_reduction_inner` and `montgomery_reduction`

The Montgomery model (CB/Model/Monty.lean) computes `add_montgomery_form` / `double_montgomery_form` / `sub_montgomery_form` /
`neg` with `addMod` / `doubleMod` / `subMod` / `negMod`, and ends `montgomery_reduction` with
`upper.sub_mod_with_carry(meta_carry, &modulus, &modulus)`.  Those model functions ARE the translated source
(`Gen.Modular.Form.*`, `Gen.Modular.Uint.*`: src/modular/{add,sub}.rs, src/uint/{add_mod,sub_mod,neg_mod}.rs as they read NOW),
for every limb count.  `Gen.Modular.Reduction.montgomery_reduction_inner LIMBS upper lower modulus mod_neg_inv` is the translation of
the `&mut`-slice function of src/modular/reduction.rs: it returns `(upper', lower', meta_carry)`; its three `while` loops (two
nested in the third, sharing the counter `j`, indices `lower[i + j]`, `upper[i + j - nlimbs]`) are recursive auxiliary
definitions that re-test the loop condition every round. -/

/-- the Montgomery model's fixed-width helpers are the translated source, for every limb count -/
theorem monty_helpers_model_is_translated_source (a b m : List (BitVec 64)) (carry : BitVec 64)
    (hab : a.length = b.length) (ham : a.length = m.length) :
    addMod (GenChains.nats a) (GenChains.nats b) (GenChains.nats m) =
      GenChains.nats (Gen.Modular.Form.add_montgomery_form a.length a b m) ∧
    doubleMod (GenChains.nats a) (GenChains.nats m) =
      GenChains.nats (Gen.Modular.Form.double_montgomery_form a.length a m) ∧
    subMod (GenChains.nats a) (GenChains.nats b) (GenChains.nats m) =
      GenChains.nats (Gen.Modular.Form.sub_montgomery_form a.length a b m) ∧
    negMod (GenChains.nats a) (GenChains.nats m) = GenChains.nats (Gen.Modular.Uint.neg_mod a.length a m) ∧
    subModWithCarry (GenChains.nats a) carry.toNat (GenChains.nats b) (GenChains.nats m) =
      GenChains.nats (Gen.Modular.Uint.sub_mod_with_carry a.length a carry b m) := by
  rw [GenBits.add_montgomery_form_eq, GenBits.double_montgomery_form_eq, GenBits.sub_montgomery_form_eq,
    GenModular.monty_addMod_eq, GenModular.monty_doubleMod_eq (GenChains.nats_WF a), GenModular.monty_subMod_eq,
    GenModular.monty_negMod_eq, GenModular.monty_subModWithCarry_eq]
  exact ⟨GenModular.addMod_bridge a b m hab ham, GenModular.doubleMod_bridge a m ham,
    GenModular.subMod_bridge a b m hab ham, GenModular.negMod_bridge a m ham,
    GenModular.subModWithCarry_bridge a carry b m hab ham⟩

/-- the hand-written model of Montgomery reduction (what T08.1 is proved about) IS the translated source: the new `upper` limbs
    and `meta_carry` of `montgomery_reduction_inner`, and the result of `montgomery_reduction`, for every limb count, all
    operands of the modulus' width, every `mod_neg_inv` word -/
theorem redc_model_is_translated_source (lo hi ms : List (BitVec 64)) (k : BitVec 64) (L : Nat)
    (hll : lo.length = ms.length) (hhl : hi.length = ms.length) :
    redcInner (GenChains.nats hi) (GenChains.nats lo) (GenChains.nats ms) k.toNat =
      (GenChains.nats (Gen.Modular.Reduction.montgomery_reduction_inner L hi lo ms k).1,
       (Gen.Modular.Reduction.montgomery_reduction_inner L hi lo ms k).2.2.toNat) ∧
    montgomeryReduction (GenChains.nats lo) (GenChains.nats hi) (GenChains.nats ms) k.toNat =
      GenChains.nats (Gen.Modular.Reduction.montgomery_reduction ms.length (lo, hi) ms k) :=
  ⟨(GenRedc.redcInner_bridge hi lo ms k L hhl hll).1, GenRedc.montgomeryReduction_bridge lo hi ms k hll hhl⟩

/-- T08.1 (`redc_inner_spec`) for the TRANSLATED `montgomery_reduction_inner`: for `k·m ≡ −1 (mod 2^64)` and
    `T = lower + B^n·upper < m·B^n`, `X = upper' + B^n·meta_carry` satisfies `X·B^n = T + U·m` for some `U < B^n`, `X < 2m`,
    `meta_carry ≤ 1`, and `upper'` has `n` limbs -/
theorem src_redc_inner_exact (lo hi ms : List (BitVec 64)) (k : BitVec 64) (L : Nat)
    (hll : lo.length = ms.length) (hhl : hi.length = ms.length)
    (hk : (k.toNat * val (GenChains.nats ms) + 1) % B = 0)
    (hT : val (GenChains.nats lo) + B ^ ms.length * val (GenChains.nats hi) < val (GenChains.nats ms) * B ^ ms.length) :
    ∃ U, U < B ^ ms.length ∧
      (val (GenChains.nats (Gen.Modular.Reduction.montgomery_reduction_inner L hi lo ms k).1) +
          B ^ ms.length * (Gen.Modular.Reduction.montgomery_reduction_inner L hi lo ms k).2.2.toNat) * B ^ ms.length
        = val (GenChains.nats lo) + B ^ ms.length * val (GenChains.nats hi) + U * val (GenChains.nats ms) ∧
      val (GenChains.nats (Gen.Modular.Reduction.montgomery_reduction_inner L hi lo ms k).1) +
          B ^ ms.length * (Gen.Modular.Reduction.montgomery_reduction_inner L hi lo ms k).2.2.toNat
        < 2 * val (GenChains.nats ms) ∧
      (Gen.Modular.Reduction.montgomery_reduction_inner L hi lo ms k).1.length = ms.length ∧
      (Gen.Modular.Reduction.montgomery_reduction_inner L hi lo ms k).2.2.toNat ≤ 1 := by
  have ⟨U, hU, e, lt, _, _, c⟩ := P08.redc_inner_spec (GenChains.nats lo) (GenChains.nats hi) (GenChains.nats ms) k.toNat
    (GenChains.nats_WF lo) (GenChains.nats_WF hi) (GenChains.nats_WF ms)
    (by rw [GenChains.nats_length, GenChains.nats_length, hll])
    (by rw [GenChains.nats_length, GenChains.nats_length, hhl]) hk (by rw [GenChains.nats_length]; exact hT)
  obtain ⟨hin, hlen⟩ := GenRedc.redcInner_bridge hi lo ms k L hhl hll
  rw [hin, GenChains.nats_length] at e lt
  rw [hin] at c
  rw [GenChains.nats_length] at hU
  exact ⟨U, hU, e, lt, hlen, c⟩

/-- T08.1 (`redc_spec`) for the TRANSLATED `montgomery_reduction`: the result `r` is canonical (`< m`), `r·B^n ≡ T (mod m)`, and
    has `n` limbs -/
theorem src_montgomery_reduction_exact (lo hi ms : List (BitVec 64)) (k : BitVec 64)
    (hll : lo.length = ms.length) (hhl : hi.length = ms.length)
    (hk : (k.toNat * val (GenChains.nats ms) + 1) % B = 0)
    (hT : val (GenChains.nats lo) + B ^ ms.length * val (GenChains.nats hi) < val (GenChains.nats ms) * B ^ ms.length) :
    val (GenChains.nats (Gen.Modular.Reduction.montgomery_reduction ms.length (lo, hi) ms k)) < val (GenChains.nats ms) ∧
    (val (GenChains.nats (Gen.Modular.Reduction.montgomery_reduction ms.length (lo, hi) ms k)) * B ^ ms.length)
        % val (GenChains.nats ms)
      = (val (GenChains.nats lo) + B ^ ms.length * val (GenChains.nats hi)) % val (GenChains.nats ms) ∧
    (Gen.Modular.Reduction.montgomery_reduction ms.length (lo, hi) ms k).length = ms.length := by
  have ⟨l, e, _, n⟩ := P08.redc_spec (GenChains.nats lo) (GenChains.nats hi) (GenChains.nats ms) k.toNat
    (GenChains.nats_WF lo) (GenChains.nats_WF hi) (GenChains.nats_WF ms)
    (by rw [GenChains.nats_length, GenChains.nats_length, hll])
    (by rw [GenChains.nats_length, GenChains.nats_length, hhl]) hk (by rw [GenChains.nats_length]; exact hT)
  rw [GenRedc.montgomeryReduction_bridge lo hi ms k hll hhl] at l e n
  rw [GenChains.nats_length] at e
  exact ⟨l, e, by simpa [GenChains.nats] using n⟩

/-- non-vacuity / evaluation: the translated functions run — 2 limbs, `m = 2^64 + 1` (`k = 2^64 − 1`), `T = m·B² − 1`
    (the example of T08.1): the inner loops leave `upper' = [1, 2]`, `meta_carry = 0`, the result is `2^64` -/
example : (Gen.Modular.Reduction.montgomery_reduction_inner 2 [0#64, 1#64] [~~~0#64, ~~~0#64] [1#64, 1#64] (~~~0#64)).1 =
      [1#64, 2#64] ∧
    (Gen.Modular.Reduction.montgomery_reduction_inner 2 [0#64, 1#64] [~~~0#64, ~~~0#64] [1#64, 1#64] (~~~0#64)).2.2 = 0#64 ∧
    Gen.Modular.Reduction.montgomery_reduction 2 ([~~~0#64, ~~~0#64], [0#64, 1#64]) [1#64, 1#64] (~~~0#64) = [0#64, 1#64] := by
  decide

end CB.P08G
