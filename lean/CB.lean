import CB.Model.Basic
import CB.Model.Uint
