import CB.Model.Basic
import CB.Model.Uint
import CB.Model.Extracted
import CB.Lemmas.Chains
import CB.Props.C04
