import CB.Driver.All
open CB

partial def loop (h : IO.FS.Stream) (out : IO.FS.Stream) : IO Unit := do
  let line ← h.getLine
  if line.isEmpty then return ()
  let toks := (line.trimAscii.toString.splitOn " ").filter (· ≠ "")
  match toks with
  | [] => out.putStrLn "empty"
  | op :: args =>
    match dispatchAll op args with
    | some r => out.putStrLn r
    | none => out.putStrLn "unknown-op"
  loop h out

def main : IO Unit := do
  let stdin ← IO.getStdin
  let stdout ← IO.getStdout
  loop stdin stdout
  stdout.flush
