//! Bump arenas as the global allocator: three regions in .bss, so that every heap address an
//! operation sees is a pure function of the sequence of allocation sizes it performs.
//!   MAIN — the driver's own data (job list, stdout buffer); never reset
//!   PREP — per-job public pre-computation and boxed operands; reset before every job
//!   OP   — allocations performed between the markers; reset before every job
use core::alloc::{GlobalAlloc, Layout};
use core::cell::UnsafeCell;

pub const MAIN: usize = 0;
pub const PREP: usize = 1;
pub const OP: usize = 2;

const SIZE: usize = 192 << 20;

#[repr(align(4096))]
struct Region(UnsafeCell<[u8; SIZE]>);
unsafe impl Sync for Region {}

static R0: Region = Region(UnsafeCell::new([0; SIZE]));
static R1: Region = Region(UnsafeCell::new([0; SIZE]));
static R2: Region = Region(UnsafeCell::new([0; SIZE]));

static mut MODE: usize = MAIN;
static mut OFF: [usize; 3] = [0; 3];

pub fn set_mode(m: usize) {
    unsafe { MODE = m }
}
pub fn reset(m: usize) {
    unsafe { OFF[m] = 0 }
}

pub struct Bump;

unsafe impl GlobalAlloc for Bump {
    unsafe fn alloc(&self, l: Layout) -> *mut u8 {
        unsafe {
            let m = MODE;
            let base = match m {
                MAIN => R0.0.get(),
                PREP => R1.0.get(),
                _ => R2.0.get(),
            } as *mut u8;
            let a = l.align().max(16);
            let off = (OFF[m] + a - 1) & !(a - 1);
            let end = off + l.size();
            if end > SIZE {
                return core::ptr::null_mut();
            }
            OFF[m] = end;
            base.add(off)
        }
    }
    unsafe fn dealloc(&self, _p: *mut u8, _l: Layout) {}
}
