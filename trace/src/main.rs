//! cbtrace — C01 observer binary (see /verif/notes/C01.md, /verif/tools/check_c01.py).
//!
//! Reads job lines from the file named by argv[1]:
//!     <op>[@<registry index>] <width> <p0,p1,..|-> <slot0hex> <slot1hex> ...
//! For every job: the operand slots (fixed statics) are filled, the per-job arenas are reset, the
//! operation's `setup` runs (public pre-computation: Montgomery parameters, boxing of operands),
//! then `c01_marker_begin(); run(); c01_marker_end();` — the region whose instruction / load /
//! store addresses `valgrind --tool=lackey --trace-mem=yes` reports. Nothing in this binary is
//! instrumented; it is the ordinary opt-level-3 build of the crate.
//!
//! stdout: `markers <begin> <end> <region>` (run-time addresses), then one line per job
//! `out <index> <op> <width> <fnv64 of the output slots>`.
#![allow(static_mut_refs)]

mod arena;
mod ops;
mod slots;

use std::io::{BufRead, Write};

#[global_allocator]
static GLOBAL: arena::Bump = arena::Bump;

static mut MARK: u64 = 0;

#[unsafe(no_mangle)]
#[inline(never)]
pub extern "C" fn c01_marker_begin() {
    unsafe { core::ptr::write_volatile(&raw mut MARK, 0x1111) }
}

#[unsafe(no_mangle)]
#[inline(never)]
pub extern "C" fn c01_marker_end() {
    unsafe { core::ptr::write_volatile(&raw mut MARK, 0x2222) }
}

/// the only call site of every operation: same stack depth for every job
#[unsafe(no_mangle)]
#[inline(never)]
pub fn c01_region(f: fn()) {
    c01_marker_begin();
    f();
    c01_marker_end();
}

fn parse_hex_into(slot: &mut [u64], s: &str) {
    for w in slot.iter_mut() {
        *w = 0;
    }
    let b = s.as_bytes();
    let mut n = b.len();
    let mut i = 0;
    while n > 0 && i < slot.len() {
        let lo = n.saturating_sub(16);
        let chunk = core::str::from_utf8(&b[lo..n]).unwrap();
        slot[i] = u64::from_str_radix(chunk, 16).expect("hex");
        n = lo;
        i += 1;
    }
}

fn main() {
    let args: Vec<String> = std::env::args().collect();
    let reg = ops::registry();
    if args.len() >= 2 && args[1] == "--list" {
        for e in &reg {
            println!("{} {}", e.name, e.width);
        }
        return;
    }
    let path = args.get(1).expect("usage: cbtrace <jobfile> | --list");
    let file = std::fs::File::open(path).expect("job file");
    let lines: Vec<String> = std::io::BufReader::new(file).lines().map(|l| l.unwrap()).collect();
    let out = std::io::stdout();
    let mut out = out.lock();
    writeln!(
        out,
        "markers {:x} {:x} {:x}",
        c01_marker_begin as *const () as usize,
        c01_marker_end as *const () as usize,
        c01_region as *const () as usize
    )
    .unwrap();
    out.flush().unwrap();
    for (idx, line) in lines.iter().enumerate() {
        let toks: Vec<&str> = line.split_whitespace().collect();
        if toks.len() < 3 || toks[0].starts_with('#') {
            continue;
        }
        let width: usize = toks[1].parse().expect("width");
        // `name@<registry index>` (as written by tools/check_c01.py from `--list`) avoids a linear search that
        // costs ~10k traced instructions per job; a bare name is searched
        let (name, hint) = match toks[0].split_once('@') {
            Some((n, i)) => (n, i.parse::<usize>().ok()),
            None => (toks[0], None),
        };
        let found = match hint {
            Some(i) if i < reg.len() && reg[i].name == name && reg[i].width == width => Some(i),
            _ => reg.iter().position(|e| e.name == name && e.width == width),
        };
        let Some(ei) = found else {
            writeln!(out, "out {} {} {} unknown-op", idx, name, width).unwrap();
            continue;
        };
        let e = &reg[ei];
        // only the words an operation of this width can touch are cleared / hashed (operands: `width` words,
        // results: up to 2*width words per output position) — keeps the untraced-but-recorded part of a job small
        let ow = (2 * width + 2).min(2 * slots::SLOT_WORDS);
        unsafe {
            for p in slots::P.iter_mut() {
                *p = 0;
            }
            if toks[2] != "-" {
                for (i, p) in toks[2].split(',').enumerate() {
                    slots::P[i] = p.parse().expect("pub");
                }
            }
            for s in slots::S.iter_mut() {
                for w in s[..(2 * width + 1).min(slots::SLOT_WORDS)].iter_mut() {
                    *w = 0;
                }
            }
            for (i, t) in toks[3..].iter().enumerate() {
                // up to 2*width words: the mixed-precision boxed operations take an operand of twice the limb count
                parse_hex_into(&mut slots::S[i][..(2 * width).max(1).min(slots::SLOT_WORDS)], t);
            }
            for k in 0..4 {
                for w in slots::OUT[k * 2 * slots::SLOT_WORDS..k * 2 * slots::SLOT_WORDS + ow].iter_mut() {
                    *w = 0;
                }
            }
        }
        // values of the previous job living in the PREP arena must be dropped BEFORE the arena is
        // reset (an Arc refcount of a stale value would otherwise be decremented inside fresh data)
        ops::clear();
        arena::set_mode(arena::PREP);
        arena::reset(arena::PREP);
        (e.setup)();
        arena::set_mode(arena::OP);
        arena::reset(arena::OP);
        c01_region(e.run);
        arena::set_mode(arena::MAIN);
        let mut h: u64 = 0xcbf29ce484222325;
        unsafe {
            for k in 0..4 {
                for w in slots::OUT[k * 2 * slots::SLOT_WORDS..k * 2 * slots::SLOT_WORDS + ow].iter() {
                    h = (h ^ *w).wrapping_mul(0x100000001b3);
                }
            }
        }
        writeln!(out, "out {} {} {} {:016x}", idx, name, width, h).unwrap();
    }
    out.flush().unwrap();
}
