//! The observed operations. Every `run` function is a monomorphic `#[inline(never)]` wrapper: it
//! reads its operands from the fixed static slots (volatile), calls ONE public operation of the
//! crate, and stores every component of the result (volatile). `setup` functions run outside the
//! markers (public pre-computation: Montgomery parameters; boxing of operands).
//!
//! Slot conventions are documented per operation in tools/check_c01.py (OPS table), which decides
//! which slots are secret and which are public for the comparison.
use crate::slots::*;
use crypto_bigint::modular::{BoxedMontyForm, BoxedMontyParams, MontyForm, MontyParams};
use crypto_bigint::subtle::{
    Choice, ConditionallySelectable, ConstantTimeEq, ConstantTimeGreater, ConstantTimeLess,
};
use crypto_bigint::{
    BoxedUint, ConstantTimeSelect, Int, Limb, NonZero, Odd, U256, Uint, impl_modulus,
    modular::ConstMontyForm,
};

pub struct Entry {
    pub name: &'static str,
    pub width: usize,
    pub setup: fn(),
    pub run: fn(),
}

fn nop() {}

trait Tu8 {
    fn tu8(self) -> u8;
}
impl Tu8 for crypto_bigint::ConstChoice {
    #[inline(always)]
    fn tu8(self) -> u8 {
        Choice::from(self).unwrap_u8()
    }
}

#[inline(always)]
fn choice(i: usize) -> Choice {
    Choice::from((word(i, 0) & 1) as u8)
}
#[inline(always)]
fn nz<const N: usize>(i: usize) -> NonZero<Uint<N>> {
    NonZero::new(ld::<N>(i)).unwrap()
}
#[inline(always)]
fn odd<const N: usize>(i: usize) -> Odd<Uint<N>> {
    Odd::new(ld::<N>(i)).unwrap()
}
#[inline(always)]
fn ord(o: core::cmp::Ordering) -> u64 {
    o as i8 as u64
}

// ------------------------------------------------------------------------------------------ Limb

macro_rules! limb_ops {
    ($($f:ident => $body:expr;)*) => { $( #[inline(never)] fn $f() { $body } )* };
}

limb_ops! {
    limb_ct_eq => ow(0, limb(0).ct_eq(&limb(1)).unwrap_u8() as u64);
    limb_ct_lt => ow(0, limb(0).ct_lt(&limb(1)).unwrap_u8() as u64);
    limb_ct_gt => ow(0, limb(0).ct_gt(&limb(1)).unwrap_u8() as u64);
    limb_cmp => ow(0, ord(Ord::cmp(&limb(0), &limb(1))));
    limb_cmp_vartime => ow(0, ord(limb(0).cmp_vartime(&limb(1))));
    limb_ct_select => stl(0, Limb::conditional_select(&limb(0), &limb(1), choice(2)));
    limb_adc => { let (r, c) = limb(0).adc(limb(1), Limb(word(2, 0) & 1)); stl(0, r); stl(1, c) };
    limb_sbb => { let (r, c) = limb(0).sbb(limb(1), Limb((word(2, 0) & 1).wrapping_neg())); stl(0, r); stl(1, c) };
    limb_mac => { let (r, c) = limb(0).mac(limb(1), limb(2), limb(3)); stl(0, r); stl(1, c) };
    limb_wrapping_add => stl(0, limb(0).wrapping_add(limb(1)));
    limb_wrapping_sub => stl(0, limb(0).wrapping_sub(limb(1)));
    limb_wrapping_mul => stl(0, limb(0).wrapping_mul(limb(1)));
    limb_wrapping_neg => stl(0, limb(0).wrapping_neg());
    limb_saturating_add => stl(0, limb(0).saturating_add(limb(1)));
    limb_bits => ow(0, limb(0).bits() as u64);
    limb_leading_zeros => ow(0, limb(0).leading_zeros() as u64);
    limb_trailing_zeros => ow(0, limb(0).trailing_zeros() as u64);
    limb_trailing_ones => ow(0, limb(0).trailing_ones() as u64);
    limb_shl => stl(0, limb(0).shl(p(0) as u32));
    limb_shr => stl(0, limb(0).shr(p(0) as u32));
    limb_is_odd => ow(0, limb(0).is_odd().unwrap_u8() as u64);
}

// ------------------------------------------------------------------------------------------ Uint

#[inline(never)]
fn uint_ct_eq<const N: usize>() {
    ow(0, ld::<N>(0).ct_eq(&ld::<N>(1)).unwrap_u8() as u64)
}
#[inline(never)]
fn uint_ct_lt<const N: usize>() {
    ow(0, ld::<N>(0).ct_lt(&ld::<N>(1)).unwrap_u8() as u64)
}
#[inline(never)]
fn uint_ct_gt<const N: usize>() {
    ow(0, ld::<N>(0).ct_gt(&ld::<N>(1)).unwrap_u8() as u64)
}
#[inline(never)]
fn uint_cmp<const N: usize>() {
    ow(0, ord(Ord::cmp(&ld::<N>(0), &ld::<N>(1))))
}
#[inline(never)]
fn uint_eq<const N: usize>() {
    ow(0, (ld::<N>(0) == ld::<N>(1)) as u64)
}
#[inline(never)]
fn uint_cmp_vartime<const N: usize>() {
    ow(0, ord(ld::<N>(0).cmp_vartime(&ld::<N>(1))))
}
#[inline(never)]
fn uint_ct_select<const N: usize>() {
    st(0, &Uint::<N>::conditional_select(&ld::<N>(0), &ld::<N>(1), choice(2)))
}
#[inline(never)]
fn uint_is_zero<const N: usize>() {
    use crypto_bigint::Zero;
    ow(0, ld::<N>(0).is_zero().unwrap_u8() as u64)
}
#[inline(never)]
fn uint_adc<const N: usize>() {
    let (r, c) = ld::<N>(0).adc(&ld::<N>(1), Limb(word(2, 0) & 1));
    st(0, &r);
    stl(1, c)
}
#[inline(never)]
fn uint_sbb<const N: usize>() {
    let (r, c) = ld::<N>(0).sbb(&ld::<N>(1), Limb((word(2, 0) & 1).wrapping_neg()));
    st(0, &r);
    stl(1, c)
}
#[inline(never)]
fn uint_wrapping_add<const N: usize>() {
    st(0, &ld::<N>(0).wrapping_add(&ld::<N>(1)))
}
#[inline(never)]
fn uint_wrapping_sub<const N: usize>() {
    st(0, &ld::<N>(0).wrapping_sub(&ld::<N>(1)))
}
#[inline(never)]
fn uint_saturating_add<const N: usize>() {
    st(0, &ld::<N>(0).saturating_add(&ld::<N>(1)))
}
#[inline(never)]
fn uint_saturating_sub<const N: usize>() {
    st(0, &ld::<N>(0).saturating_sub(&ld::<N>(1)))
}
#[inline(never)]
fn uint_checked_add<const N: usize>() {
    use crypto_bigint::CheckedAdd;
    let r = ld::<N>(0).checked_add(&ld::<N>(1));
    ow(1, r.is_some().unwrap_u8() as u64);
    st(0, &r.unwrap_or(Uint::ZERO))
}
#[inline(never)]
fn uint_checked_sub<const N: usize>() {
    use crypto_bigint::CheckedSub;
    let r = ld::<N>(0).checked_sub(&ld::<N>(1));
    ow(1, r.is_some().unwrap_u8() as u64);
    st(0, &r.unwrap_or(Uint::ZERO))
}
#[inline(never)]
fn uint_wrapping_neg<const N: usize>() {
    st(0, &ld::<N>(0).wrapping_neg())
}
#[inline(never)]
fn uint_carrying_neg<const N: usize>() {
    let (r, c) = ld::<N>(0).carrying_neg();
    st(0, &r);
    ow(1, c.tu8() as u64)
}
/// shift amount is SECRET here (slot 1, reduced below BITS by the check script)
#[inline(never)]
fn uint_shl<const N: usize>() {
    st(0, &ld::<N>(0).shl(word(1, 0) as u32))
}
#[inline(never)]
fn uint_shr<const N: usize>() {
    st(0, &ld::<N>(0).shr(word(1, 0) as u32))
}
#[inline(never)]
fn uint_wrapping_shl<const N: usize>() {
    st(0, &ld::<N>(0).wrapping_shl(word(1, 0) as u32))
}
#[inline(never)]
fn uint_wrapping_shr<const N: usize>() {
    st(0, &ld::<N>(0).wrapping_shr(word(1, 0) as u32))
}
#[inline(never)]
fn uint_overflowing_shl<const N: usize>() {
    let r = ld::<N>(0).overflowing_shl(word(1, 0) as u32);
    ow(1, r.is_some().tu8() as u64);
    st(0, &r.unwrap_or(Uint::ZERO))
}
#[inline(never)]
fn uint_overflowing_shr<const N: usize>() {
    let r = ld::<N>(0).overflowing_shr(word(1, 0) as u32);
    ow(1, r.is_some().tu8() as u64);
    st(0, &r.unwrap_or(Uint::ZERO))
}
/// shift amount is PUBLIC (P[0])
#[inline(never)]
fn uint_shl_vartime<const N: usize>() {
    st(0, &ld::<N>(0).shl_vartime(p(0) as u32))
}
#[inline(never)]
fn uint_shr_vartime<const N: usize>() {
    st(0, &ld::<N>(0).shr_vartime(p(0) as u32))
}
#[inline(never)]
fn uint_bits<const N: usize>() {
    ow(0, ld::<N>(0).bits() as u64)
}
#[inline(never)]
fn uint_bits_vartime<const N: usize>() {
    ow(0, ld::<N>(0).bits_vartime() as u64)
}
#[inline(never)]
fn uint_bits_trait<const N: usize>() {
    // the TRAIT path (`BitOps`, generic code): provided methods of src/traits.rs that `Uint` does not override
    ow(0, crypto_bigint::BitOps::bits(&ld::<N>(0)) as u64);
    ow(1, crypto_bigint::BitOps::leading_zeros(&ld::<N>(0)) as u64);
    ow(2, crypto_bigint::BitOps::trailing_zeros(&ld::<N>(0)) as u64);
    ow(3, crypto_bigint::BitOps::trailing_ones(&ld::<N>(0)) as u64);
}
/// heterogeneous comparison operators `Uint` vs `Odd<Uint>` (src/odd.rs): slot 1 must be odd
#[inline(never)]
fn uint_cmp_odd<const N: usize>() {
    let m = crypto_bigint::Odd::new(ld::<N>(1)).unwrap();
    let x = ld::<N>(0);
    ow(0, (x < m) as u64);
    ow(1, (x == m) as u64);
    ow(2, ord(PartialOrd::partial_cmp(&x, &m).unwrap()));
}
#[inline(never)]
fn uint_leading_zeros<const N: usize>() {
    ow(0, ld::<N>(0).leading_zeros() as u64)
}
#[inline(never)]
fn uint_trailing_zeros<const N: usize>() {
    ow(0, ld::<N>(0).trailing_zeros() as u64)
}
#[inline(never)]
fn uint_trailing_ones<const N: usize>() {
    ow(0, ld::<N>(0).trailing_ones() as u64)
}
/// bit index is SECRET (slot 1)
#[inline(never)]
fn uint_bit<const N: usize>() {
    ow(0, ld::<N>(0).bit(word(1, 0) as u32).tu8() as u64)
}
/// bit index is PUBLIC (P[0])
#[inline(never)]
fn uint_bit_vartime<const N: usize>() {
    ow(0, ld::<N>(0).bit_vartime(p(0) as u32) as u64)
}
#[inline(never)]
fn uint_split_mul<const N: usize>() {
    let (lo, hi) = ld::<N>(0).split_mul(&ld::<N>(1));
    st(0, &lo);
    st(1, &hi)
}
#[inline(never)]
fn uint_wrapping_mul<const N: usize>() {
    st(0, &ld::<N>(0).wrapping_mul(&ld::<N>(1)))
}
#[inline(never)]
fn uint_checked_mul<const N: usize>() {
    use crypto_bigint::CheckedMul;
    let r = ld::<N>(0).checked_mul(&ld::<N>(1));
    ow(1, r.is_some().unwrap_u8() as u64);
    st(0, &r.unwrap_or(Uint::ZERO))
}
/// a SEQUENCE on the `Checked` wrapper (sticky none): an addition that may overflow, then every by-value / by-reference
/// operator form on the (possibly `None`) sum — the trace must not depend on whether the earlier step overflowed
#[inline(never)]
fn uint_checked_chain<const N: usize>() {
    use crypto_bigint::Checked;
    let (a, b, m) = (Checked::new(ld::<N>(0)), Checked::new(ld::<N>(1)), Checked::new(ld::<N>(2)));
    let sum = a + b;
    let p1 = &sum * &m;
    let p2 = sum * m;
    let p3 = &sum + &m;
    let p4 = &sum - &m;
    let p5 = sum * &m;
    ow(4, p1.0.is_some().unwrap_u8() as u64 + 2 * p3.0.is_some().unwrap_u8() as u64 + 4 * p4.0.is_some().unwrap_u8() as u64);
    st(0, &p1.0.unwrap_or(Uint::ZERO));
    st(1, &p2.0.unwrap_or(Uint::ZERO));
    st(2, &p3.0.unwrap_or(Uint::ZERO));
    st(3, &p5.0.unwrap_or(Uint::ZERO));
}
#[inline(never)]
fn uint_square_wide<const N: usize>() {
    let (lo, hi) = ld::<N>(0).square_wide();
    st(0, &lo);
    st(1, &hi)
}
#[inline(never)]
fn uint_div_rem<const N: usize>() {
    let (q, r) = ld::<N>(0).div_rem(&nz::<N>(1));
    st(0, &q);
    st(1, &r)
}
#[inline(never)]
fn uint_rem<const N: usize>() {
    st(0, &ld::<N>(0).rem(&nz::<N>(1)))
}
#[inline(never)]
fn uint_wrapping_div<const N: usize>() {
    st(0, &ld::<N>(0).wrapping_div(&nz::<N>(1)))
}
#[inline(never)]
fn uint_checked_div<const N: usize>() {
    let r = ld::<N>(0).checked_div(&ld::<N>(1));
    ow(1, r.is_some().unwrap_u8() as u64);
    st(0, &r.unwrap_or(Uint::ZERO))
}
#[inline(never)]
fn uint_div_rem_limb<const N: usize>() {
    let (q, r) = ld::<N>(0).div_rem_limb(NonZero::new(limb(1)).unwrap());
    st(0, &q);
    stl(1, r)
}
#[inline(never)]
fn uint_rem_limb<const N: usize>() {
    stl(0, ld::<N>(0).rem_limb(NonZero::new(limb(1)).unwrap()))
}
/// divisor (slot 1) is PUBLIC
#[inline(never)]
fn uint_mul_mod_trait<const N: usize>() {
    // the `MulMod` TRAIT method (not named vartime; forwards to mul_mod_vartime)
    st(0, &crypto_bigint::MulMod::mul_mod(&ld::<N>(0), &ld::<N>(1), &ld::<N>(2)))
}
#[inline(never)]
fn uint_div_rem_vartime<const N: usize>() {
    let (q, r) = ld::<N>(0).div_rem_vartime(&nz::<N>(1));
    st(0, &q);
    st(1, &r)
}
#[inline(never)]
fn uint_rem_vartime<const N: usize>() {
    st(0, &ld::<N>(0).rem_vartime(&nz::<N>(1)))
}
#[inline(never)]
fn uint_add_mod<const N: usize>() {
    st(0, &ld::<N>(0).add_mod(&ld::<N>(1), &ld::<N>(2)))
}
#[inline(never)]
fn uint_sub_mod<const N: usize>() {
    st(0, &ld::<N>(0).sub_mod(&ld::<N>(1), &ld::<N>(2)))
}
#[inline(never)]
fn uint_neg_mod<const N: usize>() {
    st(0, &ld::<N>(0).neg_mod(&ld::<N>(2)))
}
#[inline(never)]
fn uint_double_mod<const N: usize>() {
    st(0, &ld::<N>(0).double_mod(&ld::<N>(2)))
}
#[inline(never)]
fn uint_add_mod_special<const N: usize>() {
    st(0, &ld::<N>(0).add_mod_special(&ld::<N>(1), limb(2)))
}
#[inline(never)]
fn uint_sub_mod_special<const N: usize>() {
    st(0, &ld::<N>(0).sub_mod_special(&ld::<N>(1), limb(2)))
}
#[inline(never)]
fn uint_mul_mod_special<const N: usize>() {
    st(0, &ld::<N>(0).mul_mod_special(&ld::<N>(1), limb(2)))
}
/// k is SECRET (slot 1)
#[inline(never)]
fn uint_inv_mod2k<const N: usize>() {
    let r = ld::<N>(0).inv_mod2k(word(1, 0) as u32);
    ow(1, r.is_some().tu8() as u64);
    st(0, &r.unwrap_or(Uint::ZERO))
}
/// k is PUBLIC (P[0])
#[inline(never)]
fn uint_inv_mod2k_vartime<const N: usize>() {
    let r = ld::<N>(0).inv_mod2k_vartime(p(0) as u32);
    ow(1, r.is_some().tu8() as u64);
    st(0, &r.unwrap_or(Uint::ZERO))
}
#[inline(never)]
fn uint_sqrt<const N: usize>() {
    st(0, &ld::<N>(0).sqrt())
}
#[inline(never)]
fn uint_sqrt_vartime<const N: usize>() {
    st(0, &ld::<N>(0).sqrt_vartime())
}
#[inline(never)]
fn uint_checked_sqrt<const N: usize>() {
    let r = ld::<N>(0).checked_sqrt();
    ow(1, r.is_some().unwrap_u8() as u64);
    st(0, &r.unwrap_or(Uint::ZERO))
}

// operations whose bounds need concrete widths (Concat / PrecomputeInverter)
macro_rules! uint_concrete {
    ($n:literal, $w:literal, $mul_mod:ident, $inv_odd_mod:ident, $inv_mod:ident, $gcd:ident,
     $mp_setup:ident, $mp_setup_vt:ident, $mp_new:ident) => {
        #[allow(dead_code)]
        #[inline(never)]
        fn $mul_mod() {
            st(0, &ld::<$n>(0).mul_mod::<$w>(&ld::<$n>(1), &nz::<$n>(2)))
        }
        #[allow(dead_code)]
        #[inline(never)]
        fn $inv_odd_mod() {
            let r = ld::<$n>(0).inv_odd_mod(&odd::<$n>(2));
            ow(1, r.is_some().tu8() as u64);
            st(0, &r.unwrap_or(Uint::ZERO))
        }
        #[allow(dead_code)]
        #[inline(never)]
        fn $inv_mod() {
            let r = ld::<$n>(0).inv_mod(&ld::<$n>(2));
            ow(1, r.is_some().tu8() as u64);
            st(0, &r.unwrap_or(Uint::ZERO))
        }
        #[allow(dead_code)]
        #[inline(never)]
        fn $gcd() {
            st(0, &ld::<$n>(0).gcd(&ld::<$n>(1)))
        }
        /// setup: Montgomery parameters of the PUBLIC modulus in slot 2 -> PRE
        fn $mp_setup() {
            let params = MontyParams::<$n>::new(odd::<$n>(2));
            unsafe { core::ptr::write((&raw mut PRE.0) as *mut MontyParams<$n>, params) }
        }
        #[allow(dead_code)]
        fn $mp_setup_vt() {
            let params = MontyParams::<$n>::new_vartime(odd::<$n>(2));
            unsafe { core::ptr::write((&raw mut PRE.0) as *mut MontyParams<$n>, params) }
        }
        /// MontyParams::new itself observed as an operation with a SECRET modulus
        #[allow(dead_code)]
        #[inline(never)]
        fn $mp_new() {
            let params = MontyParams::<$n>::new(odd::<$n>(2));
            st(0, &MontyForm::<$n>::one(params).to_montgomery())
        }
    };
}
uint_concrete!(1, 2, uint_mul_mod_1, uint_inv_odd_mod_1, uint_inv_mod_1, uint_gcd_1, mp_setup_1, mp_setup_vt_1, monty_params_new_1);
uint_concrete!(2, 4, uint_mul_mod_2, uint_inv_odd_mod_2, uint_inv_mod_2, uint_gcd_2, mp_setup_2, mp_setup_vt_2, monty_params_new_2);
uint_concrete!(4, 8, uint_mul_mod_4, uint_inv_odd_mod_4, uint_inv_mod_4, uint_gcd_4, mp_setup_4, mp_setup_vt_4, monty_params_new_4);
uint_concrete!(8, 16, uint_mul_mod_8, uint_inv_odd_mod_8, uint_inv_mod_8, uint_gcd_8, mp_setup_8, mp_setup_vt_8, monty_params_new_8);
uint_concrete!(16, 32, uint_mul_mod_16, uint_inv_odd_mod_16, uint_inv_mod_16, uint_gcd_16, mp_setup_16, mp_setup_vt_16, monty_params_new_16);

// ------------------------------------------------------------------------------------- MontyForm

#[inline(always)]
fn mparams<const N: usize>() -> MontyParams<N> {
    unsafe { core::ptr::read_volatile((&raw const PRE.0) as *const MontyParams<N>) }
}
/// a value already in Montgomery form, slot `i` (reduced below the modulus by the check script)
#[inline(always)]
fn mf<const N: usize>(i: usize) -> MontyForm<N> {
    MontyForm::from_montgomery(ld::<N>(i), mparams::<N>())
}
#[inline(never)]
fn monty_new<const N: usize>() {
    st(0, &MontyForm::<N>::new(&ld::<N>(0), mparams::<N>()).to_montgomery())
}
#[inline(never)]
fn monty_retrieve<const N: usize>() {
    st(0, &mf::<N>(0).retrieve())
}
#[inline(never)]
fn monty_mul<const N: usize>() {
    st(0, &mf::<N>(0).mul(&mf::<N>(1)).to_montgomery())
}
#[inline(never)]
fn monty_square<const N: usize>() {
    st(0, &mf::<N>(0).square().to_montgomery())
}
#[inline(never)]
fn monty_add<const N: usize>() {
    st(0, &mf::<N>(0).add(&mf::<N>(1)).to_montgomery())
}
#[inline(never)]
fn monty_sub<const N: usize>() {
    st(0, &mf::<N>(0).sub(&mf::<N>(1)).to_montgomery())
}
#[inline(never)]
fn monty_neg<const N: usize>() {
    st(0, &mf::<N>(0).neg().to_montgomery())
}
#[inline(never)]
fn monty_double<const N: usize>() {
    st(0, &mf::<N>(0).double().to_montgomery())
}
#[inline(never)]
fn monty_div_by_2<const N: usize>() {
    st(0, &mf::<N>(0).div_by_2().to_montgomery())
}
/// exponent: slot 1 (SECRET), full width
#[inline(never)]
fn monty_pow<const N: usize>() {
    st(0, &mf::<N>(0).pow(&ld::<N>(1)).to_montgomery())
}
/// exponent: slot 1 (SECRET); exponent_bits: P[0] (PUBLIC)
#[inline(never)]
fn monty_pow_bounded<const N: usize>() {
    st(0, &mf::<N>(0).pow_bounded_exp(&ld::<N>(1), p(0) as u32).to_montgomery())
}

macro_rules! monty_concrete {
    ($n:literal, $inv:ident) => {
        #[inline(never)]
        fn $inv() {
            let r = mf::<$n>(0).inv();
            ow(1, r.is_some().tu8() as u64);
            let r: crypto_bigint::subtle::CtOption<MontyForm<$n>> = r.into();
            st(0, &r.unwrap_or(MontyForm::zero(mparams::<$n>())).to_montgomery())
        }
    };
}
monty_concrete!(1, monty_inv_1);
monty_concrete!(2, monty_inv_2);
monty_concrete!(4, monty_inv_4);
monty_concrete!(8, monty_inv_8);

// -------------------------------------------------------------------------------- ConstMontyForm

impl_modulus!(
    P256,
    U256,
    "ffffffff00000001000000000000000000000000ffffffffffffffffffffffff"
);
type CM = ConstMontyForm<P256, 4>;
#[inline(always)]
fn cmf(i: usize) -> CM {
    CM::from_montgomery(ld::<4>(i))
}
#[inline(never)]
fn cmonty_new() {
    st(0, &CM::new(&ld::<4>(0)).to_montgomery())
}
#[inline(never)]
fn cmonty_retrieve() {
    st(0, &cmf(0).retrieve())
}
#[inline(never)]
fn cmonty_mul() {
    st(0, &cmf(0).mul(&cmf(1)).to_montgomery())
}
#[inline(never)]
fn cmonty_square() {
    st(0, &cmf(0).square().to_montgomery())
}
#[inline(never)]
fn cmonty_add() {
    st(0, &cmf(0).add(&cmf(1)).to_montgomery())
}
#[inline(never)]
fn cmonty_sub() {
    st(0, &cmf(0).sub(&cmf(1)).to_montgomery())
}
#[inline(never)]
fn cmonty_neg() {
    st(0, &cmf(0).neg().to_montgomery())
}
#[inline(never)]
fn cmonty_pow() {
    st(0, &cmf(0).pow(&ld::<4>(1)).to_montgomery())
}
#[inline(never)]
fn cmonty_inv() {
    let r = cmf(0).inv();
    ow(1, r.is_some().tu8() as u64);
    let r: crypto_bigint::subtle::CtOption<CM> = r.into();
    st(0, &r.unwrap_or(CM::ZERO).to_montgomery())
}

// ------------------------------------------------------------------------------------------- Int

#[inline(never)]
fn int_ct_eq<const N: usize>() {
    ow(0, ldi::<N>(0).ct_eq(&ldi::<N>(1)).unwrap_u8() as u64)
}
#[inline(never)]
fn int_ct_lt<const N: usize>() {
    ow(0, ldi::<N>(0).ct_lt(&ldi::<N>(1)).unwrap_u8() as u64)
}
#[inline(never)]
fn int_ct_gt<const N: usize>() {
    ow(0, ldi::<N>(0).ct_gt(&ldi::<N>(1)).unwrap_u8() as u64)
}
#[inline(never)]
fn int_cmp<const N: usize>() {
    ow(0, ord(Ord::cmp(&ldi::<N>(0), &ldi::<N>(1))))
}
#[inline(never)]
fn int_ct_select<const N: usize>() {
    st(0, Int::<N>::conditional_select(&ldi::<N>(0), &ldi::<N>(1), choice(2)).as_uint())
}
#[inline(never)]
fn int_wrapping_add<const N: usize>() {
    st(0, ldi::<N>(0).wrapping_add(&ldi::<N>(1)).as_uint())
}
#[inline(never)]
fn int_checked_add<const N: usize>() {
    let r = ldi::<N>(0).checked_add(&ldi::<N>(1));
    ow(1, r.is_some().tu8() as u64);
    st(0, r.unwrap_or(Int::ZERO).as_uint())
}
#[inline(never)]
fn int_checked_sub<const N: usize>() {
    use crypto_bigint::CheckedSub;
    let r = ldi::<N>(0).checked_sub(&ldi::<N>(1));
    ow(1, r.is_some().unwrap_u8() as u64);
    st(0, r.unwrap_or(Int::ZERO).as_uint())
}
#[inline(never)]
fn int_wrapping_sub<const N: usize>() {
    use crypto_bigint::WrappingSub;
    st(0, ldi::<N>(0).wrapping_sub(&ldi::<N>(1)).as_uint())
}
#[inline(never)]
fn int_wrapping_neg<const N: usize>() {
    st(0, ldi::<N>(0).wrapping_neg().as_uint())
}
#[inline(never)]
fn int_checked_neg<const N: usize>() {
    let r = ldi::<N>(0).checked_neg();
    ow(1, r.is_some().tu8() as u64);
    st(0, r.unwrap_or(Int::ZERO).as_uint())
}
#[inline(never)]
fn int_abs_sign<const N: usize>() {
    let (a, s) = ldi::<N>(0).abs_sign();
    st(0, &a);
    ow(1, s.tu8() as u64)
}
#[inline(never)]
fn int_is_negative<const N: usize>() {
    ow(0, ldi::<N>(0).is_negative().tu8() as u64)
}
#[inline(never)]
fn int_split_mul<const N: usize>() {
    let (lo, hi, neg) = ldi::<N>(0).split_mul(&ldi::<N>(1));
    st(0, &lo);
    st(1, &hi);
    ow(2, neg.tu8() as u64)
}
#[inline(never)]
fn int_checked_mul<const N: usize>() {
    use crypto_bigint::CheckedMul;
    let r = ldi::<N>(0).checked_mul(&ldi::<N>(1));
    ow(1, r.is_some().unwrap_u8() as u64);
    st(0, r.unwrap_or(Int::ZERO).as_uint())
}
#[inline(never)]
fn int_checked_div_rem<const N: usize>() {
    let (q, r) = ldi::<N>(0).checked_div_rem(&NonZero::new(ldi::<N>(1)).unwrap());
    ow(2, q.is_some().tu8() as u64);
    st(0, q.unwrap_or(Int::ZERO).as_uint());
    st(1, r.as_uint())
}
#[inline(never)]
fn int_rem<const N: usize>() {
    st(0, ldi::<N>(0).rem(&NonZero::new(ldi::<N>(1)).unwrap()).as_uint())
}
#[inline(never)]
fn int_checked_div_rem_floor<const N: usize>() {
    let (q, r) = ldi::<N>(0).checked_div_rem_floor(&NonZero::new(ldi::<N>(1)).unwrap());
    ow(2, q.is_some().tu8() as u64);
    st(0, q.unwrap_or(Int::ZERO).as_uint());
    st(1, r.as_uint())
}
#[inline(never)]
fn int_div_rem_uint<const N: usize>() {
    let (q, r) = ldi::<N>(0).div_rem_uint(&nz::<N>(1));
    st(0, q.as_uint());
    st(1, r.as_uint())
}
/// shift SECRET (slot 1)
#[inline(never)]
fn int_shr<const N: usize>() {
    st(0, ldi::<N>(0).shr(word(1, 0) as u32).as_uint())
}
#[inline(never)]
fn int_shl<const N: usize>() {
    st(0, ldi::<N>(0).shl(word(1, 0) as u32).as_uint())
}
/// shift PUBLIC (P[0])
#[inline(never)]
fn int_shr_vartime<const N: usize>() {
    st(0, ldi::<N>(0).shr_vartime(p(0) as u32).as_uint())
}

// ------------------------------------------------------------------------------------- BoxedUint
// setup boxes the operand slots (width = limb count, public) into BX[..]; run uses references.

/// mixed precision: operand 0 with N limbs, operand 1 with 2N limbs
fn bx_setup_mixed<const N: usize>() {
    unsafe {
        BX[0] = Some(boxed(0, N));
        BX[1] = Some(boxed(1, 2 * N));
    }
}
fn bx_setup<const K: usize, const N: usize>() {
    unsafe {
        let mut i = 0;
        while i < K {
            BX[i] = Some(boxed(i, N));
            i += 1;
        }
    }
}
#[inline(always)]
fn bx(i: usize) -> &'static BoxedUint {
    unsafe { BX[i].as_ref().unwrap() }
}
#[inline(always)]
fn bxm(i: usize) -> &'static mut BoxedUint {
    unsafe { BX[i].as_mut().unwrap() }
}
#[inline(always)]
fn bnz(i: usize) -> NonZero<BoxedUint> {
    NonZero::new(bx(i).clone()).unwrap()
}

macro_rules! boxed_ops {
    ($($f:ident => $body:expr;)*) => { $( #[inline(never)] fn $f() { $body } )* };
}
boxed_ops! {
    boxed_ct_eq => ow(0, bx(0).ct_eq(bx(1)).unwrap_u8() as u64);
    boxed_ct_eq_mixed => { ow(0, bx(0).ct_eq(bx(1)).unwrap_u8() as u64); ow(1, bx(1).ct_eq(bx(0)).unwrap_u8() as u64) };
    boxed_ct_lt_mixed => { ow(0, bx(0).ct_lt(bx(1)).unwrap_u8() as u64); ow(1, bx(1).ct_lt(bx(0)).unwrap_u8() as u64); ow(2, bx(0).ct_gt(bx(1)).unwrap_u8() as u64) };
    boxed_cmp_mixed => { ow(0, ord(Ord::cmp(bx(0), bx(1)))); ow(1, (bx(0) == bx(1)) as u64) };
    boxed_wrapping_add_mixed => { stb(0, &bx(0).wrapping_add(bx(1))); stb(1, &bx(1).wrapping_add(bx(0))) };
    boxed_wrapping_sub_mixed => { stb(0, &bx(0).wrapping_sub(bx(1))); stb(1, &bx(1).wrapping_sub(bx(0))) };
    boxed_bitand_mixed => { stb(0, &(bx(0) & bx(1))); stb(1, &(bx(1) | bx(0))) };
    boxed_ct_lt => ow(0, bx(0).ct_lt(bx(1)).unwrap_u8() as u64);
    boxed_ct_gt => ow(0, bx(0).ct_gt(bx(1)).unwrap_u8() as u64);
    boxed_cmp => ow(0, ord(Ord::cmp(bx(0), bx(1))));
    boxed_cmp_vartime => ow(0, ord(bx(0).cmp_vartime(bx(1))));
    boxed_is_zero => ow(0, bx(0).is_zero().unwrap_u8() as u64);
    boxed_ct_select => stb(0, &BoxedUint::ct_select(bx(0), bx(1), choice(2)));
    boxed_ct_assign => { bxm(0).ct_assign(bx(1), choice(2)); stb(0, bx(0)) };
    boxed_ct_swap => { BoxedUint::ct_swap(bxm(0), bxm(1), choice(2)); stb(0, bx(0)); stb(1, bx(1)) };
    boxed_adc => { let (r, c) = bx(0).adc(bx(1), Limb(word(2, 0) & 1)); stb(0, &r); stl(1, c) };
    boxed_sbb => { let (r, c) = bx(0).sbb(bx(1), Limb((word(2, 0) & 1).wrapping_neg())); stb(0, &r); stl(1, c) };
    boxed_wrapping_add => stb(0, &bx(0).wrapping_add(bx(1)));
    boxed_wrapping_sub => stb(0, &bx(0).wrapping_sub(bx(1)));
    boxed_wrapping_neg => stb(0, &bx(0).wrapping_neg());
    boxed_mul => stb(0, &bx(0).mul(bx(1)));
    boxed_wrapping_mul => stb(0, &bx(0).wrapping_mul(bx(1)));
    boxed_square => stb(0, &bx(0).square());
    boxed_shl => stb(0, &bx(0).shl(word(1, 0) as u32));
    boxed_shr => stb(0, &bx(0).shr(word(1, 0) as u32));
    boxed_overflowing_shl => { let (r, c) = bx(0).overflowing_shl(word(1, 0) as u32); stb(0, &r); ow(SLOT_WORDS * 2, c.unwrap_u8() as u64) };
    boxed_shl_vartime => { let r = bx(0).shl_vartime(p(0) as u32); stb(0, r.as_ref().unwrap()) };
    boxed_shr_vartime => { let r = bx(0).shr_vartime(p(0) as u32); stb(0, r.as_ref().unwrap()) };
    boxed_bits => ow(0, bx(0).bits() as u64);
    boxed_bits_vartime => ow(0, bx(0).bits_vartime() as u64);
    boxed_leading_zeros => ow(0, bx(0).leading_zeros() as u64);
    boxed_trailing_zeros => ow(0, bx(0).trailing_zeros() as u64);
    boxed_bit => ow(0, bx(0).bit(word(1, 0) as u32).unwrap_u8() as u64);
    boxed_div_rem => { let (q, r) = bx(0).div_rem(&bnz(1)); stb(0, &q); stb(1, &r) };
    boxed_rem => stb(0, &bx(0).rem(&bnz(1)));
    boxed_div_rem_vartime => { let (q, r) = bx(0).div_rem_vartime(&bnz(1)); stb(0, &q); stb(1, &r) };
    boxed_rem_mixed => stb(0, &crypto_bigint::RemMixed::rem_mixed(bx(0), &bnz(1)));
    boxed_div_rem_limb => { let (q, r) = bx(0).div_rem_limb(NonZero::new(limb(1)).unwrap()); stb(0, &q); stl(1, r) };
    boxed_add_mod => stb(0, &bx(0).add_mod(bx(1), bx(2)));
    boxed_sub_mod => stb(0, &bx(0).sub_mod(bx(1), bx(2)));
    boxed_neg_mod => stb(0, &bx(0).neg_mod(bx(2)));
    boxed_mul_mod => stb(0, &bx(0).mul_mod(bx(1), bx(2)));
    boxed_inv_mod2k => { let (r, c) = bx(0).inv_mod2k(word(1, 0) as u32); stb(0, &r); ow(SLOT_WORDS * 2, c.unwrap_u8() as u64) };
    boxed_inv_odd_mod => { let r = bx(0).inv_odd_mod(&Odd::new(bx(2).clone()).unwrap()); ow(0, r.is_some().unwrap_u8() as u64) };
    boxed_inv_mod => { let r = bx(0).inv_mod(bx(2)); ow(0, r.is_some().unwrap_u8() as u64) };
    boxed_sqrt => stb(0, &bx(0).sqrt());
    boxed_gcd => { use crypto_bigint::Gcd; stb(0, &bx(0).gcd(bx(1))) };
}

// -------------------------------------------------------------------------------- BoxedMontyForm

static mut BMP: Option<BoxedMontyParams> = None;
static mut BMF: [Option<BoxedMontyForm>; 2] = [None, None];

/// setup: params of the PUBLIC modulus (slot 2); operands 0/1 taken as already-Montgomery values
fn bm_setup<const N: usize>() {
    unsafe {
        let params = BoxedMontyParams::new(Odd::new(boxed(2, N)).unwrap());
        BMF[0] = Some(BoxedMontyForm::from_montgomery(boxed(0, N), params.clone()));
        BMF[1] = Some(BoxedMontyForm::from_montgomery(boxed(1, N), params.clone()));
        BX[0] = Some(boxed(0, N));
        BX[1] = Some(boxed(1, N));
        BMP = Some(params);
    }
}
#[inline(always)]
fn bmf(i: usize) -> &'static BoxedMontyForm {
    unsafe { BMF[i].as_ref().unwrap() }
}
boxed_ops! {
    bmonty_new => stb(0, BoxedMontyForm::new(bx(0).clone(), unsafe { BMP.as_ref().unwrap().clone() }).as_montgomery());
    bmonty_retrieve => stb(0, &bmf(0).retrieve());
    bmonty_mul => stb(0, bmf(0).mul(bmf(1)).as_montgomery());
    bmonty_square => stb(0, bmf(0).square().as_montgomery());
    bmonty_add => stb(0, bmf(0).add(bmf(1)).as_montgomery());
    bmonty_sub => stb(0, bmf(0).sub(bmf(1)).as_montgomery());
    bmonty_neg => stb(0, bmf(0).neg().as_montgomery());
    bmonty_pow => stb(0, bmf(0).pow(bx(1)).as_montgomery());
    bmonty_pow_bounded => stb(0, bmf(0).pow_bounded_exp(bx(1), p(0) as u32).as_montgomery());
    bmonty_invert => { let r = bmf(0).invert(); ow(0, r.is_some().unwrap_u8() as u64) };
}

/// drop every boxed value of the previous job (called before the arenas are reset)
pub fn clear() {
    unsafe {
        for b in BX.iter_mut() {
            *b = None;
        }
        BMF = [None, None];
        BMP = None;
    }
}

// -------------------------------------------------------------------------------------- registry

macro_rules! reg {
    ($v:ident, $name:literal, $f:ident, [$($w:literal),*]) => {
        $( $v.push(Entry { name: $name, width: $w, setup: nop, run: $f::<$w> }); )*
    };
    ($v:ident, $name:literal, $setup:ident => $f:ident, [$($w:literal),*]) => {
        $( $v.push(Entry { name: $name, width: $w, setup: $setup::<$w>, run: $f::<$w> }); )*
    };
}
macro_rules! reg1 {
    ($v:ident, $name:literal, $w:literal, $setup:expr, $f:expr) => {
        $v.push(Entry { name: $name, width: $w, setup: $setup, run: $f });
    };
}
macro_rules! regm {
    ($v:ident, $name:literal, $f:ident, [$($w:literal : $s:ident),*]) => {
        $( $v.push(Entry { name: $name, width: $w, setup: $s, run: $f::<$w> }); )*
    };
}
macro_rules! regb {
    ($v:ident, $name:literal, $k:literal, $f:ident, [$($w:literal),*]) => {
        $( $v.push(Entry { name: $name, width: $w, setup: bx_setup::<$k, $w>, run: $f }); )*
    };
}
macro_rules! regbm {
    ($v:ident, $name:literal, $f:ident, [$($w:literal),*]) => {
        $( $v.push(Entry { name: $name, width: $w, setup: bm_setup::<$w>, run: $f }); )*
    };
}

pub fn registry() -> Vec<Entry> {
    let mut v: Vec<Entry> = Vec::new();
    // Limb
    reg1!(v, "limb.ct_eq", 1, nop, limb_ct_eq);
    reg1!(v, "limb.ct_lt", 1, nop, limb_ct_lt);
    reg1!(v, "limb.ct_gt", 1, nop, limb_ct_gt);
    reg1!(v, "limb.cmp", 1, nop, limb_cmp);
    reg1!(v, "limb.cmp_vartime", 1, nop, limb_cmp_vartime);
    reg1!(v, "limb.ct_select", 1, nop, limb_ct_select);
    reg1!(v, "limb.adc", 1, nop, limb_adc);
    reg1!(v, "limb.sbb", 1, nop, limb_sbb);
    reg1!(v, "limb.mac", 1, nop, limb_mac);
    reg1!(v, "limb.wrapping_add", 1, nop, limb_wrapping_add);
    reg1!(v, "limb.wrapping_sub", 1, nop, limb_wrapping_sub);
    reg1!(v, "limb.wrapping_mul", 1, nop, limb_wrapping_mul);
    reg1!(v, "limb.wrapping_neg", 1, nop, limb_wrapping_neg);
    reg1!(v, "limb.saturating_add", 1, nop, limb_saturating_add);
    reg1!(v, "limb.bits", 1, nop, limb_bits);
    reg1!(v, "limb.leading_zeros", 1, nop, limb_leading_zeros);
    reg1!(v, "limb.trailing_zeros", 1, nop, limb_trailing_zeros);
    reg1!(v, "limb.trailing_ones", 1, nop, limb_trailing_ones);
    reg1!(v, "limb.shl", 1, nop, limb_shl);
    reg1!(v, "limb.shr", 1, nop, limb_shr);
    reg1!(v, "limb.is_odd", 1, nop, limb_is_odd);
    // Uint
    reg!(v, "uint.ct_eq", uint_ct_eq, [1, 2, 3, 4, 6, 8, 16, 32]);
    reg!(v, "uint.ct_lt", uint_ct_lt, [1, 2, 3, 4, 6, 8, 16, 32]);
    reg!(v, "uint.ct_gt", uint_ct_gt, [1, 2, 3, 4, 6, 8, 16, 32]);
    reg!(v, "uint.cmp", uint_cmp, [1, 2, 3, 4, 6, 8, 16, 32]);
    reg!(v, "uint.eq", uint_eq, [1, 2, 4, 8]);
    reg!(v, "uint.cmp_vartime", uint_cmp_vartime, [1, 2, 4, 8]);
    reg!(v, "uint.ct_select", uint_ct_select, [1, 2, 3, 4, 6, 8, 16, 32]);
    reg!(v, "uint.is_zero", uint_is_zero, [1, 2, 4, 8]);
    reg!(v, "uint.adc", uint_adc, [1, 2, 3, 4, 6, 8, 16, 32]);
    reg!(v, "uint.sbb", uint_sbb, [1, 2, 3, 4, 6, 8, 16, 32]);
    reg!(v, "uint.wrapping_add", uint_wrapping_add, [1, 2, 4, 8]);
    reg!(v, "uint.wrapping_sub", uint_wrapping_sub, [1, 2, 4, 8]);
    reg!(v, "uint.saturating_add", uint_saturating_add, [1, 2, 4, 8]);
    reg!(v, "uint.saturating_sub", uint_saturating_sub, [1, 2, 4, 8]);
    reg!(v, "uint.checked_add", uint_checked_add, [1, 2, 4, 8]);
    reg!(v, "uint.checked_sub", uint_checked_sub, [1, 2, 4, 8]);
    reg!(v, "uint.wrapping_neg", uint_wrapping_neg, [1, 2, 4, 8]);
    reg!(v, "uint.carrying_neg", uint_carrying_neg, [1, 2, 4, 8]);
    reg!(v, "uint.shl", uint_shl, [1, 2, 3, 4, 6, 8, 16]);
    reg!(v, "uint.shr", uint_shr, [1, 2, 3, 4, 6, 8, 16]);
    reg!(v, "uint.wrapping_shl", uint_wrapping_shl, [1, 2, 4, 8]);
    reg!(v, "uint.wrapping_shr", uint_wrapping_shr, [1, 2, 4, 8]);
    reg!(v, "uint.overflowing_shl", uint_overflowing_shl, [1, 2, 4, 8]);
    reg!(v, "uint.overflowing_shr", uint_overflowing_shr, [1, 2, 4, 8]);
    reg!(v, "uint.shl_vartime", uint_shl_vartime, [1, 2, 4, 8]);
    reg!(v, "uint.shr_vartime", uint_shr_vartime, [1, 2, 4, 8]);
    reg!(v, "uint.bits", uint_bits, [1, 2, 3, 4, 6, 8, 16]);
    reg!(v, "uint.bits_vartime", uint_bits_vartime, [1, 2, 4, 8]);
    reg!(v, "uint.checked_chain", uint_checked_chain, [1, 2, 4, 8]);
    reg!(v, "uint.bits_trait", uint_bits_trait, [1, 2, 4, 8, 16]);
    reg!(v, "uint.cmp_odd", uint_cmp_odd, [1, 2, 4, 8, 16]);
    reg!(v, "uint.leading_zeros", uint_leading_zeros, [1, 2, 4, 8]);
    reg!(v, "uint.trailing_zeros", uint_trailing_zeros, [1, 2, 4, 8]);
    reg!(v, "uint.trailing_ones", uint_trailing_ones, [1, 2, 4, 8]);
    reg!(v, "uint.bit", uint_bit, [1, 2, 4, 8]);
    reg!(v, "uint.bit_vartime", uint_bit_vartime, [1, 2, 4, 8]);
    reg!(v, "uint.split_mul", uint_split_mul, [1, 2, 3, 4, 6, 8, 16, 32]);
    reg!(v, "uint.wrapping_mul", uint_wrapping_mul, [1, 2, 4, 8, 16]);
    reg!(v, "uint.checked_mul", uint_checked_mul, [1, 2, 4, 8]);
    reg!(v, "uint.square_wide", uint_square_wide, [1, 2, 4, 8, 16]);
    reg!(v, "uint.div_rem", uint_div_rem, [1, 2, 3, 4, 6, 8, 16]);
    reg!(v, "uint.rem", uint_rem, [1, 2, 3, 4, 6, 8, 16]);
    reg!(v, "uint.wrapping_div", uint_wrapping_div, [1, 2, 4, 8]);
    reg!(v, "uint.checked_div", uint_checked_div, [1, 2, 4, 8]);
    reg!(v, "uint.div_rem_limb", uint_div_rem_limb, [1, 2, 4, 8]);
    reg!(v, "uint.rem_limb", uint_rem_limb, [1, 2, 4, 8]);
    reg!(v, "uint.mul_mod_trait", uint_mul_mod_trait, [1, 2, 4, 8]);
    reg!(v, "uint.div_rem_vartime", uint_div_rem_vartime, [1, 2, 4, 8]);
    reg!(v, "uint.rem_vartime", uint_rem_vartime, [1, 2, 4, 8]);
    reg!(v, "uint.add_mod", uint_add_mod, [1, 2, 3, 4, 6, 8, 16]);
    reg!(v, "uint.sub_mod", uint_sub_mod, [1, 2, 3, 4, 6, 8, 16]);
    reg!(v, "uint.neg_mod", uint_neg_mod, [1, 2, 3, 4, 6, 8, 16]);
    reg!(v, "uint.double_mod", uint_double_mod, [1, 2, 4, 8]);
    reg!(v, "uint.add_mod_special", uint_add_mod_special, [1, 2, 4, 8]);
    reg!(v, "uint.sub_mod_special", uint_sub_mod_special, [1, 2, 4, 8]);
    reg!(v, "uint.mul_mod_special", uint_mul_mod_special, [1, 2, 4, 8]);
    reg!(v, "uint.inv_mod2k", uint_inv_mod2k, [1, 2, 4, 8]);
    reg!(v, "uint.inv_mod2k_vartime", uint_inv_mod2k_vartime, [1, 2, 4, 8]);
    reg!(v, "uint.sqrt", uint_sqrt, [1, 2, 4, 8]);
    reg!(v, "uint.sqrt_vartime", uint_sqrt_vartime, [1, 2, 4]);
    reg!(v, "uint.checked_sqrt", uint_checked_sqrt, [1, 2, 4, 8]);
    reg1!(v, "uint.mul_mod", 1, nop, uint_mul_mod_1);
    reg1!(v, "uint.mul_mod", 2, nop, uint_mul_mod_2);
    reg1!(v, "uint.mul_mod", 4, nop, uint_mul_mod_4);
    reg1!(v, "uint.mul_mod", 8, nop, uint_mul_mod_8);
    reg1!(v, "uint.mul_mod", 16, nop, uint_mul_mod_16);
    reg1!(v, "uint.inv_odd_mod", 1, nop, uint_inv_odd_mod_1);
    reg1!(v, "uint.inv_odd_mod", 2, nop, uint_inv_odd_mod_2);
    reg1!(v, "uint.inv_odd_mod", 4, nop, uint_inv_odd_mod_4);
    reg1!(v, "uint.inv_odd_mod", 8, nop, uint_inv_odd_mod_8);
    reg1!(v, "uint.inv_mod", 1, nop, uint_inv_mod_1);
    reg1!(v, "uint.inv_mod", 2, nop, uint_inv_mod_2);
    reg1!(v, "uint.inv_mod", 4, nop, uint_inv_mod_4);
    reg1!(v, "uint.inv_mod", 8, nop, uint_inv_mod_8);
    reg1!(v, "uint.gcd", 1, nop, uint_gcd_1);
    reg1!(v, "uint.gcd", 2, nop, uint_gcd_2);
    reg1!(v, "uint.gcd", 4, nop, uint_gcd_4);
    reg1!(v, "uint.gcd", 8, nop, uint_gcd_8);
    reg1!(v, "monty.params_new", 1, nop, monty_params_new_1);
    reg1!(v, "monty.params_new", 2, nop, monty_params_new_2);
    reg1!(v, "monty.params_new", 4, nop, monty_params_new_4);
    reg1!(v, "monty.params_new", 8, nop, monty_params_new_8);
    // MontyForm (modulus public: params built in setup)
    regm!(v, "monty.new", monty_new, [1: mp_setup_1, 2: mp_setup_2, 4: mp_setup_4, 8: mp_setup_8, 16: mp_setup_16]);
    regm!(v, "monty.retrieve", monty_retrieve, [1: mp_setup_1, 2: mp_setup_2, 4: mp_setup_4, 8: mp_setup_8, 16: mp_setup_16]);
    regm!(v, "monty.mul", monty_mul, [1: mp_setup_1, 2: mp_setup_2, 4: mp_setup_4, 8: mp_setup_8, 16: mp_setup_16]);
    regm!(v, "monty.square", monty_square, [1: mp_setup_1, 2: mp_setup_2, 4: mp_setup_4, 8: mp_setup_8, 16: mp_setup_16]);
    regm!(v, "monty.add", monty_add, [1: mp_setup_1, 2: mp_setup_2, 4: mp_setup_4, 8: mp_setup_8]);
    regm!(v, "monty.sub", monty_sub, [1: mp_setup_1, 2: mp_setup_2, 4: mp_setup_4, 8: mp_setup_8]);
    regm!(v, "monty.neg", monty_neg, [1: mp_setup_1, 2: mp_setup_2, 4: mp_setup_4, 8: mp_setup_8]);
    regm!(v, "monty.double", monty_double, [1: mp_setup_1, 2: mp_setup_2, 4: mp_setup_4, 8: mp_setup_8]);
    regm!(v, "monty.div_by_2", monty_div_by_2, [1: mp_setup_1, 2: mp_setup_2, 4: mp_setup_4, 8: mp_setup_8]);
    regm!(v, "monty.pow", monty_pow, [1: mp_setup_1, 2: mp_setup_2, 4: mp_setup_4, 8: mp_setup_8]);
    regm!(v, "monty.pow_bounded", monty_pow_bounded, [1: mp_setup_1, 2: mp_setup_2, 4: mp_setup_4, 8: mp_setup_8, 16: mp_setup_16]);
    reg1!(v, "monty.inv", 1, mp_setup_1, monty_inv_1);
    reg1!(v, "monty.inv", 2, mp_setup_2, monty_inv_2);
    reg1!(v, "monty.inv", 4, mp_setup_4, monty_inv_4);
    reg1!(v, "monty.inv", 8, mp_setup_8, monty_inv_8);
    // ConstMontyForm over the P-256 field prime
    reg1!(v, "cmonty.new", 4, nop, cmonty_new);
    reg1!(v, "cmonty.retrieve", 4, nop, cmonty_retrieve);
    reg1!(v, "cmonty.mul", 4, nop, cmonty_mul);
    reg1!(v, "cmonty.square", 4, nop, cmonty_square);
    reg1!(v, "cmonty.add", 4, nop, cmonty_add);
    reg1!(v, "cmonty.sub", 4, nop, cmonty_sub);
    reg1!(v, "cmonty.neg", 4, nop, cmonty_neg);
    reg1!(v, "cmonty.pow", 4, nop, cmonty_pow);
    reg1!(v, "cmonty.inv", 4, nop, cmonty_inv);
    // Int
    reg!(v, "int.ct_eq", int_ct_eq, [1, 2, 4, 8]);
    reg!(v, "int.ct_lt", int_ct_lt, [1, 2, 4, 8]);
    reg!(v, "int.ct_gt", int_ct_gt, [1, 2, 4, 8]);
    reg!(v, "int.cmp", int_cmp, [1, 2, 4, 8]);
    reg!(v, "int.ct_select", int_ct_select, [1, 2, 4, 8]);
    reg!(v, "int.wrapping_add", int_wrapping_add, [1, 2, 4, 8]);
    reg!(v, "int.wrapping_sub", int_wrapping_sub, [1, 2, 4, 8]);
    reg!(v, "int.checked_add", int_checked_add, [1, 2, 4, 8]);
    reg!(v, "int.checked_sub", int_checked_sub, [1, 2, 4, 8]);
    reg!(v, "int.wrapping_neg", int_wrapping_neg, [1, 2, 4, 8]);
    reg!(v, "int.checked_neg", int_checked_neg, [1, 2, 4, 8]);
    reg!(v, "int.abs_sign", int_abs_sign, [1, 2, 4, 8]);
    reg!(v, "int.is_negative", int_is_negative, [1, 2, 4, 8]);
    reg!(v, "int.split_mul", int_split_mul, [1, 2, 4, 8]);
    reg!(v, "int.checked_mul", int_checked_mul, [1, 2, 4, 8]);
    reg!(v, "int.checked_div_rem", int_checked_div_rem, [1, 2, 4, 8]);
    reg!(v, "int.rem", int_rem, [1, 2, 4, 8]);
    reg!(v, "int.checked_div_rem_floor", int_checked_div_rem_floor, [1, 2, 4, 8]);
    reg!(v, "int.div_rem_uint", int_div_rem_uint, [1, 2, 4, 8]);
    reg!(v, "int.shr", int_shr, [1, 2, 4, 8]);
    reg!(v, "int.shl", int_shl, [1, 2, 4, 8]);
    reg!(v, "int.shr_vartime", int_shr_vartime, [1, 2, 4, 8]);
    // BoxedUint (width = limb count at run time; the wrapper is the same code for every width)
    regb!(v, "boxed.ct_eq", 2, boxed_ct_eq, [1, 2, 4, 8, 16, 33]);
    macro_rules! regbx {
        ($name:literal, $f:ident, [$($w:literal),*]) => { $( v.push(Entry { name: $name, width: $w, setup: bx_setup_mixed::<$w>, run: $f }); )* };
    }
    regbx!("boxed.ct_eq_mixed", boxed_ct_eq_mixed, [1, 2, 4, 8]);
    regbx!("boxed.ct_lt_mixed", boxed_ct_lt_mixed, [1, 2, 4, 8]);
    regbx!("boxed.cmp_mixed", boxed_cmp_mixed, [1, 2, 4]);
    regbx!("boxed.wrapping_add_mixed", boxed_wrapping_add_mixed, [1, 2, 4, 8]);
    regbx!("boxed.wrapping_sub_mixed", boxed_wrapping_sub_mixed, [1, 2, 4]);
    regbx!("boxed.bitand_mixed", boxed_bitand_mixed, [1, 2, 4]);
    regb!(v, "boxed.ct_lt", 2, boxed_ct_lt, [1, 2, 4, 8, 16, 33]);
    regb!(v, "boxed.ct_gt", 2, boxed_ct_gt, [1, 2, 4, 8, 16, 33]);
    regb!(v, "boxed.cmp", 2, boxed_cmp, [1, 2, 4, 8, 16, 33]);
    regb!(v, "boxed.cmp_vartime", 2, boxed_cmp_vartime, [1, 2, 4, 8]);
    regb!(v, "boxed.is_zero", 1, boxed_is_zero, [1, 2, 4, 8, 16, 33]);
    regb!(v, "boxed.ct_select", 2, boxed_ct_select, [1, 2, 4, 8, 16, 33]);
    regb!(v, "boxed.ct_assign", 2, boxed_ct_assign, [1, 2, 4, 8, 16, 33]);
    regb!(v, "boxed.ct_swap", 2, boxed_ct_swap, [1, 2, 4, 8, 16, 33]);
    regb!(v, "boxed.adc", 2, boxed_adc, [1, 2, 4, 8, 16, 33]);
    regb!(v, "boxed.sbb", 2, boxed_sbb, [1, 2, 4, 8, 16, 33]);
    regb!(v, "boxed.wrapping_add", 2, boxed_wrapping_add, [1, 2, 4, 8]);
    regb!(v, "boxed.wrapping_sub", 2, boxed_wrapping_sub, [1, 2, 4, 8]);
    regb!(v, "boxed.wrapping_neg", 1, boxed_wrapping_neg, [1, 2, 4, 8]);
    regb!(v, "boxed.mul", 2, boxed_mul, [1, 2, 4, 8, 16, 33]);
    regb!(v, "boxed.wrapping_mul", 2, boxed_wrapping_mul, [1, 2, 4, 8]);
    regb!(v, "boxed.square", 1, boxed_square, [1, 2, 4, 8, 16, 33]);
    regb!(v, "boxed.shl", 1, boxed_shl, [1, 2, 4, 8, 16]);
    regb!(v, "boxed.shr", 1, boxed_shr, [1, 2, 4, 8, 16]);
    regb!(v, "boxed.overflowing_shl", 1, boxed_overflowing_shl, [1, 2, 4, 8]);
    regb!(v, "boxed.shl_vartime", 1, boxed_shl_vartime, [1, 2, 4, 8]);
    regb!(v, "boxed.shr_vartime", 1, boxed_shr_vartime, [1, 2, 4, 8]);
    regb!(v, "boxed.bits", 1, boxed_bits, [1, 2, 4, 8, 16]);
    regb!(v, "boxed.bits_vartime", 1, boxed_bits_vartime, [1, 2, 4, 8]);
    regb!(v, "boxed.leading_zeros", 1, boxed_leading_zeros, [1, 2, 4, 8]);
    regb!(v, "boxed.trailing_zeros", 1, boxed_trailing_zeros, [1, 2, 4, 8]);
    regb!(v, "boxed.bit", 1, boxed_bit, [1, 2, 4, 8]);
    regb!(v, "boxed.div_rem", 2, boxed_div_rem, [1, 2, 4, 8, 16]);
    regb!(v, "boxed.rem", 2, boxed_rem, [1, 2, 4, 8, 16]);
    regb!(v, "boxed.div_rem_vartime", 2, boxed_div_rem_vartime, [1, 2, 4, 8]);
    regb!(v, "boxed.rem_mixed", 2, boxed_rem_mixed, [1, 2, 4]);
    regb!(v, "boxed.div_rem_limb", 1, boxed_div_rem_limb, [1, 2, 4, 8]);
    regb!(v, "boxed.add_mod", 3, boxed_add_mod, [1, 2, 4, 8]);
    regb!(v, "boxed.sub_mod", 3, boxed_sub_mod, [1, 2, 4, 8]);
    regb!(v, "boxed.neg_mod", 3, boxed_neg_mod, [1, 2, 4, 8]);
    regb!(v, "boxed.mul_mod", 3, boxed_mul_mod, [1, 2, 4, 8]);
    regb!(v, "boxed.inv_mod2k", 1, boxed_inv_mod2k, [1, 2, 4]);
    regb!(v, "boxed.inv_odd_mod", 3, boxed_inv_odd_mod, [1, 2, 4, 8]);
    regb!(v, "boxed.inv_mod", 3, boxed_inv_mod, [1, 2, 4, 8]);
    regb!(v, "boxed.sqrt", 1, boxed_sqrt, [1, 2, 4, 8]);
    regb!(v, "boxed.gcd", 2, boxed_gcd, [1, 2, 4, 8]);
    // BoxedMontyForm
    regbm!(v, "bmonty.new", bmonty_new, [1, 2, 4, 8, 16]);
    regbm!(v, "bmonty.retrieve", bmonty_retrieve, [1, 2, 4, 8, 16]);
    regbm!(v, "bmonty.mul", bmonty_mul, [1, 2, 4, 8, 16]);
    regbm!(v, "bmonty.square", bmonty_square, [1, 2, 4, 8, 16]);
    regbm!(v, "bmonty.add", bmonty_add, [1, 2, 4, 8]);
    regbm!(v, "bmonty.sub", bmonty_sub, [1, 2, 4, 8]);
    regbm!(v, "bmonty.neg", bmonty_neg, [1, 2, 4, 8]);
    regbm!(v, "bmonty.pow", bmonty_pow, [1, 2, 4]);
    regbm!(v, "bmonty.pow_bounded", bmonty_pow_bounded, [1, 2, 4, 8, 16]);
    regbm!(v, "bmonty.invert", bmonty_invert, [1, 2, 4, 8]);
    v
}
