//! Fixed static operand / output slots. All reads and writes are volatile so that the optimizer can
//! neither constant-fold an operation nor drop a result.
use crypto_bigint::{BoxedUint, Int, Limb, Uint};

pub const SLOT_WORDS: usize = 160;
pub static mut S: [[u64; SLOT_WORDS]; 6] = [[0; SLOT_WORDS]; 6];
pub static mut P: [u64; 6] = [0; 6];
pub static mut OUT: [u64; 4 * 2 * SLOT_WORDS] = [0; 4 * 2 * SLOT_WORDS];
/// raw storage for per-job public pre-computation of fixed-width types (MontyParams<N>, …)
#[repr(align(64))]
pub struct Raw(pub [u64; 4096]);
pub static mut PRE: Raw = Raw([0; 4096]);
/// boxed operands and boxed public pre-computation
pub static mut BX: [Option<BoxedUint>; 6] = [None, None, None, None, None, None];

#[inline(always)]
pub fn word(i: usize, j: usize) -> u64 {
    unsafe { core::ptr::read_volatile(&raw const S[i][j]) }
}
#[inline(always)]
pub fn limb(i: usize) -> Limb {
    Limb(word(i, 0))
}
#[inline(always)]
pub fn ld<const N: usize>(i: usize) -> Uint<N> {
    let mut w = [0u64; N];
    let mut j = 0;
    while j < N {
        w[j] = word(i, j);
        j += 1;
    }
    Uint::from_words(w)
}
#[inline(always)]
pub fn ldi<const N: usize>(i: usize) -> Int<N> {
    ld::<N>(i).as_int()
}
#[inline(always)]
pub fn p(i: usize) -> u64 {
    unsafe { core::ptr::read_volatile(&raw const P[i]) }
}
#[inline(always)]
pub fn ow(k: usize, v: u64) {
    unsafe { core::ptr::write_volatile(&raw mut OUT[k], v) }
}
/// store a Uint at output position `i` (positions are 2*SLOT_WORDS apart)
#[inline(always)]
pub fn st<const N: usize>(i: usize, v: &Uint<N>) {
    let w = v.as_words();
    let mut j = 0;
    while j < N {
        ow(i * 2 * SLOT_WORDS + j, w[j]);
        j += 1;
    }
}
#[inline(always)]
pub fn stl(i: usize, v: Limb) {
    ow(i * 2 * SLOT_WORDS, v.0)
}
/// store a boxed value (its limb count is public)
#[inline(always)]
pub fn stb(i: usize, v: &BoxedUint) {
    let w = v.as_words();
    let mut j = 0;
    while j < w.len() {
        ow(i * 2 * SLOT_WORDS + j, w[j]);
        j += 1;
    }
}
/// boxed operand `i` with `n` limbs, built from the slot (used in setup, outside the markers)
pub fn boxed(i: usize, n: usize) -> BoxedUint {
    BoxedUint::from_words((0..n).map(|j| word(i, j)))
}
