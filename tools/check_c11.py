#!/usr/bin/env python3
"""
check_c11.py — the check of property C11 (totality: panics, overflow traps and assertion failures
only where documented).  `./check C11 [--tier quick|thorough] [--replay FILE]` dispatches here.

What it does (DESIGN.md §6 C11):
  1. proof obligations: `lake build CB.Props.C11 cbmodel` + `#print axioms` audit of every theorem of
     CB/Props/C11.lean (tools/runner.py: proof_obligations) — the Except-valued checked twins and the
     panic table are proved there;
  2. builds the harness against /repo's working tree in the two profiles of the property
     (`release` = opt-level 3, no debug assertions; `dbgchk` = opt-level 1, debug assertions +
     overflow checks);
  3. operation lines: corpus/C11.txt, the `c11.*` lines of tools/gen/c11.py (out-of-domain probes of the
     option/result-returning APIs, zero-limb boxed values, mixed precisions, ...), and the op lines of
     EVERY other property's generator (tools/gen/cXX.py + corpus/CXX.txt; quick: deterministic
     stratified subsample per op name; thorough: all lines);
  4. every line runs under catch_unwind in both harness profiles, with a watchdog (a chunk that does
     not finish is bisected down to the line that hangs = "loops forever"), and in the Lean model driver;
  5. C11 compares ONLY the panic class: the documented expectation of a line is the model's L0 column
     when present, else its L1 column (profile-specific `a ## b` honoured, alternatives `x || y`
     honoured).  A line where a profile panics (or aborts, or hangs) while the expectation is not
     `panic`, or does not panic while the expectation is `panic`, is a C11 violation unless a known
     finding with C11 in its properties matches exactly that line/outcome.  For `c11.*` lines the two
     profiles must also print the same output unless the model says otherwise.
  6. evidence/C11.json, KNOWN-FINDING / VIOLATION lines, exit 0 / 1 (3 = machinery broken).
"""
import argparse, concurrent.futures as cf, glob, importlib, json, os, random, re, subprocess, sys, time

VERIF = os.path.dirname(os.path.dirname(os.path.abspath(__file__)))
sys.path.insert(0, os.path.join(VERIF, 'tools'))
import runner as R            # noqa: E402  (proof_obligations, build_harness, impl_cmd, model_cmd, PROFILES, ENV, log)
import c11_classifiers as C11F  # noqa: E402

PID = 'C11'
MACH = ('unknown-op', 'bad-args', 'unsupported-width', 'model-unavailable', 'empty', 'crash-model', 'timeout-model')
# the properties whose operations C11 quantifies over ("C02-C10 and C13-C20"; C12/C16 lines are run as
# well: they exercise constructors/decoders with documented panics)
FOREIGN = ['C02', 'C03', 'C04', 'C05', 'C06', 'C07', 'C08', 'C09', 'C10', 'C12', 'C13', 'C14', 'C15', 'C16',
           'C17', 'C18', 'C19', 'C20']
# quick tier: cap of lines per foreign property (stratified by op name); the model driver is the
# bottleneck (harness ≈ 10^5 lines/s, model 3·10^2 – 5·10^4 lines/s depending on the property)
QUICK_CAP = {'C02': 4000, 'C03': 4000, 'C09': 800, 'C10': 800, 'C08': 1500, 'C17': 6000}
QUICK_CAP_DEFAULT = 10000
# thorough tier: every line of the other properties' thorough generators (~10^7 lines); VERIF_C11_CAP=<n>
# caps each foreign property at n lines (stratified) for a faster deep run
CHUNK = 1500              # lines per subprocess
CHUNK_TIMEOUT = 60.0      # watchdog per chunk (seconds); a single line gets LINE_TIMEOUT
LINE_TIMEOUT = 20.0


# ------------------------------------------------------------------ robust execution with watchdog

def _run_once(cmd, lines, timeout):
    try:
        p = subprocess.run(cmd, input='\n'.join(lines) + '\n', stdout=subprocess.PIPE, stderr=subprocess.DEVNULL,
                           text=True, env=R.ENV, timeout=timeout)
    except subprocess.TimeoutExpired:
        return None, 'timeout'
    got = p.stdout.split('\n')
    if got and got[-1] == '':
        got.pop()
    if p.returncode == 0 and len(got) >= len(lines):
        return got[:len(lines)], None
    return None, 'crash'


def run_robust(cmd, lines, timeout=CHUNK_TIMEOUT):
    """outputs for `lines`; a line on which the process dies yields `crash`, one on which it does not
    return within the watchdog yields `timeout`.  The harness buffers its output, so the output of a
    killed process cannot be trusted to locate the line: a failed chunk is split 16 ways (each piece
    gets LINE_TIMEOUT) until the failing lines stand alone."""
    got, why = _run_once(cmd, lines, timeout)
    if got is not None:
        return got
    if len(lines) == 1:
        return [why]
    size = max(1, (len(lines) + 15) // 16)
    out = []
    for k in range(0, len(lines), size):
        out += run_robust(cmd, lines[k:k + size], LINE_TIMEOUT)
    return out


def run_all(cmd, lines, jobs):
    if not lines:
        return []
    chunks = [lines[k:k + CHUNK] for k in range(0, len(lines), CHUNK)]
    with cf.ThreadPoolExecutor(max_workers=jobs) as ex:
        res = list(ex.map(lambda c: run_robust(cmd, c), chunks))
    return [x for r in res for x in r]


# ------------------------------------------------------------------ line collection

def corpus_lines(pid):
    p = os.path.join(VERIF, 'corpus', pid + '.txt')
    if not os.path.exists(p):
        return []
    return [l.strip() for l in open(p) if l.strip() and not l.startswith('#')]


def stratified(lines, cap):
    """deterministic subsample: per op name the first 24 lines (directed families come first) and an
    even stride over the rest, so that the total stays near `cap` and every op keeps its share."""
    if len(lines) <= cap:
        return lines
    byop = {}
    for i, l in enumerate(lines):
        byop.setdefault(l.split()[0], []).append(i)
    share = max(32, cap // max(1, len(byop)))
    keep = set()
    for op, idx in byop.items():
        if len(idx) <= share:
            keep.update(idx)
            continue
        head = idx[:24]
        rest = idx[24:]
        k = share - len(head)
        step = len(rest) / k
        keep.update(head)
        keep.update(rest[int(j * step)] for j in range(k))
    return [l for i, l in enumerate(lines) if i in keep]


def foreign_lines(pid, tier, seed, notes):
    """(lines, generated_total) of another property's generator; failures are noted, never fatal"""
    try:
        gmod = importlib.import_module('gen.' + pid.lower())
    except Exception as e:               # generator not delivered yet / does not import
        notes.append(f'{pid}: generator not importable ({type(e).__name__}: {e}); its lines are not exercised in this run')
        return [], 0
    try:
        gen = list(gmod.gen(tier, random.Random(seed)))
    except Exception as e:
        notes.append(f'{pid}: generator failed ({type(e).__name__}: {e}); its lines are not exercised in this run')
        return [], 0
    cor = corpus_lines(pid)
    total = len(cor) + len(gen)
    if tier == 'quick':
        gen = stratified(gen, QUICK_CAP.get(pid, QUICK_CAP_DEFAULT))
    elif os.environ.get('VERIF_C11_CAP'):
        gen = stratified(gen, int(os.environ['VERIF_C11_CAP']))
    seen = set()
    out = []
    for l in cor + gen:
        if l not in seen:
            seen.add(l)
            out.append(l)
    return out, total


# ------------------------------------------------------------------ expectation / panic class

def expectation(model_out, profile):
    """-> (want_alternatives, l1_for_profile, l0 or None)"""
    l1, l0 = model_out, None
    if ' ;; ' in model_out:
        l1, l0 = model_out.split(' ;; ', 1)
    if ' ## ' in l1:
        l1 = l1.split(' ## ')[0 if profile == 'release' else 1]
    want = l0 if l0 is not None else l1
    if ' ## ' in want:
        want = want.split(' ## ')[0 if profile == 'release' else 1]
    return want.split(' || '), l1, l0


def klass(o):
    return o if o in ('panic', 'crash', 'timeout') else 'value'


def load_findings():
    """known_findings.json entries with C11 in `properties`, plus the proposed entries of
    notes/C11-known_findings-entries.json that the integrator has not merged yet (same ids win from
    known_findings.json).  Nothing is ever written here at run time."""
    fs = []
    p = os.path.join(VERIF, 'known_findings.json')
    if os.path.exists(p):
        fs += json.load(open(p)).get('findings', [])
    have = {f['id'] for f in fs}
    q = os.path.join(VERIF, 'notes', 'C11-known_findings-entries.json')
    if os.path.exists(q):
        fs += [f for f in json.load(open(q)) if f['id'] not in have]
    return [f for f in fs if PID in f.get('properties', [f.get('property')])]


def classify(findings, line, impl, profile, want, model_out):
    import findings as F
    for f in findings:
        fn = getattr(C11F, f['classifier'], None) or getattr(F, f['classifier'], None)
        if fn is None:
            continue
        try:
            if fn is getattr(C11F, f['classifier'], None):
                ok = fn(f, line, impl, profile, want, model_out)
            else:                               # a shared classifier: (f, line, impl, spec-or-model)
                ok = fn(f, line, impl, ' || '.join(want))
        except Exception:
            ok = False
        if ok:
            return f
    return None


# ------------------------------------------------------------------ main

def main():
    ap = argparse.ArgumentParser()
    ap.add_argument('pid')
    ap.add_argument('--tier', default=os.environ.get('VERIF_TIER', 'quick'))
    ap.add_argument('--replay')
    ap.add_argument('--level', default='proof')
    args = ap.parse_args()
    tier = args.tier if args.tier in ('quick', 'thorough') else 'quick'
    seed = int(os.environ.get('VERIF_SEED', '20260929'))
    t0 = time.time()
    notes = []

    R.log(f'{PID} tier={tier} seed={seed}: proof obligations')
    po = R.proof_obligations(PID)
    R.log(f"obligations {po['discharged']}/{po['obligations']} build_ok={po['build_ok']}")
    model_bin_ok = os.path.exists(R.model_cmd()[0])
    if not po['build_ok']:
        with R.Lock('lake'):
            rc, out = R.sh(['lake', 'build', 'cbmodel'], R.LEAN)
        model_bin_ok = rc == 0
        if not model_bin_ok:
            R.log('model driver does not build:\n' + out[-3000:])

    R.log('building harness (2 profiles) against ' + R.REPO)
    nohooks = False
    ok, out = R.build_harness()
    if not ok:
        cfail = R.const_eval_failure(out)
        if cfail:
            # the crate's own code panics (debug assertion / overflow check / index / expect) while the compiler evaluates it on
            # one of the harness' valid constants: a panic inside the documented domain, with that constant as the input
            os.makedirs(os.path.join(R.VERIF, 'replays'), exist_ok=True)
            rpath = os.path.join(R.VERIF, 'replays', f'{PID}-{tier}-{seed}-consteval.json')
            json.dump(dict(property=PID, violation=True, kind='const evaluation of crate code panics on a valid constant input',
                           **cfail, replay_cmd='cd harness && cargo build --offline --release && cargo build --offline --profile dbgchk'),
                      open(rpath, 'w'), indent=1)
            print(f'VIOLATION property={PID} replay={rpath}')
            sys.exit(1)
        # the crate may no longer compile WITH the hook forwarders although it compiles as its users build it: run without hooks
        if R.build_harness_nohooks():
            nohooks = True
            R.log('harness does not build with the hook forwarders; running WITHOUT hooks (public operations only)')
        else:
            print(f'ERROR harness does not build against the current tree\n{out}')
            sys.exit(2)

    # ---- operation lines: (line, owner property)
    lines, owner = [], []
    per_prop = {}
    if args.replay:
        rp = json.load(open(args.replay))
        rl = ([rp['line']] + [o['line'] for o in rp.get('others', [])]) if 'line' in rp else []
        if not rl:
            print('replay file names no operation line:', json.dumps(rp)[:500])
            sys.exit(1 if rp.get('violation') else 0)
        for l in rl:
            lines.append(l)
            owner.append('C' + l[1:3])
    else:
        import gen.c11 as g11
        own = corpus_lines(PID) + list(g11.gen(tier, random.Random(seed)))
        seen = set()
        for l in own:
            if l not in seen:
                seen.add(l); lines.append(l); owner.append(PID if l.startswith('c11.') else 'C' + l[1:3])
        per_prop[PID] = dict(generated=len(own), run=len(seen))
        for fp in FOREIGN:
            fl, total = foreign_lines(fp, tier, seed, notes)
            n = 0
            for l in fl:
                if l not in seen:
                    seen.add(l); lines.append(l); owner.append(fp); n += 1
            per_prop[fp] = dict(generated=total, run=n)
    if nohooks:
        keep = [i for i, l in enumerate(lines) if '.hook.' not in l.split()[0]]
        lines, owner = [lines[i] for i in keep], [owner[i] for i in keep]
    R.log(f'{len(lines)} operation lines (' + ', '.join(k + ':' + str(v['run']) for k, v in per_prop.items()) + ')')

    impl = {}
    for name, _, d in R.PROFILES:
        impl[name] = run_all(R.impl_cmd(d), lines, 8)
    R.log(f'harness done ({round(time.time() - t0, 1)} s)')
    if model_bin_ok:
        model = run_all(R.model_cmd(), lines, 16)
        model = [('crash-model' if m == 'crash' else 'timeout-model' if m == 'timeout' else m) for m in model]
    else:
        model = ['model-unavailable'] * len(lines)
    R.log(f'model done ({round(time.time() - t0, 1)} s)')

    # ---- machinery: a c11.* line that harness or model cannot execute breaks the check; a foreign line
    # that either side cannot execute is skipped with a note (its property's machinery is still being
    # delivered) — but a panic / abort / hang on such a line is never passed silently.
    findings = load_findings()
    known_hits, viol, unjudged, skipped = {}, [], [], {}
    profdiff = 0
    expected_panics = 0
    judged = 0
    mach_own = []
    hist = {}
    for i, line in enumerate(lines):
        m = model[i]
        own_line = owner[i] == PID
        outs = {name: impl[name][i] for name, _, _ in R.PROFILES}
        l1tok = m.split(' ;; ')[0]
        mach = l1tok in MACH or any(o in MACH for o in outs.values())
        if mach:
            if own_line:
                mach_own.append((line, outs, m))
                continue
            skipped[owner[i]] = skipped.get(owner[i], 0) + 1
            bad = {p: o for p, o in outs.items() if klass(o) != 'value'}
            if bad:
                unjudged.append(dict(line=line, impl=outs, model=m))
            continue
        judged += 1
        line_bad = False
        for name, _, _ in R.PROFILES:
            o = outs[name]
            want, l1, l0 = expectation(m, name)
            k = klass(o)
            allow_panic = 'panic' in want
            must_panic = all(w == 'panic' for w in want)
            if k == 'panic' and allow_panic:
                expected_panics += 1
                verdict = None
            elif k == 'value' and not must_panic:
                verdict = None
                # a c11 line whose checked twin returns a VALUE is compared exactly (ties the twin to the code)
                if own_line and l1 not in ('ok', 'panic') and o != l1:
                    verdict = 'value differs from the checked twin'
            elif k == 'value':
                verdict = 'documented panic did not happen'
            elif k == 'panic':
                verdict = 'undocumented panic'
            else:
                verdict = 'process abort' if k == 'crash' else 'does not terminate (watchdog)'
            hk = f'{owner[i]}:{k}' + ('' if verdict is None else ':DEVIATION')
            hist[hk] = hist.get(hk, 0) + 1
            if verdict is None:
                continue
            line_bad = True
            rec = dict(line=line, impl=o, profile=name, model=l1, verdict=verdict, owner=owner[i])
            if l0 is not None:
                rec['spec'] = l0
                rec['model_mirrors_impl'] = (klass(l1) == k)
            f = classify(findings, line, o, name, want, m)
            if f:
                known_hits.setdefault(f['id'], []).append(rec)
            else:
                viol.append(rec)
        # the two builds agree on panic-ness unless the model says so: each profile was just compared with
        # ITS expectation, so a disagreement the model does not announce (`a ## b`, or alternatives
        # `x || panic`) has already been recorded above for at least one profile
        ka, kb = klass(outs['release']), klass(outs['dbgchk'])
        if ka != kb:
            profdiff += 1
        if line_bad:
            pass
        elif own_line and outs['release'] != outs['dbgchk'] and ' ## ' not in m:
            rec = dict(line=line, impl=f"{outs['release']} ## {outs['dbgchk']}", profile='both', model=m,
                       verdict='profiles print different results', owner=owner[i])
            f = classify(findings, line, rec['impl'], 'both', expectation(m, 'release')[0], m)
            if f:
                known_hits.setdefault(f['id'], []).append(rec)
            else:
                viol.append(rec)

    if mach_own and model_bin_ok:
        print(f'ERROR machinery: {len(mach_own)} c11 line(s) not executable by harness or model, e.g. {mach_own[:3]}')
        sys.exit(3)
    for p, n in sorted(skipped.items()):
        notes.append(f'{p}: {n} line(s) skipped (harness or model driver answered unknown-op / bad-args / unsupported-width: that property\'s machinery is not fully delivered)')
    if unjudged:
        notes.append(f'{len(unjudged)} skipped line(s) panicked/aborted/hung in a harness profile with no model expectation available: listed under coverage.unjudged_panics')
        for u in unjudged[:10]:
            R.log(f"NOTE unjudged (no model expectation): `{u['line']}` -> {u['impl']}")

    if os.environ.get('C11_DUMP'):      # developer aid: every unclassified deviation and every known-finding hit
        json.dump(dict(violations=viol, known=known_hits), open(os.environ['C11_DUMP'], 'w'), indent=1)

    # ---- verdict
    rc = 0
    os.makedirs(os.path.join(VERIF, 'replays'), exist_ok=True)
    msgs = []
    if viol:
        viol.sort(key=lambda v: (len(v['line']), v['line']))
        rpath = os.path.join(VERIF, 'replays', f'{PID}-{tier}-{seed}.json')
        json.dump(dict(property=PID, violation=True, kind='panic class of the real crate differs from the documented panic table',
                       line=viol[0]['line'], impl=viol[0]['impl'], model=viol[0]['model'], profile=viol[0]['profile'],
                       verdict=viol[0]['verdict'], others=viol[1:25], total=len(viol), seed=seed, tier=tier,
                       broken_obligations=po['failed'], replay_cmd=f'./check {PID} --replay {rpath}'), open(rpath, 'w'), indent=1)
        msgs.append(f'VIOLATION property={PID} replay={rpath}')
        rc = 1
    elif po['failed'] or not po['build_ok'] or not model_bin_ok:
        rpath = os.path.join(VERIF, 'replays', f'{PID}-{tier}-{seed}-unproved.json')
        json.dump(dict(property=PID, violation=True, kind='no-failing-input-found',
                       what=['proof obligations no longer check: ' + ', '.join(po['failed'] or ['CB.Props.' + PID])],
                       lean_log=po['log'][-3000:], seed=seed, tier=tier, searched_lines=len(lines)), open(rpath, 'w'), indent=1)
        msgs.append(f'VIOLATION property={PID} replay={rpath} no-failing-input-found')
        rc = 1
    for fid, hits in sorted(known_hits.items()):
        f = next(x for x in findings if x['id'] == fid)
        profs = sorted({h['profile'] for h in hits})
        print(f"KNOWN-FINDING: property={PID} {f['id']}: {f['what']} ({len(hits)} occurrence(s) this run in {'/'.join(profs)}, e.g. `{hits[0]['line']}` -> {hits[0]['impl']}, documented {hits[0].get('spec', hits[0]['model'])})")
    for m in msgs:
        print(m)

    # ---- evidence
    nontriv = lambda l: any(len(t) > 2 for t in l.split()[1:])
    distinct = len({l for l in lines if nontriv(l)})
    ops_hist = {}
    for l in lines:
        k = l.split()[0]
        ops_hist[k] = ops_hist.get(k, 0) + 1
    samples = []
    step = max(1, len(lines) // 8)
    for i in range(0, len(lines), step):
        samples.append(dict(op=lines[i][:300], release=impl['release'][i][:120], dbgchk=impl['dbgchk'][i][:120], model=model[i][:200]))
    for fid, hits in sorted(known_hits.items()):
        samples.append(dict(op=hits[0]['line'][:300], impl=hits[0]['impl'], profile=hits[0]['profile'], known_finding=fid))
    ev = dict(
        property_id=PID, tier=tier, seed=seed, level=args.level,
        coverage=dict(
            obligations=max(po['obligations'], 1), discharged=po['discharged'],
            checker_cmd=f'cd lean && lake build CB.Props.{PID} && lake env lean CB/Audit/{PID}.lean  (#print axioms of every theorem)',
            trusted_base=['Lean 4 kernel', 'axioms: ' + ', '.join(sorted({a for t in po['theorems'] for a in (t['axioms'] or [])})),
                          'hand-written checked twins CB/Model/Panic.lean (explicit debug_assert / overflow / index / expect conditions read off the Rust source) — tied to /repo only by this run\'s op lines',
                          'the RUNTIME half of C11 is observation, not proof: what the two real builds do is seen only on the executed lines (catch_unwind + watchdog), compiled by rustc/LLVM at opt-level 3 / opt-level 1 with debug assertions and overflow checks',
                          'the documented-panic expectation of a foreign line is the L0/L1 column printed by that property\'s model driver',
                          'harness canonical printing, tools/check_c11.py, tools/runner.py, tools/extract.py, external crates (subtle, der, rlp, serdect, bincode, hybrid-array, rand_core)'],
            theorems=po['theorems'], partial_theorems=po['partial'],
            evaluations=judged * 2, distinct_nontrivial=distinct,
            rule='op lines = corpus/C11.txt + c11.* probes (tools/gen/c11.py) + the op lines of every other property\'s generator and corpus (quick: stratified per-op subsample, thorough: all); each line executed on the real crate in two build profiles under catch_unwind with a watchdog and on the Lean model driver; only the panic class is compared; distinct = distinct lines, non-trivial = some operand token longer than 2 characters',
            samples=samples, ops_histogram=ops_hist, lines_per_property=per_prop,
            outcome_histogram=hist, expected_panics_observed=expected_panics,
            lines_judged=judged, lines_skipped=sum(skipped.values()), unjudged_panics=unjudged[:50],
            traces_validated_against_impl=judged, profile_differences=profdiff,
            known_findings_hit={k: len(v) for k, v in known_hits.items()},
            watchdog=dict(chunk_lines=CHUNK, chunk_timeout_s=CHUNK_TIMEOUT, line_timeout_s=LINE_TIMEOUT),
            notes=notes),
        assumptions=['only target_pointer_width=64 is modelled and run',
                     'a panic is what catch_unwind catches in the harness; aborts are seen as process death; non-termination as a watchdog timeout',
                     'the two profiles are those of harness/Cargo.toml (release: opt-level 3, no debug assertions, no overflow checks; dbgchk: opt-level 1, debug assertions, overflow checks)'],
        wall_s=round(time.time() - t0, 2), violations=len(viol))
    if not args.replay:
        json.dump(ev, open(os.path.join(VERIF, 'evidence', PID + '.json'), 'w'), indent=1)
    R.log(f'done rc={rc} lines={len(lines)} judged={judged} viol={len(viol)} known={sum(len(v) for v in known_hits.values())} wall={ev["wall_s"]}s')
    sys.exit(rc)


if __name__ == '__main__':
    main()
