"""C13 — Int<LIMBS> as two's-complement integers: op lines `c13.<op> n a [m b | t | c]`.
Signed operands are written as the hex of their two's-complement limbs."""
from .common import *

W6 = [1, 2, 3, 4, 8, 16]
PAIRS = [(1, 1), (2, 2), (3, 3), (4, 4), (8, 8), (16, 16), (1, 2), (2, 1), (1, 3), (3, 1), (2, 4), (4, 2),
         (3, 4), (4, 3), (4, 8), (8, 4), (1, 16), (16, 1), (8, 16), (16, 8)]
WIDE = PAIRS[:16]

RULE = ("operation lines from corpus + directed families (MIN, MIN+1, -1, 0, 1, MAX, MAX-1, +-2^(BITS/2), a = -b, "
        "products exactly at and next to +-2^(BITS-1), magnitudes 2^(BITS-1) with either sign, all sign combinations, "
        "all width pairs) + seeded structured random; each line executed on the real crate in two build profiles and on "
        "the Lean model (L1) and the Int specification (L0); every line also compares all forwarding forms "
        "(traits, operators, Checked/Wrapping) inside the harness; non-trivial = some operand token longer than 2 hex digits")
ASSUMPTIONS = ["from_i128 / From<i128> only for >= 2 limbs (the crate asserts that)",
               "Uint::split_mul / widening_mul / square_wide are taken at value level (exactness is property C03)"]


def enc(v, n):
    return hx(v % (1 << (64 * n)))


def edges(n):
    bits = 64 * n
    mn, mx = -(1 << (bits - 1)), (1 << (bits - 1)) - 1
    h = 1 << (bits // 2)
    return [mn, mn + 1, -1, 0, 1, mx, mx - 1, h, -h, h - 1, -h + 1, h + 1, -h - 1, 2, -2, mn + 2, mx // 2, mn // 2,
            (1 << (bits - 2)), -(1 << (bits - 2)), (1 << 63), -(1 << 63), (1 << 64) - 1 if n > 1 else 3, -((1 << 64) - 1) if n > 1 else -3]


def sval(rng, n):
    """signed value of n limbs, edge biased"""
    bits = 64 * n
    k = rng.randrange(6)
    if k == 0:
        return rng.choice(edges(n))
    if k == 1:  # small magnitude
        return rng.choice([1, -1]) * rng.getrandbits(rng.randrange(1, 65))
    if k == 2:  # near the boundary
        d = rng.getrandbits(rng.randrange(1, 66)) % (1 << (bits - 1))
        return rng.choice([-(1 << (bits - 1)) + d, (1 << (bits - 1)) - 1 - d])
    v = value(rng, n)
    return v - (1 << bits) if v >> (bits - 1) else v


def fits(v, n):
    return -(1 << (64 * n - 1)) <= v < (1 << (64 * n - 1))


def boundary_products(rng, n, m, count):
    """(a, b) with a of n limbs, b of m limbs and a*b at / next to +-2^(64n-1)"""
    bits, mbits = 64 * n, 64 * m
    out = []
    for _ in range(count):
        i = rng.randrange(0, bits)
        j = bits - 1 - i
        if j > mbits - 1 or i > bits - 1:
            continue
        a, b = 1 << i, 1 << j
        for sa in (1, -1):
            for sb in (1, -1):
                for da in (0, 1, -1):
                    for db in (0, 1, -1):
                        x, y = sa * (a + da), sb * (b + db)
                        if fits(x, n) and fits(y, m):
                            out.append((x, y))
    # odd factorisations of 2^(bits-1) +- small: take a random a and b = round(T / a)
    T = 1 << (bits - 1)
    for _ in range(count):
        a = rng.getrandbits(rng.randrange(2, min(bits - 1, mbits + 60))) | 1
        for t in (T, T - 1, T + 1):
            b = t // a
            for bb in (b, b + 1):
                for sa in (1, -1):
                    for sb in (1, -1):
                        if fits(sa * a, n) and fits(sb * bb, m):
                            out.append((sa * a, sb * bb))
    return out


def gen(tier, rng):
    quick = tier == 'quick'
    reps = 40 if quick else 400
    for n in W6:
        bits = 64 * n
        E = edges(n)
        # ---- add / sub: all edge pairs, a = -b, random
        prs = [(a, b) for a in E[:13] for b in E[:13]]
        prs += [(a, -a) for a in E if fits(-a, n)] + [(a, -a - 1) for a in E if fits(-a - 1, n)]
        for _ in range(reps * 3):
            a = sval(rng, n)
            k = rng.randrange(6)
            if k == 0 and fits(-a, n):
                b = -a
            elif k == 1:
                b = ((1 << (bits - 1)) - 1 - a) if a >= 0 else (-(1 << (bits - 1)) - a)     # sum exactly MAX / MIN
            elif k == 2:
                b = ((1 << (bits - 1)) - a) if a > 0 else (-(1 << (bits - 1)) - 1 - a)      # one past the boundary
                if not fits(b, n):
                    b = sval(rng, n)
            else:
                b = sval(rng, n)
            prs.append((a, b))
        for a, b in prs:
            yield f"c13.add {n} {enc(a, n)} {enc(b, n)}"
            yield f"c13.sub {n} {enc(a, n)} {enc(b, n)}"
        # ---- unary
        for a in E + [sval(rng, n) for _ in range(reps)]:
            yield f"c13.neg {n} {enc(a, n)}"
            yield f"c13.sign {n} {enc(a, n)}"
            yield f"c13.square {n} {enc(a, n)}"
            yield f"c13.widening_square {n} {enc(a, n)}"
        # squares at the 2^BITS boundary
        r = 1 << (bits // 2)
        for a in [r, r - 1, r + 1, -r, -r + 1, -r - 1] + [rng.choice([1, -1]) * (r - rng.getrandbits(20)) for _ in range(reps // 4)]:
            if fits(a, n):
                yield f"c13.square {n} {enc(a, n)}"
                yield f"c13.widening_square {n} {enc(a, n)}"
        # ---- new_from_abs_sign: magnitudes around 2^(BITS-1), both signs (negative zero included)
        T = 1 << (bits - 1)
        mags = [0, 1, 2, T - 2, T - 1, T, T + 1, T + 2, (1 << bits) - 1, (1 << bits) - 2, T // 2, T + T // 2, 1 << 63]
        mags += [value(rng, n) for _ in range(reps)]
        for m_ in mags:
            for c in (0, 1):
                yield f"c13.from_abs_sign {n} {hx(m_ % (1 << bits))} {c}"
        # ---- from primitives
        for k in (8, 16, 32, 64, 128):
            if k == 128 and n < 2:
                continue
            P = [0, 1, (1 << k) - 1, 1 << (k - 1), (1 << (k - 1)) - 1, (1 << (k - 1)) + 1, (1 << k) - 2, 1 << (k // 2), (1 << k) - (1 << (k // 2))]
            P += [rng.getrandbits(k) for _ in range(reps // 4)]
            if k == 128:
                P += [(1 << 64) - 1, 1 << 64, (1 << 63), (1 << 127) + (1 << 63)]
            for x in P:
                yield f"c13.from_prim {n} {k} {hx(x)}"
        # ---- resize to every width
        for t in W6:
            R = E + [sval(rng, n) for _ in range(reps // 4)]
            if t < n:   # values whose truncation flips / keeps the sign
                tb = 64 * t
                R += [1 << (tb - 1), -(1 << (tb - 1)), (1 << (tb - 1)) - 1, -(1 << (tb - 1)) - 1, 1 << tb, -(1 << tb), (1 << tb) - 1]
            for a in R:
                if fits(a, n):
                    yield f"c13.resize {n} {enc(a, n)} {t}"
        # ---- Checked<Int> multiplication (equal widths)
        for a, b in boundary_products(rng, n, n, 2 if quick else 12) + [(sval(rng, n), sval(rng, n)) for _ in range(reps)]:
            yield f"c13.ck_mul {n} {enc(a, n)} {enc(b, n)}"
    # ---- products, all width pairs
    for (n, m) in PAIRS:
        En, Em = edges(n), edges(m)
        prs = [(a, b) for a in En[:9] for b in Em[:9]]
        prs += boundary_products(rng, n, m, 3 if quick else 20)
        for _ in range(reps):
            a = sval(rng, n)
            k = rng.randrange(4)
            if k == 0:      # product of about BITS(n) bits
                i = rng.randrange(1, 64 * n)
                a = rng.choice([1, -1]) * rng.getrandbits(i)
                j = min(64 * m - 1, max(1, 64 * n - i + rng.randrange(-2, 3)))
                b = rng.choice([1, -1]) * rng.getrandbits(j)
            else:
                b = sval(rng, m)
            prs.append((a, b))
        for a, b in prs:
            sa, sb = enc(a, n), enc(b, m)
            yield f"c13.split_mul {n} {sa} {m} {sb}"
            yield f"c13.checked_mul {n} {sa} {m} {sb}"
            if (n, m) in WIDE:
                yield f"c13.widening_mul {n} {sa} {m} {sb}"
        # Int x Uint
        uprs = []
        for a, b in prs:
            uprs.append((a, abs(b)))
            if rng.randrange(3) == 0:
                uprs.append((a, b % (1 << (64 * m))))     # large unsigned (top bit set for negative b)
        uprs += [(a, u) for a in En[:7] for u in (0, 1, (1 << (64 * m)) - 1, 1 << (64 * m - 1), (1 << (64 * m - 1)) - 1)]
        # products at +-2^(64m-1) for the `_right` form (result width = rhs width)
        for _ in range(3 if quick else 20):
            i = rng.randrange(0, 64 * m)
            j = 64 * m - 1 - i
            for sa in (1, -1):
                for da in (0, 1, -1):
                    for db in (0, 1, -1):
                        x, u = sa * ((1 << j) + da), (1 << i) + db
                        if fits(x, n) and 0 <= u < (1 << (64 * m)):
                            uprs.append((x, u))
        for a, u in uprs:
            sa, su = enc(a, n), hx(u)
            yield f"c13.split_mul_uint {n} {sa} {m} {su}"
            yield f"c13.split_mul_uint_right {n} {sa} {m} {su}"
            yield f"c13.checked_mul_uint {n} {sa} {m} {su}"
            yield f"c13.checked_mul_uint_right {n} {sa} {m} {su}"
            if (n, m) in WIDE:
                yield f"c13.widening_mul_uint {n} {sa} {m} {su}"
