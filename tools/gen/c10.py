"""C10 — modular inversion and gcd: op-line generator.

Families (property quantifier text + DESIGN §6 C10):
  moduli  : odd primes, odd composites (p·q, p², 3·…), 2^k, s·2^k for every k, 1, 2^BITS−1, 0 (option-returning forms)
  values  : 0, 1, m−1, a ≥ m, multiples of a prime factor of m, sharing only the factor 2 with m,
            long trailing-zero runs (long jump steps), structured random
  mod 2^k : every k in 0..=BITS (small widths), a odd / even / 0 / 1 / MAX
  gcd     : zeros, equal values, powers of two, common odd factor × powers of two, negative signed inputs,
            Fibonacci neighbours (slow Euclid), operands with trailing-zero runs
Lines are shuffled (one rng) so that the runner's contiguous chunks are balanced in cost.
"""
import random
from .common import *

RULE = ('operation lines from corpus + directed families (see tools/gen/c10.py docstring) + seeded structured random; '
        'each line executed on the real crate in two build profiles and on the Lean model (L1) and compared with the '
        'specification L0 (Nat.gcd / modular inverse iff coprime); distinct = distinct lines, non-trivial = modulus/operand '
        'token longer than 2 hex digits')
ASSUMPTIONS = ['H_divsteps_done (iterations() trips reach g = 0) is exercised, not proved: every inversion/gcd line checks it '
               '(debug_assert in dbgchk, L1 = L0 comparison)',
               'ConstMontyForm is exercised for six compile-time moduli only (harness/src/ops/c10.rs CM0..CM5)',
               'c10.hook.* lines call the safegcd building blocks (inv_mod2_62, iterations, jump, fg, de, divsteps(_vartime), the UnsatInt / BoxedUnsatInt conversions and arithmetic, inverter fields, norm) on plain limb lists through crypto_bigint::verif_hooks; jump only with f odd (or f even, g odd, delta > 0) and |delta| <= 2^63 - 64, de only with |t_i0| + |t_i1| <= 2^62, mul never by i64::MIN, add / neg / leading_zeros only where no u64 operation overflows: elsewhere the crate loops forever or the two build profiles differ by an overflow trap']

FIXED = [1, 2, 3, 4, 6, 8, 16, 32]          # + 5, 7 in odd_width_lines (harness: fixed5 = U320, fixed7 = U448)

CONST_MODULI = [
    (1, 0xffffffffffffffff),
    (2, 0x7fffffffffffffffffffffffffffffff),
    (4, 0xffffffff00000000ffffffffffffffffbce6faada7179e84f3b9cac2fc632551),
    (6, 0xfffffffffffffffffffffffffffffffffffffffffffffffffffffffffffffffeffffffff0000000000000000ffffffff),
    (3, 3),
    (1, 1),
]

SMALL_PRIMES = [3, 5, 7, 11, 13, 17, 19, 23, 29, 31, 37, 41, 43, 47, 251, 257, 65537]


def is_prime(n, rng):
    if n < 2:
        return False
    for p in (2, 3, 5, 7, 11, 13, 17, 19, 23, 29, 31, 37):
        if n % p == 0:
            return n == p
    d, s = n - 1, 0
    while d % 2 == 0:
        d //= 2
        s += 1
    for _ in range(12):
        a = rng.randrange(2, n - 1)
        x = pow(a, d, n)
        if x in (1, n - 1):
            continue
        for _ in range(s - 1):
            x = x * x % n
            if x == n - 1:
                break
        else:
            return False
    return True


_prime_cache = {}


def prime(rng, bits):
    """a prime of exactly `bits` bits (bits >= 2); cached pool per size to keep generation cheap"""
    pool = _prime_cache.setdefault(bits, [])
    if len(pool) >= 4 and rng.randrange(4):
        return rng.choice(pool)
    if bits == 2:
        return 3
    while True:
        c = rng.getrandbits(bits) | (1 << (bits - 1)) | 1
        if is_prime(c, rng):
            pool.append(c)
            return c


def odd_modulus(rng, w):
    """(m, factors) with m odd, 1 <= m < 2^w; factors = some prime factors (may be empty)"""
    k = rng.randrange(12)
    if k == 0:
        return 1, []
    if k == 1:
        return (1 << w) - 1, [3] if w % 2 == 0 else []
    if k == 2:
        p = rng.choice(SMALL_PRIMES)
        return p, [p]
    if k in (3, 4, 5):
        b = rng.choice([w, w, w - 1, max(2, w // 2), rng.randrange(2, w + 1)])
        b = min(b, 512) if rng.randrange(3) else b       # big primes are slow to find
        b = min(b, 1100)
        p = prime(rng, max(2, b))
        return p, [p]
    if k in (6, 7):   # p * q
        b = min(w, 1024)
        b1 = rng.randrange(2, max(3, b - 1))
        p, q = prime(rng, min(b1, 300)), prime(rng, min(max(2, b - b1), 300))
        return p * q, [p, q]
    if k == 8:        # prime power
        p = rng.choice(SMALL_PRIMES)
        e = rng.randrange(1, max(2, w // p.bit_length()))
        return p ** e, [p]
    if k == 9:        # small prime times big odd
        p = rng.choice(SMALL_PRIMES)
        r = rng.getrandbits(max(1, w - p.bit_length() - 1)) | 1
        return p * r, [p]
    if k == 10:       # edge-biased odd value
        return value(rng, w // 64) | 1, []
    return rng.getrandbits(w) | 1, []


def modulus(rng, w, allow_zero):
    """(m, factors) over all modulus families"""
    k = rng.randrange(10)
    if k == 0 and allow_zero:
        return 0, []
    if k == 1:
        return 1 << rng.randrange(w), [2]
    if k in (2, 3, 4):   # s * 2^k, every k
        kk = rng.randrange(1, w)
        s, f = odd_modulus(rng, max(64, ((w - kk) // 64) * 64)) if w - kk >= 64 else (rng.getrandbits(w - kk) | 1, [])
        s %= 1 << (w - kk)
        s |= 1
        return s << kk, [2] + [p for p in f if s % p == 0]
    return odd_modulus(rng, w)


def operand(rng, w, m, factors):
    """value a < 2^w for modulus m"""
    full = 1 << w
    k = rng.randrange(14)
    if k == 0: return 0
    if k == 1: return 1
    if k == 2: return (m - 1) % full
    if k == 3: return min(full - 1, m + rng.randrange(0, 3))           # a >= m, close
    if k == 4: return rng.randrange(m, full) if m < full else full - 1  # a >= m
    if k == 5 and factors:                                              # multiple of a prime factor
        p = rng.choice(factors)
        return (p * rng.randrange(1, max(2, full // p))) % full if rng.randrange(2) else p
    if k == 6 and m % 2 == 0 and m:                                     # sharing only the factor 2
        a = (rng.randrange(1, max(2, m)) | 1) << rng.randrange(1, 8)
        return a % full
    if k == 7:                                                          # long trailing-zero run
        t = rng.randrange(1, w)
        return ((rng.getrandbits(w - t) | 1) << t) % full
    if k == 8: return full - 1
    if k == 9 and m > 2: return rng.randrange(1, m)
    if k == 10: return value(rng, w // 64)
    if k == 11 and m > 1:                                               # ± small multiples / neighbours of m
        return (m * rng.randrange(1, 4) + rng.choice([-1, 1])) % full
    return rng.getrandbits(rng.randrange(1, w + 1))


def neg(w, x):
    return (-x) % (1 << w)


def gcd_pair(rng, w):
    full = 1 << w
    k = rng.randrange(14)
    if k == 0: return 0, 0
    if k == 1: return 0, rng.getrandbits(w)
    if k == 2: return rng.getrandbits(w), 0
    if k == 3:
        a = value(rng, w // 64); return a, a
    if k == 4: return 1 << rng.randrange(w), 1 << rng.randrange(w)
    if k == 5:   # common odd factor times powers of two
        b = max(2, w // 3)
        c = rng.getrandbits(b) | 1
        x = (c * (rng.getrandbits(b) | 1)) << rng.randrange(0, b)
        y = (c * (rng.getrandbits(b) | 1)) << rng.randrange(0, b)
        return x % full, y % full
    if k == 6:   # Fibonacci neighbours
        a, b = 1, 1
        while b.bit_length() < w - rng.randrange(0, 8) and (a + b) < full:
            a, b = b, a + b
        return (b, a) if rng.randrange(2) else (a, b)
    if k == 7:   # trailing-zero runs
        t1, t2 = rng.randrange(w), rng.randrange(w)
        return ((rng.getrandbits(w - t1) | 1) << t1) % full, ((rng.getrandbits(w - t2) | 1) << t2) % full
    if k == 8: return full - 1, rng.getrandbits(w)
    if k == 9: return 1, rng.getrandbits(w)
    if k == 10: return full - 1, full - 1
    if k == 11: return 1 << (w - 1), rng.getrandbits(w)
    if k == 12:
        a, b = pair(rng, w // 64); return a, b
    return rng.getrandbits(rng.randrange(1, w + 1)), rng.getrandbits(rng.randrange(1, w + 1))


def reps_for(n, base):
    """fewer lines for wide operands: the model costs ~ n³ per line (the crate runs `iterations(bits)` BATCHES of
    62 divsteps, each batch a pass over n limbs)"""
    if n <= 2: return base
    if n <= 4: return max(4, base // 2)
    if n <= 8: return max(3, base // 4)
    if n <= 12: return max(2, base // 12)
    if n <= 16: return max(2, base // 24)
    if n <= 24: return max(1, base // 60)
    return max(1, base // 120)


def gen(tier, rng):
    lines = []
    out = lines.append
    base = 48 if tier == 'quick' else 700
    boxed = [1, 2, 3, 4, 5, 7, 9, 12, 17, 24, 33] if tier == 'quick' else list(range(1, 34))

    # ---------------- inversion mod 2^k
    for n in FIXED:
        w = 64 * n
        ks = range(0, w + 1) if n <= 2 or tier != 'quick' and n <= 8 else sorted({0, 1, 2, 63, 64, 65, w - 64, w - 1, w} | {rng.randrange(w + 1) for _ in range(12)})
        for k in ks:
            vals = [rng.getrandbits(w) | 1, value(rng, n) | 1, value(rng, n)]
            if n <= 2 or k in (0, 1, w):
                vals += [0, 1, (1 << w) - 1, (1 << w) - 2, 2]
            for a in vals[: (len(vals) if n <= 8 else 2)]:
                out(f"c10.u.inv_mod2k {n} {hx(a)} {k}")
                out(f"c10.u.inv_mod2k_vartime {n} {hx(a)} {k}")
        # k > BITS (outside C10's k <= BITS; inv_mod2k_vartime panicked there before /repo 8dd1192): the rounds
        # beyond BITS contribute nothing, all forms agree on the inverse modulo 2^BITS
        for k in [w + 1, w + 63, w + 64, 2 * w, 2 * w + 3] + ([4099] if n <= 4 else []):
            for a in [rng.getrandbits(w) | 1, value(rng, n), 1, (1 << w) - 1]:
                out(f"c10.u.inv_mod2k {n} {hx(a)} {k}")
                out(f"c10.u.inv_mod2k_vartime {n} {hx(a)} {k}")
    for l in boxed:
        w = 64 * l
        ks = sorted({0, 1, 64, w - 1, w, w + 1, 2 * w} | {rng.randrange(w + 1) for _ in range(6 if l > 4 else 20)})
        for k in ks:
            for a in [rng.getrandbits(w) | 1, value(rng, l)] + ([0, 1, (1 << w) - 1] if k in (0, 1, w) else []):
                out(f"c10.b.inv_mod2k {l} {hx(a)} {k}")
                out(f"c10.b.inv_mod2k_vartime {l} {hx(a)} {k}")

    # ---------------- general / odd modulus inversion, fixed widths
    for n in FIXED:
        w = 64 * n
        r = reps_for(n, base)
        # directed: every k for s·2^k (small widths), m = 0, 1, 2, 2^w-1, 2^(w-1)
        directed = [(1, []), (2, [2]), ((1 << w) - 1, []), (1 << (w - 1), [2]), (3 << (w - 2), [2, 3]), ((1 << w) - 2, [2])]
        # modulus 0 through the option-returning forms (own op: DESIGN §7 row 8)
        for a in [0, 1, 2, 3, (1 << w) - 1, rng.getrandbits(w)]:
            out(f"c10.u.inv_mod_m0 {n} {hx(a)} {rng.randrange(2)}")
        # every k for s·2^k at the small widths (each line costs a full safegcd run: ~n³), sampled k above
        every_k = n <= 2 or (tier != 'quick' and n <= 4)
        for k in (range(w) if every_k else sorted({rng.randrange(w) for _ in range((4 if n <= 8 else 1) if tier == 'quick' else (48 if n <= 8 else 12))})):
            if every_k or n > 2:
                s = rng.getrandbits(w - k) | 1
                directed.append((s << k, [2] if k else []))
        for m, f in directed:
            for a in {0, 1, (m - 1) % (1 << w), 2, 3, operand(rng, w, m, f), operand(rng, w, m, f)}:
                out(f"c10.u.inv_mod {n} {hx(a)} {hx(m)}")
        for _ in range(r * 3):
            m, f = modulus(rng, w, False)
            a = operand(rng, w, m, f)
            out(f"c10.u.inv_mod {n} {hx(a)} {hx(m)}")
            if rng.randrange(4) == 0:
                out(f"c10.u.inv_mod_trait {n} {hx(a)} {hx(m)}")
            if m != 0 and rng.randrange(3) == 0:
                sa = a if rng.randrange(2) else neg(w, a % (1 << (w - 1)))
                out(f"c10.i.inv_mod {n} {hx(sa)} {hx(m)}")
        for _ in range(r * 3):
            m, f = odd_modulus(rng, w)
            a = operand(rng, w, m, f)
            out(f"c10.u.inv_odd_mod {n} {hx(a)} {hx(m)}")
            c = rng.randrange(6)
            if c == 0: out(f"c10.u.inverter {n} {hx(m)} {hx(a)} {rng.randrange(2)}")
            if c == 1: out(f"c10.i.inv_odd_mod {n} {hx(a)} {hx(m)}")
            if c == 2: out(f"c10.i.inv_odd_mod {n} {hx(neg(w, a % (1 << (w - 1))))} {hx(m)}")
            if c in (3, 4): out(f"c10.u.monty_inv {n} {hx(m)} {hx(a)} {rng.randrange(6)}")
        for form in range(6):
            m, f = odd_modulus(rng, w)
            out(f"c10.u.monty_inv {n} {hx(m)} {hx(operand(rng, w, m, f))} {form}")
        for vt in (0, 1):
            m, f = odd_modulus(rng, w)
            out(f"c10.u.inverter {n} {hx(m)} {hx(operand(rng, w, m, f))} {vt}")
        # Int::MIN and -1
        for m in [3, (1 << w) - 1, 1]:
            for a in [1 << (w - 1), (1 << w) - 1, (1 << (w - 1)) - 1]:
                out(f"c10.i.inv_odd_mod {n} {hx(a)} {hx(m)}")
                out(f"c10.i.inv_mod {n} {hx(a)} {hx(m)}")
                if m + 1 < (1 << w):
                    out(f"c10.i.inv_mod {n} {hx(a)} {hx(m + 1)}")

    # ---------------- ConstMontyForm
    for n, m in CONST_MODULI:
        w = 64 * n
        f = [3] if m % 3 == 0 else []
        for form in range(8):
            for _ in range(max(1, reps_for(n, base) // 6)):
                out(f"c10.c.monty_inv {n} {hx(m)} {hx(operand(rng, w, m, f))} {form}")
            out(f"c10.c.monty_inv {n} {hx(m)} 0 {form}")

    # ---------------- boxed inversion
    for l in boxed:
        w = 64 * l
        r = reps_for(l, base)
        for m, f in [(0, []), (1, []), (2, [2]), ((1 << w) - 1, []), (1 << (w - 1), [2])]:
            for a in {0, 1, (m - 1) % (1 << w), operand(rng, w, m, f)}:
                out(f"c10.b.inv_mod {l} {hx(a)} {hx(m)}")
        for _ in range(r * 2):
            m, f = modulus(rng, w, True)
            a = operand(rng, w, m, f)
            out(f"c10.b.inv_mod {l} {hx(a)} {hx(m)}")
            if rng.randrange(4) == 0:
                out(f"c10.b.inv_mod_trait {l} {hx(a)} {hx(m)}")
        for _ in range(r * 2):
            m, f = odd_modulus(rng, w)
            a = operand(rng, w, m, f)
            out(f"c10.b.inv_odd_mod {l} {hx(a)} {hx(m)}")
            c = rng.randrange(4)
            if c == 0: out(f"c10.b.inverter {l} {hx(m)} {hx(a)} {rng.randrange(2)}")
            if c == 1 and m > 1: out(f"c10.b.monty_inv {l} {hx(m)} {hx(a)} {rng.randrange(6)}")
        for form in range(6):
            m, f = odd_modulus(rng, w)
            if m > 1:
                out(f"c10.b.monty_inv {l} {hx(m)} {hx(operand(rng, w, m, f))} {form}")
            # modulus 1: every value (i.e. 0) is invertible, in EVERY form incl. the vartime ones (seed C10-m9: a zero fast path
            # in invert_vartime answered none); and zero modulo a larger modulus is never invertible
            out(f"c10.b.monty_inv {l} 1 {hx(rng.choice([0, 0, 1, rng.getrandbits(w)]))} {form}")
            out(f"c10.b.monty_inv {l} {hx(rng.getrandbits(w) | 3)} 0 {form}")

    # ---------------- gcd
    for n in FIXED:
        w = 64 * n
        r = reps_for(n, base)
        for _ in range(r * 3):
            a, b = gcd_pair(rng, w)
            out(f"c10.u.gcd {n} {hx(a)} {hx(b)}")
            c = rng.randrange(8)
            vt = rng.randrange(2)
            if c == 0: out(f"c10.u.gcd_trait {n} {hx(a)} {hx(b)} {vt}")
            if c == 1: out(f"c10.u.gcd_trait {n} {hx(a | 1)} {hx(b)} 1")
            if c == 2: out(f"c10.i.gcd {n} {hx(a)} {hx(b)} {vt}")
            if c == 3: out(f"c10.i.gcd {n} {hx(neg(w, a))} {hx(neg(w, b))} {vt}")
            if c == 4: out(f"c10.i.gcd_uint {n} {hx(neg(w, a))} {hx(b)} {vt}")
            if c == 5: out(f"c10.u.gcd_int {n} {hx(a)} {hx(neg(w, b))} {vt}")
            if c == 6: out(f"c10.u.odd_gcd {n} {hx(a | 1)} {hx(b)} 2")
        mn = 1 << (w - 1)
        for vt in (0, 1):
            out(f"c10.i.gcd {n} {hx(mn)} {hx(mn)} {vt}")
            out(f"c10.i.gcd {n} {hx(mn)} 0 {vt}")
            out(f"c10.i.gcd {n} 0 {hx(mn)} {vt}")
            out(f"c10.i.gcd {n} {hx((1 << w) - 1)} {hx(mn)} {vt}")
            out(f"c10.u.gcd_trait {n} 0 0 {vt}")
            out(f"c10.i.gcd_uint {n} {hx(mn)} {hx((1 << w) - 1)} {vt}")
            out(f"c10.u.gcd_int {n} {hx((1 << w) - 1)} {hx(mn)} {vt}")
    for l in boxed:
        w = 64 * l
        r = reps_for(l, base)
        for _ in range(r * 2):
            a, b = gcd_pair(rng, w)
            out(f"c10.b.gcd {l} {hx(a)} {hx(b)} {rng.randrange(2)}")
            if rng.randrange(3) == 0:
                out(f"c10.b.odd_gcd {l} {hx(a | 1)} {hx(b)} {rng.randrange(2)}")

    # ---------------- boxed operands of different precision (DESIGN §7 row 13 and its siblings)
    for _ in range(60 if tier == 'quick' else 600):
        la, lb = rng.randrange(1, 9), rng.randrange(1, 9)
        if la == lb:
            lb += 1
        if rng.randrange(3) == 0:
            a, b = gcd_pair(rng, 64 * min(la, lb))
            if rng.randrange(2):       # high limbs of the wider operand matter
                if la > lb: a |= (rng.getrandbits(64 * (la - lb)) << (64 * lb))
                else: b |= (rng.getrandbits(64 * (lb - la)) << (64 * la))
        else:
            a, b = rng.getrandbits(64 * la), rng.getrandbits(rng.randrange(1, 64 * lb + 1))
            if rng.randrange(4) == 0:  # common factor with a power of two
                c = rng.getrandbits(32) | 1
                t = rng.randrange(0, 40)
                a, b = (a // c * c << t) % (1 << (64 * la)), (b // c * c << rng.randrange(0, 40)) % (1 << (64 * lb))
        vt = rng.randrange(2)
        out(f"c10.b.gcd_mixed {la} {hx(a)} {lb} {hx(b)} {vt}")
        out(f"c10.b.odd_gcd_mixed {la} {hx(a | 1)} {lb} {hx(b)} {vt}")
        if rng.randrange(6) == 0:   # BoxedUint::inv_mod documents the panic for different limb counts
            out(f"c10.b.inv_mod_mixed {la} {hx(rng.getrandbits(64 * la))} {lb} {hx(rng.getrandbits(64 * lb) | rng.randrange(2))}")
        if rng.randrange(5) == 0:
            m = rng.getrandbits(64 * lb) | 1
            out(f"c10.b.inv_odd_mod_mixed {la} {hx(rng.getrandbits(rng.randrange(1, 64 * la + 1)))} {lb} {hx(m)}")

    rng.shuffle(lines)
    # crate-internal safegcd building blocks (verif_hooks): own PRNG stream, emitted after the (unchanged) public lines
    hooks = hook_lines(tier, random.Random(rng.getrandbits(32)))
    random.Random(1).shuffle(hooks)
    # widths that are not a power of two, k in the top quarter (own PRNG stream, after everything else)
    odd = odd_width_lines(tier, random.Random(rng.getrandbits(32)))
    random.Random(2).shuffle(odd)
    return lines + hooks + odd



# ---------------------------------------------------------------- crate-internal safegcd building blocks (verif_hooks)

M62 = (1 << 62) - 1
HOOK_LIMBS = [1, 2, 3, 4, 6, 10]                     # `hook::fixed::<L>` instantiations in harness/src/ops/c10.rs
HOOK_SAT = [(1, 3), (2, 4), (3, 5), (4, 6), (6, 8), (8, 10)]


def nl62(sat):
    return (64 * sat + 64 + 61) // 62


def to_unsat(x, n):
    r = x % (1 << (62 * n))
    return [(r >> (62 * i)) & M62 for i in range(n)]


def ltok(l):
    return ','.join(hx(v) for v in l)


def i64tok(v):
    return hx(v % (1 << 64))


def mattok(t):
    return ','.join(i64tok(v) for v in t)


def inv62(w):
    return pow(w, -1, 1 << 62)


def py_jump(f, g, delta, steps=62):
    """62 divsteps on integers; the transition matrix scaled by 2^62 (what `jump` is specified to return)"""
    u, v, q, r = 1, 0, 0, 1
    for _ in range(steps):
        if delta > 0 and g & 1:
            delta, f, g, u, v, q, r = 1 - delta, g, (g - f) >> 1, 2 * q, 2 * r, q - u, r - v
        else:
            b = g & 1
            delta, g, u, v, q, r = 1 + delta, (g + b * f) >> 1, 2 * u, 2 * v, q + b * u, r + b * v
    return delta, (u, v, q, r)


def unsat_values(rng, n, cnt):
    """signed values at the 62-bit limb boundaries, carries through every limb, both signs"""
    top = 1 << (62 * n - 1)
    vs = [0, 1, -1, top - 1, -top, -top + 1, 2, -2]
    for k in range(1, n + 1):
        p = 1 << (62 * k)
        vs += [p - 1, -(p - 1), (p >> 1), -(p >> 1)]
        if k < n:
            vs += [p, -p, p + 1, -p - 1]
    vs += [rng.getrandbits(62 * n) - top for _ in range(cnt)]
    vs += [rng.getrandbits(rng.randrange(1, 62 * n)) * rng.choice([1, -1]) for _ in range(cnt)]
    return vs


def garbage_limbs(rng, n, hi):
    """limbs with bits above 62 set (outside the type's invariant; mirror only)"""
    return [rng.choice([rng.getrandbits(64) % hi, (1 << 62) | rng.getrandbits(62), hi - 1, rng.getrandbits(62)]) for _ in range(n)]


def hook_matrices(rng, fs, gs):
    E = 1 << 62
    ms = [(1, 0, 0, 1), (0, 0, 0, 0), (E, 0, 0, E), (-E, 0, 0, -E), (0, E, -E, 0), (0, -E, E, 0), (E >> 1, E >> 1, -(E >> 1), E >> 1),
          (E, 0, E >> 1, E >> 1), (E - 1, 1, -1, -(E - 1)), (1, -(E - 1), E - 1, 1)]
    for _ in range(3):
        d, t = py_jump(rng.choice(fs) | 1, rng.choice(gs), rng.choice([1, 0, -1, 2, -3, 7, 62, -62]))
        ms.append(t)
    return ms


def odd_width_lines(tier, rng):
    """widths that are not a power of two (3, 5, 6, 7 limbs): inv_mod2k / inv_mod2k_vartime with k concentrated in the top
    quarter of the width (a doubling / Hensel-lifting rewrite with one round too few is wrong only for
    k > 3·2^(floor(log2 BITS) - 1), i.e. only there), and Uint::inv_mod with even moduli s·2^k for such k."""
    q = tier == 'quick'
    L = []
    out = L.append
    for n in (3, 5, 6, 7):
        w = 64 * n
        ks = {w, w - 1, w - 2, w - 63, w - 64, w - 65, 3 * w // 4, 3 * w // 4 + 1} | {rng.randrange(3 * w // 4 + 1, w + 1) for _ in range(12 if q else 60)}
        if n in (5, 7):                                   # these widths have no lines in the main family
            ks |= {0, 1, 2, 63, 64, 65, 128, w // 2} | {rng.randrange(w + 1) for _ in range(6 if q else 40)}
        if not q:
            ks |= set(range(w - 64, w + 1))
        for k in sorted(ks):
            vals = [rng.getrandbits(w) | 1, value(rng, n) | 1, (1 << w) - 1, rng.choice([1, 3, value(rng, n), 0, 2])]
            for a in vals:
                out(f"c10.u.inv_mod2k {n} {hx(a)} {k}")
                out(f"c10.u.inv_mod2k_vartime {n} {hx(a)} {k}")
        for k in (w + 1, w + 64, 2 * w):
            a = rng.getrandbits(w) | 1
            out(f"c10.u.inv_mod2k {n} {hx(a)} {k}")
            out(f"c10.u.inv_mod2k_vartime {n} {hx(a)} {k}")
    # Uint::inv_mod (CRT over s·2^k: its 2^k part is inv_mod2k) with k in the top quarter; each line runs a full safegcd
    for n in (5, 7):
        w = 64 * n
        ks = {w - 1, w - 2, w - 64, 3 * w // 4 + 1} | {rng.randrange(3 * w // 4 + 1, w) for _ in range(4 if q else 24)}
        for k in sorted(ks):
            sb = w - k
            for s in {1, 3 if sb >= 2 else 1, (rng.getrandbits(sb) | 1 | (1 << (sb - 1))) if sb >= 1 else 1}:
                m = (s << k) % (1 << w)
                if m == 0:
                    continue
                for a in (rng.getrandbits(w) | 1, (rng.getrandbits(w) | 1) * 3 % (1 << w), value(rng, n)):
                    out(f"c10.u.inv_mod {n} {hx(a)} {hx(m)}")
                out(f"c10.u.inv_mod_trait {n} {hx(rng.getrandbits(w) | 1)} {hx(m)}")
        for m in (1 << (w - 1), 3 << (w - 2), 5 << (w - 3)):
            out(f"c10.u.inv_mod {n} {hx(rng.getrandbits(w) | 1)} {hx(m)}")
        out(f"c10.u.gcd {n} {hx(value(rng, n))} {hx(value(rng, n))}")
        out(f"c10.u.inv_odd_mod {n} {hx(value(rng, n))} {hx(rng.getrandbits(w) | 1)}")
    return L


def hook_lines(tier, rng):
    q = tier == 'quick'
    L = []
    out = L.append
    # ---- inv_mod2_62
    ws = [1, 3, 5, WMAX, WMAX - 2, (1 << 63) + 1, (1 << 62) + 1, (1 << 62) - 1, (1 << 61) + 1, 0xaaaaaaaaaaaaaaab, 0x5555555555555555]
    ws += [rng.getrandbits(64) | 1 for _ in range(20 if q else 400)] + [0, 2, 1 << 63, 1 << 62, rng.getrandbits(64) & ~1]
    for w in ws:
        out(f"c10.hook.inv_mod2_62 {hx(w)}")
    for _ in range(5):
        out(f"c10.hook.inv_mod2_62 {hx(rng.getrandbits(64) | 1)},{hx(rng.getrandbits(64))},{hx(rng.getrandbits(64))}")
    # ---- iterations: every pair of bit lengths around the threshold 46, the widths in use, zero
    for f in range(40, 53):
        for g in range(40, 53):
            out(f"c10.hook.iterations {f} {g}")
    for b in [0, 1, 2, 45, 46, 47, 62, 124, 186, 372, 620, 2170, 4092, 1000000]:
        for c in sorted({0, 1, 45, 46, 47, b, rng.randrange(b + 1)}):
            out(f"c10.hook.iterations {b} {c}")
            out(f"c10.hook.iterations {c} {b}")
    for sat in list(range(1, 36)) + [64, 100, 1000]:
        out(f"c10.hook.bnlimbs {sat}")
    # ---- jump: trailing-zero runs of every length in g, deltas of both signs and large magnitude, both parities of
    #      the swap, f of both signs as an i64, multi-limb slices (only limb 0 is read)
    deltas = [1, 0, -1, 2, -2, 3, 5, 6, -5, -6, 31, 61, 62, 63, -61, -62, -63, 1 << 20, -(1 << 20), 1 << 62, -(1 << 62),
              (1 << 63) - 64, -((1 << 63) - 64)]
    fodd = [1, 3, M62, M62 - 2, (1 << 61) + 1, 0x2aaaaaaaaaaaaaab, 0x1555555555555555] + [rng.getrandbits(62) | 1 for _ in range(6 if q else 60)]
    for tz in range(0, 62):
        for _ in range(2 if q else 8):
            g = ((rng.getrandbits(62 - tz) | 1) << tz) & M62
            out(f"c10.hook.jump {hx(rng.choice(fodd))} {hx(g)} {i64tok(rng.choice(deltas))}")
        out(f"c10.hook.jump {hx(rng.choice(fodd))} {hx(1 << tz)} {i64tok(1)}")
    for f in fodd:
        for g in [0, 1, f, M62, M62 - 1, f ^ 2, (f * 3) & M62, (-f) & M62, 1 << 61]:
            for d in (rng.sample(deltas, 3) if q else deltas):
                out(f"c10.hook.jump {hx(f)} {hx(g)} {i64tok(d)}")
    for d in deltas:
        out(f"c10.hook.jump {hx(rng.getrandbits(62) | 1)} {hx(rng.getrandbits(62))} {i64tok(d)}")
        out(f"c10.hook.jump {hx(rng.getrandbits(62) | 1)},{hx(rng.getrandbits(62))} {hx(rng.getrandbits(62))},{hx(rng.getrandbits(62))},0 {i64tok(d)}")
    for _ in range(20 if q else 300):       # even f with an odd g and delta > 0: the first step swaps (what Uint::gcd may hand over)
        out(f"c10.hook.jump {hx(rng.getrandbits(61) << 1)} {hx(rng.getrandbits(62) | 1)} {i64tok(rng.choice([1, 2, 5, 62, 1 << 20]))}")
    for _ in range(30 if q else 500):       # 64-bit words (bits 62, 63 set): beyond the 62-bit limb invariant
        f = rng.getrandbits(64) | 1
        g = rng.choice([rng.getrandbits(64), 1 << 62, 1 << 63, 3 << 62, (rng.getrandbits(2) << 62)])
        out(f"c10.hook.jump {hx(f)} {hx(g)} {i64tok(rng.choice(deltas))}")
    # ---- fg / de / unsat arithmetic per limb count
    for n in HOOK_LIMBS:
        vs = unsat_values(rng, n, 3 if q else 12)
        lows = [v & M62 for v in vs]
        mats = hook_matrices(rng, lows, lows)
        reps = (14 if n <= 4 else 6) if q else 80
        for _ in range(reps):
            f, g, t = rng.choice(vs), rng.choice(vs), rng.choice(mats)
            out(f"c10.hook.fg {ltok(to_unsat(f, n))} {ltok(to_unsat(g, n))} {mattok(t)}")
            out(f"c10.hook.bfg {ltok(to_unsat(f, n))} {ltok(to_unsat(g, n))} {mattok(t)}")
        for _ in range(reps // 2):            # a real step: (f, g) with its own jump matrix (exact division by 2^62)
            f, g, d = rng.choice(vs) | 1, rng.choice(vs), rng.choice([1, 0, -1, 5, -7])
            _, t = py_jump(f & M62, g & M62, d)
            op = rng.choice(["fg", "bfg"])
            out(f"c10.hook.{op} {ltok(to_unsat(f, n))} {ltok(to_unsat(g, n))} {mattok(t)}")
        for _ in range(4 if q else 20):        # extreme entries, garbage limbs
            t = tuple(rng.choice([(1 << 63) - 1, -((1 << 63) - 1), rng.getrandbits(64) - (1 << 63) or 1, 1 << 62, -(1 << 62)]) for _ in range(4))
            out(f"c10.hook.fg {ltok(to_unsat(rng.choice(vs), n))} {ltok(to_unsat(rng.choice(vs), n))} {mattok(t)}")
            out(f"c10.hook.bfg {ltok(garbage_limbs(rng, n, 1 << 64))} {ltok(garbage_limbs(rng, n, 1 << 64))} {mattok(rng.choice(mats))}")
            out(f"c10.hook.fg {ltok(garbage_limbs(rng, n, 1 << 64))} {ltok(garbage_limbs(rng, n, 1 << 64))} {mattok(rng.choice(mats))}")
        # de: modulus odd, room for (-2M, M); d, e at the ends of that interval
        for _ in range((6 if n <= 4 else 3) if q else 30):
            bits = rng.choice([2, 3, 61, 62, 63, 62 * n - 3, rng.randrange(2, 62 * n - 2)])
            bits = min(max(bits, 2), max(62 * n - 3, 2))
            M = rng.choice([(1 << bits) - 1, (1 << (bits - 1)) | 1, rng.getrandbits(bits) | 1 | (1 << (bits - 1)), 3, 1])
            if 4 * M >= (1 << (62 * n)):
                M = 1
            inv = inv62(M & M62)
            ds = [-2 * M + 1, -M, -M - 1, -1, 0, 1, M - 1, rng.randrange(-2 * M + 1, M), rng.randrange(-2 * M + 1, M)]
            E = 1 << 62
            tms = [t for t in mats if abs(t[0]) + abs(t[1]) <= E and abs(t[2]) + abs(t[3]) <= E]
            for _ in range(5 if q else 12):
                d, e = rng.choice(ds), rng.choice(ds)
                t = rng.choice(tms)
                if rng.randrange(2):
                    _, t = py_jump(M & M62, rng.getrandbits(62), rng.choice([1, 0, -2, 9]))
                op = rng.choice(["de", "bde"])
                out(f"c10.hook.{op} {ltok(to_unsat(M, n))} {i64tok(inv)} {mattok(t)} {ltok(to_unsat(d, n))} {ltok(to_unsat(e, n))}")
            # outside the contract (mirror + value arithmetic): arbitrary d, e, a wrong inverse, garbage limbs
            t = rng.choice(tms)
            out(f"c10.hook.de {ltok(to_unsat(M, n))} {i64tok(rng.getrandbits(64))} {mattok(t)} {ltok(to_unsat(rng.choice(vs), n))} {ltok(to_unsat(rng.choice(vs), n))}")
            out(f"c10.hook.bde {ltok(to_unsat(rng.choice(vs), n))} {i64tok(inv)} {mattok(t)} {ltok(to_unsat(rng.choice(vs), n))} {ltok(to_unsat(rng.choice(vs), n))}")
            out(f"c10.hook.de {ltok(garbage_limbs(rng, n, 1 << 64))} {i64tok(inv)} {mattok(t)} {ltok(garbage_limbs(rng, n, 1 << 64))} {ltok(garbage_limbs(rng, n, 1 << 64))}")
        # add / neg / shr / eq / is_negative / leading_zeros / bits / mul
        ks = [0, 1, -1, 2, -2, 1 << 62, -(1 << 62), (1 << 62) - 1, (1 << 63) - 1, -((1 << 63) - 1), 1 << 61, -(1 << 61)] + [rng.getrandbits(64) - (1 << 63) or 1 for _ in range(3)]
        sel = vs if not q else vs[:8] + rng.sample(vs[8:], min(len(vs) - 8, 10 if n <= 4 else 5))
        for a in sel:
            A = ltok(to_unsat(a, n))
            for b in {-a, a, 1, -1, rng.choice(vs), (1 << (62 * n - 1)) - 1 - a}:
                out(f"c10.hook.{rng.choice(['add', 'badd'])} {A} {ltok(to_unsat(b, n))}")
            for b in {a, a + 1, a ^ (1 << rng.randrange(62 * n)), rng.choice(vs)}:
                out(f"c10.hook.eq {A} {ltok(to_unsat(b, n))}")
            for k in (rng.sample(ks, 4) if q else ks):
                out(f"c10.hook.{rng.choice(['mul', 'bmul'])} {A} {i64tok(k)}")
            for op in ("neg", "shr", "is_negative", "lz", "bits", "bneg", "bshr", "bis_negative", "blz", "bbits"):
                out(f"c10.hook.{op} {A}")
        for _ in range(3 if q else 20):        # limbs beyond 62 bits where the operation cannot overflow a u64
            G = ltok(garbage_limbs(rng, n, 1 << 64))
            out(f"c10.hook.mul {G} {i64tok(rng.choice(ks))}")
            out(f"c10.hook.bmul {G} {i64tok(rng.choice(ks))}")
            out(f"c10.hook.shr {G}")
            out(f"c10.hook.is_negative {G}")
            out(f"c10.hook.eq {G} {G}")
            H = garbage_limbs(rng, n, (1 << 63) - 4)
            out(f"c10.hook.neg {ltok(H)}")
            out(f"c10.hook.add {ltok(H)} {ltok(garbage_limbs(rng, n, (1 << 63) - 4))}")
    # ---- divsteps (fixed and boxed, constant-time and vartime)
    for n in ([1, 2, 3, 4, 6] if q else HOOK_LIMBS):
        for _ in range((8 if n <= 3 else 4) if q else 40):
            # the documented domain: modulus and value below 2^(62 n - 64) (here - 66); now and then beyond it
            # (the arithmetic wraps modulo 2^(62 n): mirror only)
            cap = 62 * n - 66 if rng.randrange(5) else 62 * n - 3
            bits = rng.choice([2, 8, 61, 62, 63, cap, rng.randrange(2, max(cap, 3))])
            bits = min(max(bits, 2), max(cap, 2))
            M = rng.choice([(1 << bits) - 1, (1 << (bits - 1)) | 1, rng.getrandbits(bits) | 1 | (1 << (bits - 1)), 3 * 5 * 7 * 11])
            if 4 * M >= (1 << (62 * n)):
                M = 3
            inv = inv62(M & M62)
            gs = [0, 1, 2, M - 1, M, M + 1, rng.randrange(M), rng.randrange(M), (rng.randrange(M) | 1) << rng.randrange(1, 40), 3 * rng.randrange(M)]
            gs = [g for g in gs if 4 * g < (1 << (62 * n))]
            es = [1, 0, -1, M - 1, -2 * M + 1, rng.randrange(M), rng.randrange(-2 * M + 1, M)]
            for _ in range(3 if q else 8):
                g, e, vt = rng.choice(gs), rng.choice(es), rng.randrange(2)
                out(f"c10.hook.divsteps {vt} {ltok(to_unsat(e, n))} {ltok(to_unsat(M, n))} {ltok(to_unsat(g, n))} {i64tok(inv)}")
                d0 = rng.choice([0, 0, rng.randrange(-2 * M + 1, M)])
                out(f"c10.hook.bdivsteps {vt} {ltok(to_unsat(d0, n))} {ltok(to_unsat(e, n))} {ltok(to_unsat(M, n))} {ltok(to_unsat(g, n))} {i64tok(inv)}")
            g = rng.choice(gs)
            out(f"c10.hook.divsteps 1 {ltok(to_unsat(1, n))} {ltok(to_unsat(M, n))} {ltok(to_unsat(-g, n))} {i64tok(inv)}")       # negative g
            out(f"c10.hook.divsteps 1 {ltok(to_unsat(1, n))} {ltok(to_unsat(M, n))} {ltok(to_unsat(g, n))} {i64tok(rng.getrandbits(62))}")  # wrong inverse
    # ---- conversions and the inverter
    for (sat, n) in HOOK_SAT:
        W = 1 << (64 * sat)
        xs = [0, 1, W - 1, W >> 1, (W >> 1) - 1] + [1 << k for k in range(0, 64 * sat, 31)] + [(1 << k) - 1 for k in (62, 64, 124, 128, 186, 192) if k <= 64 * sat]
        xs += [rng.getrandbits(64 * sat) for _ in range(4 if q else 30)] + [value(rng, sat) for _ in range(4 if q else 30)]
        for x in xs:
            out(f"c10.hook.from_uint {sat} {n} {hx(x)}")
            out(f"c10.hook.to_uint {sat} {n} {ltok(to_unsat(x, n))}")
        top = 1 << (62 * n - 1)
        for v in [W, W + 1, top - 1, -1, -W, -top, rng.getrandbits(62 * n) - top, rng.getrandbits(62 * n - 1)]:
            out(f"c10.hook.to_uint {sat} {n} {ltok(to_unsat(v, n))}")                       # truncated / negative (debug assertion)
        out(f"c10.hook.to_uint {sat} {n} {ltok(garbage_limbs(rng, n - 1, 1 << 64) + [rng.getrandbits(61)])}")
        ms = [1, 3, W - 1, (W >> 1) + 1, rng.getrandbits(64 * sat) | 1, rng.getrandbits(rng.randrange(2, 64 * sat + 1)) | 1]
        for m in ms:
            for adj in [0, 1, m - 1, m, W - 1, rng.getrandbits(64 * sat)]:
                out(f"c10.hook.inverter {sat} {hx(m)} {hx(adj % W)}")
            nv = [-2 * m + 1, -m - 1, -m, -m + 1, -1, 0, 1, m - 1, rng.randrange(-2 * m + 1, m), rng.randrange(-2 * m + 1, m), m, -2 * m, rng.getrandbits(62 * n) - top]
            for v in nv:
                for neg in ((rng.randrange(2),) if q else (0, 1)):
                    out(f"c10.hook.norm {sat} {hx(m)} {ltok(to_unsat(v, n))} {neg}")
    out("c10.hook.from_uint 2 3 1")       # the crate's own "incorrect number of limbs" panic
    out("c10.hook.to_uint 2 3 1,0,0")
    out("c10.hook.from_uint 1 4 1")
    for sat in ([1, 2, 3, 5, 9] if q else list(range(1, 12)) + [17, 33]):
        n = nl62(sat)
        W = 1 << (64 * sat)
        for x in [0, 1, W - 1, W >> 1, rng.getrandbits(64 * sat), value(rng, sat)]:
            for nn in sorted({n, n + 1, n + rng.randrange(2, 6)}):
                out(f"c10.hook.bfrom_uint {sat} {hx(x)} {nn}")
            out(f"c10.hook.bto_uint {ltok(to_unsat(x, n))} {64 * sat}")
        out(f"c10.hook.bfrom_uint {sat} {hx(rng.getrandbits(64 * sat))} {n - 1}")          # too few limbs: debug assertion, release truncates
        top = 1 << (62 * n - 1)
        for v in [W, top - 1, -1, -top, rng.getrandbits(62 * n) - top]:
            out(f"c10.hook.bto_uint {ltok(to_unsat(v, n))} {64 * sat}")                    # truncated / negative (assert!)
        out(f"c10.hook.bto_uint {ltok(to_unsat(rng.getrandbits(62 * n - 1), n))} {64 * (sat + 1)}")    # limb count does not fit the precision
        out(f"c10.hook.bto_uint {ltok(to_unsat(rng.getrandbits(62 * n - 1), n + 1))} {64 * sat}")
        for m in [1, 3, W - 1, rng.getrandbits(64 * sat) | 1]:
            for sa in sorted({sat, 1, rng.randrange(1, sat + 1)}):
                out(f"c10.hook.binverter {sat} {hx(m)} {sa} {hx(rng.choice([0, 1, m - 1, rng.getrandbits(64 * sa)]) % (1 << (64 * sa)))}")
            for v in [-2 * m + 1, -m, -1, 0, 1, m - 1, rng.randrange(-2 * m + 1, m), m, rng.getrandbits(62 * n) - top]:
                out(f"c10.hook.bnorm {sat} {hx(m)} {ltok(to_unsat(v, n))} {rng.randrange(2)}")
    return L

def nontrivial(line):
    toks = line.split()[2:]
    return any(len(t) > 2 for t in toks)


def canon(line, out):
    """modulus 1: every x satisfies a·x ≡ 1 (mod 1) and the range clause only binds for m ≥ 2 —
    compare `is_some` only."""
    t = line.split()
    op = t[0]
    m = None
    if op in ('c10.u.inv_mod', 'c10.u.inv_mod_trait', 'c10.u.inv_odd_mod', 'c10.b.inv_mod', 'c10.b.inv_mod_trait',
              'c10.b.inv_odd_mod', 'c10.i.inv_mod', 'c10.i.inv_odd_mod'):
        m = t[3]
    elif op in ('c10.u.inverter', 'c10.b.inverter', 'c10.u.monty_inv', 'c10.b.monty_inv', 'c10.c.monty_inv'):
        m = t[2]
    elif op == 'c10.b.inv_odd_mod_mixed':
        m = t[4]
    if m == '1' and out not in ('none', 'panic') and not out.startswith(('product', 'bad', 'unknown', 'unsupported')):
        return 'some'
    return out
