"""C03 — multiplication / squaring op lines.

Directed families (property quantifier + DESIGN §6 C03):
  * Karatsuba-structured operands: at every recursion level of the fixed chains (128→64→32→16→8,
    squaring 128→64→32) and of the boxed recursion (even-floored halves down to ≤ 24 limbs) the halves
    are placed so that x0<x1 / x0>x1 is crossed with y1<y0 / y1>y0, or are equal, zero, all-ones;
    the difference |x0-x1| is itself a structured value, so the sign cases recur one level down;
  * all-ones limbs (maximal carry chains), zero halves, single set bits, products on the overflow
    boundary (exactly 2^BITS, 2^BITS-1, …) for the checked / saturating / panicking forms;
  * boxed lengths 1..=140 incl. 31/32/33, 48/49, 63/64/65, odd and unequal lengths (trailing-limb
    passes), and the "all-ones window" family aimed at the carries of adc_mul_limbs.
"""
from .common import *

RULE = ('operation lines from corpus + directed Karatsuba-structured families + seeded structured random; each line '
        'executed on the real crate in two build profiles and on the Lean model (L1) with the Nat/Int '
        'oracle (L0); distinct = distinct lines, non-trivial = some operand token longer than 2 hex digits')
ASSUMPTIONS = ['forwarding forms (operators, Wrapping, Checked, trait methods) are compared among themselves in the '
               'harness and share one model function',
               'fixed widths exercised: 1..12, 16, 32, 64, 128 and 18 mixed (lhs, rhs) pairs; boxed 1..=140 limbs',
               '`c03.hook.*` lines call adc_mul_limbs / karatsuba_mul_limbs / karatsuba_square_limbs on raw limb slices through crypto_bigint::verif_hooks (sizes below the public thresholds, arbitrary accumulators, pre-filled out/scratch)']

EQ_WIDTHS = [1, 2, 3, 4, 5, 6, 7, 8, 9, 10, 11, 12, 16, 32, 64, 128]
WIDE_SQ = {1, 2, 3, 4, 5, 6, 7, 8, 12, 16, 32, 64, 128}
MIXED = [(1, 2), (2, 1), (3, 1), (2, 4), (4, 2), (3, 5), (5, 3), (4, 8), (8, 4), (1, 8), (7, 2), (6, 10), (12, 4),
         (16, 8), (8, 16), (16, 32), (32, 16), (64, 32),
         # a dispatch width on the LEFT with a wider right operand, and on both sides of every dispatch width
         # (seed C03-m1: `LIMBS == 32 && RHS_LIMBS >= 32` sends 32 x 64 to the 32-limb Karatsuba routine)
         (16, 24), (32, 64), (64, 128), (128, 64), (64, 16)]
WIDE_MIXED = {p for p in MIXED if p[0] + p[1] <= 16}


def ones(n):
    return (1 << (64 * n)) - 1


def struct(rng, n, base, floor_even=False):
    """n-limb value whose halves (recursively, down to `base` limbs) stand in a chosen relation."""
    if n == 0:
        return 0
    size = n - (n & 1) if floor_even else n
    if size <= base or size < 2:
        return value(rng, n)
    h = size // 2
    m = 1 << (64 * h)
    kind = rng.randrange(9)
    if kind == 0:      # structured difference, x0 < x1
        d = struct(rng, h, base, floor_even) % m
        x0 = rng.randrange(0, m - d) if d < m else 0
        x1 = x0 + d
    elif kind == 1:    # structured difference, x0 > x1
        d = struct(rng, h, base, floor_even) % m
        x1 = rng.randrange(0, m - d) if d < m else 0
        x0 = x1 + d
    elif kind == 2:    # equal halves
        x0 = x1 = struct(rng, h, base, floor_even)
    elif kind == 3:    # zero low half
        x0, x1 = 0, struct(rng, h, base, floor_even)
    elif kind == 4:    # zero high half
        x0, x1 = struct(rng, h, base, floor_even), 0
    elif kind == 5:    # all ones / adjacent
        x0, x1 = m - 1, rng.choice([m - 1, m - 2, 0, 1])
    elif kind == 6:
        x0, x1 = rng.choice([m - 2, 0, 1]), m - 1
    elif kind == 7:    # halves one apart
        x0 = struct(rng, h, base, floor_even)
        x1 = (x0 + rng.choice([1, -1])) % m
    else:
        x0, x1 = struct(rng, h, base, floor_even), struct(rng, h, base, floor_even)
    v = x0 | (x1 << (64 * h))
    if size < n:       # trailing limb (boxed odd lengths)
        v |= limb_choice(rng) << (64 * size)
    return v


def signed_pair(rng, n, base, sx, sy, floor_even=False):
    """(x, y) of n limbs with sign(x0 - x1) = sx and sign(y1 - y0) = sy at the top level
    (-1, 0, +1); the absolute differences are structured values (so the cases recur below)."""
    size = n - (n & 1) if floor_even else n
    h = size // 2
    m = 1 << (64 * h)

    def halves(s):
        d = struct(rng, h, base, floor_even) % m
        if s == 0:
            a = struct(rng, h, base, floor_even)
            return a, a
        if d == 0:
            d = 1
        lo = rng.randrange(0, m - d)
        return (lo + d, lo) if s > 0 else (lo, lo + d)   # (big, small) / (small, big)

    x0, x1 = halves(sx)            # sx > 0: x0 > x1
    y1, y0 = halves(sy)            # sy > 0: y1 > y0
    x = x0 | (x1 << (64 * h))
    y = y0 | (y1 << (64 * h))
    if size < n:
        x |= limb_choice(rng) << (64 * size)
        y |= limb_choice(rng) << (64 * size)
    return x, y


def edge_values(n):
    bits = 64 * n
    vs = [0, 1, 2, ones(n), ones(n) - 1, 1 << (bits - 1), (1 << (bits - 1)) - 1, (1 << (bits - 1)) + 1]
    if n >= 2:
        h = 64 * (n // 2)
        vs += [(1 << h) - 1, 1 << h, ones(n) - ((1 << h) - 1), ((1 << h) - 1) | (1 << (bits - 1))]
    return vs


def boundary_pairs(rng, n, m):
    """products at the edge of fitting in n limbs (checked / saturating / panicking forms)"""
    bits, bm = 64 * n, 64 * m
    out = []
    for _ in range(6):
        i = rng.randrange(0, min(bits, bm - 1) + 1) if bm > 0 else 0
        j = bits - i
        if j < bm:
            out.append((1 << i, 1 << j))                 # exactly 2^BITS: overflow
            out.append(((1 << i) - 1, 1 << j))           # just below
            out.append((1 << i, (1 << j) - 1)) if j > 0 else None
        if j - 1 >= 0 and j - 1 < bm:
            out.append(((1 << i) + 1, (1 << (j - 1))))    # fits
            out.append(((1 << i) + 1, (1 << (j - 1)) + (1 << max(j - 1 - i, 0))))
    out += [(ones(n), 1), (1, min(ones(n), ones(m))), (ones(n), 0), (0, ones(m)), (ones(n), 2 % (1 << bm))]
    # small * small
    a = rng.getrandbits(max(1, bits // 2)); b = rng.getrandbits(max(1, min(bm, bits - bits // 2)))
    out.append((a, b))
    return [(a % (1 << bits), b % (1 << bm)) for a, b in out if a is not None]


def int_edges(n):
    bits = 64 * n
    mn = 1 << (bits - 1)
    return [0, 1, ones(n), mn, mn - 1, mn + 1, 2, ones(n) - 1]   # 0, 1, -1, MIN, MAX, MIN+1, 2, -2


def int_boundary(rng, n, m):
    """signed products near ±2^(BITS-1)"""
    bits, bm = 64 * n, 64 * m
    out = []
    for _ in range(6):
        i = rng.randrange(0, min(bits - 1, bm - 2) + 1) if bm >= 2 else 0
        j = bits - 1 - i
        if j <= bm - 2:
            a, b = 1 << i, 1 << j                        # |a*b| = 2^(BITS-1)
            for sa in (1, -1):
                for sb in (1, -1):
                    out.append(((sa * a) % (1 << bits), (sb * b) % (1 << bm)))
            out.append(((1 << i) % (1 << bits), ((1 << j) - 1) % (1 << bm)))
            out.append(((-(1 << i)) % (1 << bits), ((1 << j) + 1) % (1 << bm)))
    for _ in range(4):
        ka = rng.randrange(1, bits); kb = rng.randrange(1, bm)
        a = rng.getrandbits(ka) * rng.choice([1, -1]); b = rng.getrandbits(kb) * rng.choice([1, -1])
        out.append((a % (1 << bits), b % (1 << bm)))
    return out


U_BIN = ['split_mul', 'wrapping_mul', 'saturating_mul', 'checked_mul', 'mul_ops']
U_SQ = ['square_wide', 'wrapping_square', 'saturating_square', 'checked_square']
I_BIN = ['split_mul', 'checked_mul', 'mul_ops']
I_SQ = ['wrapping_square', 'saturating_square', 'checked_square']


def u_lines(rng, n, m, a, b, full):
    ops = list(U_BIN)
    if n == m:
        ops.append('checked_ops')
    if (n == m and n in WIDE_SQ) or (n, m) in WIDE_MIXED:
        ops.append('widening_mul')
    if not full:
        ops = ['split_mul', rng.choice(ops[1:])]
    for op in ops:
        yield f"c03.u.{op} {n} {m} {hx(a)} {hx(b)}"


def sq_lines(rng, n, a, full):
    ops = list(U_SQ)
    if n in WIDE_SQ:
        ops.append('widening_square')
    if not full:
        ops = ['square_wide', rng.choice(ops[1:])]
    for op in ops:
        yield f"c03.u.{op} {n} {hx(a)}"


def i_lines(rng, n, m, a, b, full):
    ops = list(I_BIN)
    if n == m:
        ops.append('checked_ops')
    if (n == m and n in WIDE_SQ) or (n, m) in WIDE_MIXED:
        ops.append('widening_mul')
    if not full:
        ops = [rng.choice(ops)]
    for op in ops:
        yield f"c03.i.{op} {n} {m} {hx(a)} {hx(b)}"


def isq_lines(rng, n, a, full):
    ops = list(I_SQ)
    if n in WIDE_SQ:
        ops.append('widening_square')
    if not full:
        ops = [rng.choice(ops)]
    for op in ops:
        yield f"c03.i.{op} {n} {hx(a)}"


def window_ones(n, m):
    """lhs n limbs (n odd ≥ 33), rhs m > n limbs: after the x•y block and the xt pass the window
    handed to adc_mul_limbs(yt, x, …) is all ones (maximal carries of the trailing pass)."""
    s = n - 1
    K = 1 << (64 * s)
    x = (K - 1) | (1 << (64 * s))
    y = (K >> 1) | (((1 << (64 * (m - s))) - 1) << (64 * s))
    return x, y


def hook_lines(tier, rng):
    """`c03.hook.*`: the crate-internal limb-slice routines through crypto_bigint::verif_hooks.
    adc_mul_limbs on ARBITRARY accumulators (all-ones, all-ones above/below the product, structured, random; lengths 0..,
      unequal) — the public API only ever passes a zero or a partially filled accumulator;
    karatsuba_mul_limbs at overlap sizes BELOW the public entry threshold (BoxedUint::mul starts it at min(len) >= 32;
      the routine itself recurses for even-floored overlaps > 24): 24..=31 one level, 50..=56 two levels, 100..=106 three;
      odd / unequal lengths with both trailing passes, the all-ones window of the trailing pass, dirty out/scratch buffers;
    karatsuba_square_limbs below BoxedUint::square's threshold of 64 (recursion for even sizes > 48), odd sizes (fallback)."""
    quick = tier == 'quick'
    W = WMAX
    # ---- adc_mul_limbs
    shapes = [(0, 0), (0, 3), (3, 0), (1, 1), (1, 2), (2, 1), (2, 2), (3, 3), (1, 8), (8, 1), (4, 7), (7, 4), (5, 5), (8, 8),
              (13, 12), (24, 24), (25, 24), (1, 33), (33, 1), (16, 40)]
    if not quick:
        shapes += [(n, m) for n in range(1, 10) for m in range(1, 10)] + [(31, 33), (48, 49), (64, 64), (2, 100), (100, 3)]
    for (n, m) in dict.fromkeys(shapes):
        t = n + m
        T = 1 << (64 * t)
        accs = [0, T - 1, (T - 1) ^ ones(m), ones(m), ones(n) << (64 * m) if t else 0, (T - 1) ^ 1, T >> 1 if t else 0]
        accs += [rng.getrandbits(64 * t) for _ in range(2 if quick else 8)] + [value(rng, t) for _ in range(2 if quick else 8)]
        xs = [ones(n), value(rng, n), rng.getrandbits(64 * n)] + ([] if quick else [0, 1 % (1 << 64 * n) if n else 0, struct(rng, n, 2), ones(n) - 1 if n else 0])
        ys = [ones(m), value(rng, m), rng.getrandbits(64 * m)] + ([] if quick else [0, 1 % (1 << 64 * m) if m else 0, struct(rng, m, 2), ones(m) - 1 if m else 0])
        for acc in dict.fromkeys(a % T for a in accs):
            for x in dict.fromkeys(xs):
                for y in dict.fromkeys(ys):
                    if (quick and t > 20 and rng.randrange(3)) or (not quick and t > 6 and rng.randrange(3)):
                        continue
                    yield f"c03.hook.adc_mul_limbs {n} {m} {hx(x)} {hx(y)} {hx(acc)}"
    # ---- karatsuba_mul_limbs
    eq = [2, 23, 24, 25, 26, 27, 28, 29, 30, 31, 32, 33, 50, 51, 52, 53, 54, 100, 104, 105]
    if not quick:
        eq = sorted(set(eq + list(range(1, 70)) + [55, 56, 98, 99, 101, 102, 103, 106, 128, 129]))
    for n in eq:
        cases = [(ones(n), ones(n)), (struct(rng, n, 24, True), struct(rng, n, 24, True)), (value(rng, n), value(rng, n))]
        if n >= 2:
            for sx in (-1, 0, 1):
                for sy in (-1, 1):
                    if quick and n > 60 and rng.randrange(2):
                        continue
                    cases.append(signed_pair(rng, n, 24, sx, sy, True))
        if not quick:
            cases += [(struct(rng, n, 24, True), struct(rng, n, 24, True)) for _ in range(4)]
        for a, b in cases:
            yield f"c03.hook.kara_mul {n} {n} {hx(a)} {hx(b)} {rng.randrange(2)}"
    uneq = [(26, 27), (27, 26), (27, 27), (27, 29), (29, 27), (26, 40), (40, 26), (27, 40), (40, 27), (31, 33), (33, 31),
            (25, 60), (60, 25), (26, 1), (1, 26), (24, 31), (31, 24), (30, 31), (31, 30), (52, 55), (55, 52), (53, 80),
            (27, 100), (100, 27)]
    if not quick:
        uneq += [(n, m) for n in range(24, 34) for m in range(24, 34) if n != m] + \
                [(rng.randrange(1, 110), rng.randrange(1, 110)) for _ in range(200)]
    for (n, m) in dict.fromkeys(uneq):
        for a, b in [(ones(n), ones(m)), (struct(rng, n, 24, True), struct(rng, m, 24, True)), (value(rng, n), value(rng, m))]:
            yield f"c03.hook.kara_mul {n} {m} {hx(a)} {hx(b)} {rng.randrange(2)}"
    # all-ones window handed to the trailing adc_mul_limbs pass (odd shorter lhs >= 27, longer rhs), and mirrored
    for (n, m) in [(27, 28), (27, 29), (29, 31), (31, 40), (27, 60), (53, 55)] + ([] if quick else [(n, n + k) for n in range(27, 64, 2) for k in (1, 2, 3, 17)]):
        x, y = window_ones(n, m)
        for a, b in ((x, y), (x - 1, y), (x, y + 1)):
            yield f"c03.hook.kara_mul {n} {m} {hx(a)} {hx(b)} 0"
            yield f"c03.hook.kara_mul {m} {n} {hx(b)} {hx(a)} 1"
    # carry leaving the yt trailing product must ripple through all-ones limbs left by the xt pass (both trailing passes run):
    # lhs = ones(s) ++ [1]*k, rhs = zeros(s) ++ [MAX]*j  (even s > 24), and mirrored
    for sz in ([26, 28, 52] if quick else range(26, 64, 2)):
        for k, j in ((2, 1), (3, 1), (3, 2), (5, 3)):
            a = ones(sz) | (sum(1 << (64 * i) for i in range(k)) << (64 * sz))
            b = ones(j) << (64 * sz)
            yield f"c03.hook.kara_mul {sz + k} {sz + j} {hx(a)} {hx(b)} 0"
            yield f"c03.hook.kara_mul {sz + j} {sz + k} {hx(b)} {hx(a)} 1"
    # ---- karatsuba_square_limbs
    sq = [1, 2, 47, 48, 49, 50, 51, 52, 54, 56, 58, 60, 62, 63, 64, 98, 100, 102, 104]
    if not quick:
        sq = sorted(set(sq + list(range(1, 70)) + [96, 97, 99, 101, 103, 128, 130]))
    for n in sq:
        vals = [ones(n), struct(rng, n, 48, False), struct(rng, n, 24, True), value(rng, n), 1 << rng.randrange(64 * n)]
        if n >= 2:
            h = n // 2
            lo, hi = rng.getrandbits(64 * h), rng.getrandbits(64 * h)
            lo, hi = min(lo, hi), max(lo, hi)
            vals += [lo | (hi << (64 * h)), hi | (lo << (64 * h)), lo | (lo << (64 * h))]     # x0 < x1, x0 > x1, x0 = x1
        if not quick:
            vals += [struct(rng, n, 48, False) for _ in range(4)]
        for a in dict.fromkeys(vals):
            yield f"c03.hook.kara_square {n} {hx(a)} {rng.randrange(2)}"


def gen(tier, rng):
    quick = tier == 'quick'
    # ---- Limb ops
    for a in EDGE_WORDS:
        for b in EDGE_WORDS:
            for op in ['saturating_mul', 'wrapping_mul', 'checked_mul', 'checked_ops', 'mul_ops']:
                yield f"c03.l.{op} {hx(a)} {hx(b)}"
    for e in [0, 1, WMAX, WMAX - 1, 1 << 63]:
        for f in [0, 1, WMAX, 1 << 32]:
            for g in [0, 1, WMAX, (1 << 32) + 1]:
                for h in [0, 1, WMAX]:
                    yield f"c03.l.mac {hx(e)} {hx(f)} {hx(g)} {hx(h)}"
    for _ in range(300 if quick else 3000):
        a, b, c, d = (limb_choice(rng) for _ in range(4))
        yield f"c03.l.mac {hx(a)} {hx(b)} {hx(c)} {hx(d)}"
        for op in ['saturating_mul', 'wrapping_mul', 'checked_mul', 'checked_ops', 'mul_ops']:
            yield f"c03.l.{op} {hx(a)} {hx(b)}"
        # products around 2^64
        i = rng.randrange(65)
        x, y = (1 << i) % B, (1 << (64 - i)) % B
        yield f"c03.l.checked_mul {hx(x)} {hx(y)}"
        yield f"c03.l.mul_ops {hx((x - 1) % B)} {hx(y)}"
        yield f"c03.l.saturating_mul {hx(x)} {hx((y - 1) % B)}"

    # ---- fixed Uint / Int, equal widths
    for n in EQ_WIDTHS:
        big = n >= 32
        full = not big
        base = 8
        reps = (24 if n >= 64 else 40) if quick else (150 if n >= 64 else 400)
        pairs = []
        ev = edge_values(n)
        for a in ev:
            for b in (ev if n <= 16 else ev[:5]):
                pairs.append((a, b))
        for sx in (-1, 0, 1):
            for sy in (-1, 0, 1):
                for _ in range((4 if quick else 12) if n >= 16 else 1):
                    pairs.append(signed_pair(rng, n, base, sx, sy) if n >= 2 else pair(rng, n))
        for _ in range(reps):
            pairs.append((struct(rng, n, base), struct(rng, n, base)))
            pairs.append(pair(rng, n))
        pairs += boundary_pairs(rng, n, n)
        for a, b in pairs:
            yield from u_lines(rng, n, n, a, b, full or (a, b) in pairs[:9])
        # squaring: the chain is 128 → 64 → 32 (base 32)
        sq = ev + [struct(rng, n, 32 if n > 32 else 1) for _ in range(reps)] + [value(rng, n) for _ in range(reps // 2)]
        sq += [(1 << (32 * n)) - 1, 1 << (32 * n), (1 << (32 * n)) + 1]      # a² at the overflow boundary
        if n >= 2:
            h = n // 2
            for s in (-1, 0, 1):
                for _ in range(3 if quick else 10):
                    sq.append(signed_pair(rng, n, 32 if n > 32 else 1, s, 0)[0])
        for a in sq:
            yield from sq_lines(rng, n, a, full)
        # Int
        ie = int_edges(n)
        ipairs = [(a, b) for a in ie for b in ie] + int_boundary(rng, n, n)
        for _ in range(reps // 2):
            x, y = struct(rng, n, base), struct(rng, n, base)
            ipairs.append((x, y))
        for a, b in ipairs:
            yield from i_lines(rng, n, n, a, b, full)
        for a in ie + [value(rng, n) for _ in range(reps // 4)] + [(1 << (32 * n)) - 1, (-(1 << (32 * n))) % (1 << (64 * n))]:
            yield from isq_lines(rng, n, a, full)

    # ---- mixed widths
    for (n, m) in MIXED:
        reps = 12 if quick else 120
        pairs = [(a, b) for a in edge_values(n)[:6] for b in edge_values(m)[:6]]
        pairs += [(value(rng, n), value(rng, m)) for _ in range(reps)]
        pairs += boundary_pairs(rng, n, m)
        for a, b in pairs:
            yield from u_lines(rng, n, m, a, b, n + m <= 24)
        ipairs = [(a, b) for a in int_edges(n)[:6] for b in int_edges(m)[:6]] + int_boundary(rng, n, m)
        ipairs += [(value(rng, n), value(rng, m)) for _ in range(reps // 2)]
        for a, b in ipairs:
            yield from i_lines(rng, n, m, a, b, n + m <= 24)

    # ---- BoxedUint
    special = [1, 2, 3, 16, 24, 25, 26, 31, 32, 33, 34, 35, 47, 48, 49, 50, 51, 52, 63, 64, 65, 66, 67, 96, 97, 98, 99,
               100, 101, 102, 103, 127, 128, 129, 130, 131, 139, 140]
    lens = list(range(1, 141)) if not quick else sorted(set(special + [rng.randrange(1, 141) for _ in range(12)]))
    for n in lens:
        reps = 2 if quick else 6
        for _ in range(reps):
            a, b = struct(rng, n, 24, True), struct(rng, n, 24, True)
            yield f"c03.b.mul {n} {n} {hx(a)} {hx(b)}"
            yield f"c03.b.square {n} {hx(a)}"
        for sx in (-1, 0, 1):
            for sy in (-1, 1):
                if n >= 2:
                    a, b = signed_pair(rng, n, 24, sx, sy, True)
                    yield f"c03.b.mul {n} {n} {hx(a)} {hx(b)}"
        yield f"c03.b.mul {n} {n} {hx(ones(n))} {hx(ones(n))}"
        yield f"c03.b.square {n} {hx(ones(n))}"
        yield f"c03.b.square {n} {hx(struct(rng, n, 48, False))}"
        yield f"c03.b.square {n} {hx(1 << rng.randrange(64 * n))}"
        a, b = value(rng, n), value(rng, n)
        yield f"c03.b.wrapping_mul {n} {n} {hx(a)} {hx(b)}"
        for (x, y) in boundary_pairs(rng, n, n)[:4] + [(a, b)]:
            yield f"c03.b.checked_mul {n} {n} {hx(x)} {hx(y)}"
            yield f"c03.b.mul_ref {n} {n} {hx(x)} {hx(y)}"
    # unequal lengths: trailing-limb passes on either side
    upairs = [(33, 34), (34, 33), (33, 35), (35, 33), (32, 33), (33, 32), (32, 64), (64, 32), (33, 64), (64, 33),
              (33, 100), (100, 33), (49, 51), (51, 49), (51, 100), (100, 51), (63, 65), (65, 63), (64, 65), (65, 140),
              (140, 65), (1, 140), (140, 1), (31, 140), (140, 31), (32, 140), (140, 32), (99, 140), (140, 99), (139, 140),
              (5, 3), (1, 1), (2, 40), (40, 2), (24, 80), (26, 80), (48, 49), (49, 48), (50, 52), (52, 50)]
    for _ in range(20 if quick else 400):
        upairs.append((rng.randrange(1, 141), rng.randrange(1, 141)))
    for (n, m) in upairs:
        for _ in range(2 if quick else 5):
            a, b = struct(rng, n, 24, True), struct(rng, m, 24, True)
            yield f"c03.b.mul {n} {m} {hx(a)} {hx(b)}"
        yield f"c03.b.mul {n} {m} {hx(ones(n))} {hx(ones(m))}"
        yield f"c03.b.mul {n} {m} {hx(value(rng, n))} {hx(value(rng, m))}"
        a, b = value(rng, n), value(rng, m)
        yield f"c03.b.wrapping_mul {n} {m} {hx(a)} {hx(b)}"
        for (x, y) in boundary_pairs(rng, n, m)[:3] + [(a, b)]:
            yield f"c03.b.checked_mul {n} {m} {hx(x)} {hx(y)}"
            yield f"c03.b.mul_ref {n} {m} {hx(x)} {hx(y)}"
    # all-ones window handed to the trailing adc_mul_limbs pass (odd shorter lhs, longer rhs), and mirrored
    for (n, m) in [(33, 34), (33, 35), (33, 40), (35, 37), (51, 100), (65, 67), (99, 140)] + ([] if quick else [(n, n + k) for n in range(33, 100, 2) for k in (1, 2, 3, 17)]):
        if m > 140:
            continue
        x, y = window_ones(n, m)
        yield f"c03.b.mul {n} {m} {hx(x)} {hx(y)}"
        yield f"c03.b.mul {m} {n} {hx(y)} {hx(x)}"
        yield f"c03.b.mul {n} {m} {hx(x - 1)} {hx(y)}"
        yield f"c03.b.mul {n} {m} {hx(x)} {hx(y + 1)}"

    # ---- crate-internal routines through crypto_bigint::verif_hooks (emitted last from their own PRNG stream: the
    #      public lines above are the same as before the hooks existed)
    yield from hook_lines(tier, random.Random(rng.getrandbits(32)))


def nontrivial(line):
    toks = line.split()[1:]
    return any(len(t) > 2 for t in toks)
