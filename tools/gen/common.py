"""Shared generator helpers. Every random choice derives from one random.Random(seed)."""
import random

B = 1 << 64
WMAX = B - 1

def hx(v):
    return format(v, 'x')

def limb_choice(rng):
    k = rng.randrange(10)
    if k == 0: return 0
    if k == 1: return 1
    if k == 2: return WMAX
    if k == 3: return WMAX - 1
    if k == 4: return 1 << 63
    if k == 5: return 1 << rng.randrange(64)
    if k == 6: return (1 << rng.randrange(1, 64)) - 1
    if k == 7: return rng.getrandbits(rng.randrange(1, 65))
    return rng.getrandbits(64)

def value(rng, n):
    """structured value of n limbs: per limb an independent edge-biased choice"""
    k = rng.randrange(12)
    bits = 64 * n
    if n == 0: return 0
    if k == 0: return 0
    if k == 1: return 1
    if k == 2: return (1 << bits) - 1
    if k == 3: return 1 << rng.randrange(bits)
    if k == 4: return (1 << rng.randrange(1, bits + 1)) - 1
    if k == 5: return rng.getrandbits(bits)
    if k == 6:  # alternating 0 / MAX limbs
        v = 0
        for i in range(n):
            if (i + k) % 2 == rng.randrange(2): v |= WMAX << (64 * i)
        return v
    if k == 7:  # zero high limbs
        m = rng.randrange(1, n + 1)
        return value(rng, m)
    v = 0
    for i in range(n):
        v |= limb_choice(rng) << (64 * i)
    return v

def pair(rng, n):
    """pair of n-limb values: independent, equal, +-1 apart, complementary"""
    a = value(rng, n)
    m = (1 << (64 * n))
    k = rng.randrange(8)
    if k == 0: return a, a
    if k == 1: return a, (a + 1) % m
    if k == 2: return a, (a - 1) % m
    if k == 3: return a, (m - a) % m          # a + b = 2^BITS
    if k == 4: return a, (m - 1 - a)          # a + b = 2^BITS - 1
    if k == 5: return a, (m + 1 - a) % m
    return a, value(rng, n)

EDGE_WORDS = [0, 1, 2, 3, WMAX, WMAX - 1, 1 << 63, (1 << 63) - 1, (1 << 63) + 1, 1 << 32, (1 << 32) - 1]

FIXED_QUICK = [1, 2, 3, 4, 6, 8, 16]
FIXED_THOROUGH = [1, 2, 3, 4, 5, 6, 7, 8, 12, 16, 32]
