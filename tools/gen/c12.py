"""C12 — producers of NonZero<T> / Odd<T>: operation lines.

Families (property quantifier): 0, 1, 2, MAX, even and odd values in both byte orders, all-zero and garbage
encodings, RNG streams incl. all-zero words; every producer for T in {Limb, Uint<1|2|4>, Int<1|2|4>,
BoxedUint 1..=4 limbs}.  The first line is the producer-inventory comparison (tools/c12_inventory.py):
quick = source grep, thorough = rustdoc JSON of a scratch copy of the crate.
"""
import json, os, sys
from .common import *

sys.path.insert(0, os.path.dirname(os.path.dirname(os.path.abspath(__file__))))
import c12_inventory

RULE = ('operation lines = inventory line + corpus + directed families (0/1/2/MAX/even/odd in both byte orders, zero and garbage '
        'encodings, zero-prefixed RNG streams) + seeded random, over every producer of NonZero/Odd for Limb, Uint<1|2|4>, '
        'Int<1|2|4>, BoxedUint(1..4 limbs); each line runs on the crate (release + dbgchk) and on the Lean model, which prints '
        'L1 (code as written) ;; L0 (what the property demands); non-trivial = line has an operand token longer than 2 characters')
ASSUMPTIONS = ['bincode 1.x framing of serdect byte arrays (u64 length prefix, trailing bytes ignored) is mirrored, not verified',
               'the RNG is the harness\'s buffer-fed TryRngCore/RngCore (8-byte little-endian words, one word per <=8-byte fill chunk)',
               'human-readable serde formats are not exercised (no such format crate is available offline)']

WIDTHS = [1, 2, 4]


def xb(b):
    return 'x' + bytes(b).hex()


def xt(s):
    return 'x' + s.encode('utf-8').hex()


def vals(rng, n, k):
    m = 1 << (64 * n)
    out = [0, 1, 2, 3, 4, m - 1, m - 2, m >> 1, (m >> 1) - 1, (m >> 1) + 1, 0xff, 0x100, 1 << 63, (1 << 64) - 1]
    if n > 1:
        out += [1 << 64, (1 << 64) + 1, 1 << (64 * (n - 1)), (1 << (64 * (n - 1))) + 1, ((m - 1) >> 64) << 64, 2 << 64,
                (1 << (64 * n - 1)) | 1, 1 << 65]
    out = [v % m for v in out]
    out += [value(rng, n) for _ in range(k)]
    return out


def inventory_line(tier):
    mode = 'rustdoc' if tier == 'thorough' else 'grep'
    try:
        missing, stale, inv = c12_inventory.compare(mode)
    except Exception as e:  # nightly rustdoc unavailable: fall back to the source grep, say so
        print(f'[c12] inventory mode {mode} failed ({str(e)[:200]}); falling back to grep', file=sys.stderr)
        mode = 'grep-fallback'
        missing, stale, inv = c12_inventory.compare('grep')
    ev = os.path.join(c12_inventory.VERIF, 'evidence', 'aux')     # not an evidence/<id>.json file: kept out of that directory's top level
    try:
        os.makedirs(ev, exist_ok=True)
        json.dump(dict(mode=mode, items=len(inv), missing=missing, stale=stale, inventory=inv),
                  open(os.path.join(ev, 'C12-inventory.json'), 'w'), indent=1, sort_keys=True)
    except OSError:
        pass
    if missing:
        return 'c12.inventory ' + c12_inventory.token(missing)
    return f'c12.inventory.ok {len(inv)} {mode}'


def streams(rng, n, reps):
    """word streams for an n-limb rejection sampler"""
    z = [0] * 8
    out = [[], [0], [1], [WMAX]]
    for zeros in range(0, 3 * n + 2):
        out.append([0] * zeros)
        out.append([0] * zeros + [1])
        out.append([0] * zeros + [1 << 63] + [0] * n)
        out.append([0] * zeros + [rng.getrandbits(64) for _ in range(n)])
    for g in range(0, 4):
        grp = [0] * (n * g)
        for pos in range(n):
            w = [0] * n
            w[pos] = rng.choice([1, 2, 1 << 63, WMAX])
            out.append(grp + w)
            out.append(grp + w[:pos + 1])          # truncated inside the deciding group
    for _ in range(reps):
        ln = rng.randrange(0, 4 * n + 2)
        out.append([rng.choice([0, 0, 0, 1, 2, WMAX, rng.getrandbits(64)]) for _ in range(ln)])
    return out


def wtok(ws):
    return 'x' + b''.join(w.to_bytes(8, 'little') for w in ws).hex()


def frame(payload, ln=None):
    return (len(payload) if ln is None else ln).to_bytes(8, 'little') + payload


def gen(tier, rng):
    reps = 12 if tier == 'quick' else 150
    lines = []
    Y = lines.append
    Y(inventory_line(tier))

    # ------------------------------------------------------------ Limb
    lv = [0, 1, 2, 3, WMAX, WMAX - 1, 1 << 63, 0xff, 0x100, 1 << 32] + [limb_choice(rng) for _ in range(reps)]
    for v in lv:
        for op in ['new', 'new_unwrap', 'to_nz', 'to_nz_expect', 'zeroize', 'as_ref', 'ser']:
            Y(f'c12.nz.l.{op} {hx(v)}')
        for order in ['big', 'little']:
            b = v.to_bytes(8, order)
            Y(f'c12.nz.l.from_be_bytes {xb(b)}')
            Y(f'c12.nz.l.from_le_bytes {xb(b)}')
        Y(f'c12.nz.l.deser {xb(v.to_bytes(8, "little"))}')
        Y('c12.nz.l.deser ' + xb(v.to_bytes(8, 'little') + bytes([0x99])))
        Y(f'c12.nz.l.deser {xb(v.to_bytes(8, "little")[:rng.randrange(8)])}')
    for bits in [8, 16, 32, 64]:
        for v in [0, 1, 2, (1 << bits) - 1, (1 << bits) - 2, 1 << (bits - 1)] + [rng.getrandbits(bits) for _ in range(4)]:
            Y(f'c12.nz.l.from_prim {bits} {hx(v)}')
            Y(f'c12.nz.l.from_into {bits} {hx(v)}')
    for c in ['one', 'max']:
        Y(f'c12.nz.l.const {c}')
    Y('c12.nz.l.default')
    Y('c12.odd.l.default')
    Y('c12.odd.l.as_ref')
    Y('c12.odd.l.ser')
    for _ in range(reps * 2):
        a, b = rng.choice(lv), rng.choice(lv)
        for op in ['select', 'cassign', 'cswap']:
            Y(f'c12.nz.l.{op} {hx(a)} {hx(b)} {rng.randrange(2)}')
    for s in streams(rng, 1, reps):
        Y(f'c12.nz.l.random {wtok(s)}')
        Y(f'c12.nz.l.random_inf {wtok(s)}')

    # ------------------------------------------------------------ Uint<n>, Int<n>
    for n in WIDTHS:
        m = 1 << (64 * n)
        vs = vals(rng, n, reps)
        for v in vs:
            h = hx(v)
            for op in ['nz.u.new', 'nz.u.new_unwrap', 'nz.u.to_nz', 'nz.u.to_nz_expect', 'nz.u.zeroize', 'nz.u.clone',
                       'nz.i.new', 'nz.i.to_nz', 'nz.i.abs_sign',
                       'odd.u.new', 'odd.u.to_odd', 'odd.u.to_odd_expect', 'odd.i.to_odd', 'odd.u.as_nz_ref', 'odd.u.as_ref_nz',
                       'odd.u.zeroize', 'odd.u.clone', 'odd.u.into_boxed', 'odd.u.ref_into_boxed', 'odd.u.monty_modulus',
                       # coverage round: observers (AsRef<T>, AsRef<[Limb]>, Serialize + round trip through Deserialize)
                       'nz.u.as_ref', 'nz.i.as_ref', 'odd.u.as_ref', 'odd.i.as_ref', 'odd.u.as_ref_limbs', 'odd.i.as_ref_limbs',
                       'nz.u.ser', 'odd.u.ser']:
                Y(f'c12.{op} {n} {h}')
            # the value written in BOTH byte orders, fed to BOTH decoders (bytes, arrays, hex, serde)
            for order in ['big', 'little']:
                b = v.to_bytes(8 * n, order)
                for op in ['from_be_bytes', 'from_le_bytes', 'from_be_byte_array', 'from_le_byte_array']:
                    Y(f'c12.nz.u.{op} {n} {xb(b)}')
                t = b.hex()
                for tt in {t, t.upper(), ''.join(c.upper() if rng.randrange(2) else c for c in t)}:
                    Y(f'c12.odd.u.from_be_hex {n} {xt(tt)}')
                    Y(f'c12.odd.u.from_le_hex {n} {xt(tt)}')
            le = v.to_bytes(8 * n, 'little')
            for op in ['nz.u.deser', 'odd.u.deser']:
                Y(f'c12.{op} {n} {xb(frame(le))}')
                Y(f'c12.{op} {n} {xb(frame(le) + bytes([rng.randrange(256)]))}')
        for c in ['one', 'max']:
            Y(f'c12.nz.u.const {n} {c}')
            Y(f'c12.nz.i.const {n} {c}')
        for op in ['nz.u.default', 'nz.i.default', 'odd.u.default', 'odd.i.default', 'odd.u.default_as_nz']:
            Y(f'c12.{op} {n}')
        for bits in [8, 16, 32, 64, 128]:
            for v in [0, 1, 2, (1 << bits) - 1, (1 << bits) - 2, 1 << (bits - 1)] + [rng.getrandbits(bits) for _ in range(4)]:
                if v >= m and not (bits == 128 and n == 1):
                    continue
                Y(f'c12.nz.u.from_prim {n} {bits} {hx(v)}')
                Y(f'c12.nz.u.from_into {n} {bits} {hx(v)}')
        # garbage / malformed encodings
        L = 8 * n
        garb = [bytes(L), bytes([0xff]) * L, bytes([0] * (L - 1) + [1]), bytes([1] + [0] * (L - 1)), bytes([0] * (L - 1) + [2]),
                bytes([2] + [0] * (L - 1)), bytes([0x80] + [0] * (L - 1)), bytes([0] * (L - 1) + [0x80])]
        garb += [bytes(rng.randrange(256) for _ in range(L)) for _ in range(reps)]
        for b in garb:
            for op in ['from_be_bytes', 'from_le_bytes', 'from_be_byte_array', 'from_le_byte_array']:
                Y(f'c12.nz.u.{op} {n} {xb(b)}')
        good = ('0' * (16 * n - 1)) + '1'
        bad_text = ['', '1', good[1:], good + '0', good + '00', good[2:], 'g' + good[1:], good[:-1] + 'g', good[:-1] + 'G',
                    good[:-1] + ' ', good[:-1] + '/', good[:-1] + ':', good[:-1] + '@', good[:-1] + '`', 'x' + good[1:],
                    '+' + good[1:], good[:-2] + 'é', '0x' + good[2:], good[:-1] + '\n', 'Z' * (16 * n), '-' + good[1:]]
        for t in bad_text:
            Y(f'c12.odd.u.from_be_hex {n} {xt(t)}')
            Y(f'c12.odd.u.from_le_hex {n} {xt(t)}')
        for _ in range(reps):
            t = ''.join(rng.choice('0123456789abcdefABCDEF' + 'gz !') if rng.randrange(12) == 0 else rng.choice('0123456789abcdef')
                        for _ in range(16 * n))
            Y(f'c12.odd.u.from_be_hex {n} {xt(t)}')
            Y(f'c12.odd.u.from_le_hex {n} {xt(t)}')
        one = (1).to_bytes(L, 'little')
        bad_frames = [b'', b'\x08', frame(one)[:7], frame(one)[:8], frame(one)[:-1], frame(one, L - 1), frame(one, L + 1),
                      frame(one + b'\x07', L + 1), frame(one[:-1], L - 1), frame(one, 0), frame(b'', 0), frame(one, 1 << 63),
                      frame(one, (1 << 64) - 1), frame(one + one, 2 * L), frame(bytes(L)), frame(bytes(L - 1) + b'\x01'),
                      frame(bytes([2]) + bytes(L - 1)), one, bytes(L + 8)]
        bad_frames += [bytes(rng.randrange(256) for _ in range(rng.randrange(0, L + 12))) for _ in range(reps)]
        for f in bad_frames:
            Y(f'c12.nz.u.deser {n} {xb(f)}')
            Y(f'c12.odd.u.deser {n} {xb(f)}')
        # selection between (valid / invalid) values
        for _ in range(reps * 3):
            a, b = rng.choice(vs), rng.choice(vs)
            c = rng.randrange(2)
            for op in ['nz.u.select', 'nz.u.cassign', 'nz.u.cswap', 'nz.i.select', 'odd.u.select', 'odd.u.cassign', 'odd.u.cswap',
                       'odd.i.select']:
                Y(f'c12.{op} {n} {hx(a)} {hx(b)} {c}')
            a, b = a | 1, b | 1
            for op in ['odd.u.select', 'odd.u.cswap', 'odd.i.select', 'nz.u.select']:
                Y(f'c12.{op} {n} {hx(a)} {hx(b)} {c}')
        for s in streams(rng, n, reps):
            for op in ['nz.u.random', 'nz.u.random_inf', 'nz.i.random', 'odd.u.random', 'odd.u.random_inf']:
                Y(f'c12.{op} {n} {wtok(s)}')

    # ------------------------------------------------------------ BoxedUint, 1..=4 limbs
    for k in [1, 2, 3, 4]:
        for v in vals(rng, k, reps):
            for op in ['nz.b.new', 'nz.b.clone', 'nz.b.zeroize', 'odd.b.new', 'odd.b.to_odd', 'odd.b.as_nz_ref', 'odd.b.clone',
                       'odd.b.zeroize', 'odd.b.monty_modulus', 'nz.b.as_ref', 'odd.b.as_ref', 'odd.b.as_ref_limbs']:
                Y(f'c12.{op} {k} {hx(v)}')
            for bits in {0, 1, 63, 64, 65, 64 * k - 1, 64 * k, 64 * k + 1, 64 * k + 64, 256, 257, 320, rng.randrange(0, 400)}:
                Y(f'c12.nz.b.widen {k} {hx(v)} {bits}')
    Y('c12.odd.b.default')
    for bits in [0, 1, 2, 31, 32, 33, 63, 64, 65, 95, 96, 97, 127, 128, 129, 160, 161, 192, 193, 224, 255, 256] + \
            [rng.randrange(0, 257) for _ in range(reps)]:
        k = (bits + 63) // 64
        for s in [[], [0] * k, [WMAX] * k, [0] * (k + 1), [WMAX] * max(k - 1, 0), [0xeeeeeeeeeeeeeeee, 0xdddddddddddddddd, 0xcccccccccccccccc, 0xbbbbbbbbbbbbbbbb][:k],
                  [rng.getrandbits(64) for _ in range(k)], [rng.getrandbits(64) for _ in range(rng.randrange(0, 6))],
                  [rng.getrandbits(64) & ~1 for _ in range(k + 1)]]:
            Y(f'c12.odd.b.random {bits} {wtok(s)}')

    # every op named by the producer list must have been exercised (generator self-check)
    known = json.load(open(c12_inventory.PRODUCERS))
    named = {o for part in ('rustdoc', 'grep') for e in known[part].values() for o in e.get('ops', [])}
    emitted = {l.split()[0] for l in lines}
    lacking = sorted(named - emitted)
    if lacking:
        raise RuntimeError('c12 generator does not exercise ops named in c12_producers.json: ' + ', '.join(lacking))
    return lines


def nontrivial(line):
    return any(len(t) > 2 for t in line.split()[1:])
