"""C01 value correspondence: op lines for every function of the leakage model (lean/CB/Model/LeakOps.lean).

`c01.leak.<fn> …` runs the leak-model function in the Lean driver (printing `L1 ;; L0`) and the real public function in
the harness.  Edge-biased operands at the widths 1,2,3,4,6,8 (+16,32, and 64/128 where Karatsuba switches algorithm)."""
from .common import *

W_SMALL = [1, 2, 3, 4, 6, 8]
W_ALL = [1, 2, 3, 4, 6, 8, 16, 32]

def rnd_odd(rng, n):
    return value(rng, n) | 1

def modulus(rng, n):
    """a non-zero modulus, edge biased"""
    m = 1 << (64 * n)
    k = rng.randrange(8)
    if k == 0: return m - 1
    if k == 1: return (m >> 1) + 1
    if k == 2: return 3
    if k == 3: return m - rng.randrange(1, 1000)
    p = value(rng, n)
    return p if p > 1 else 2

def below(rng, n, p):
    k = rng.randrange(6)
    if k == 0: return 0
    if k == 1: return p - 1
    if k == 2: return p // 2
    if k == 3: return 1 % p
    return value(rng, n) % p

def shifts(rng, n, cnt):
    bits = 64 * n
    s = {0, 1, 63, 64, 65, bits - 1, bits, bits + 1, bits // 2, 2 * bits - 1}
    while len(s) < cnt + 10:
        s.add(rng.randrange(0, bits + 3))
    return sorted(x for x in s if x >= 0)

def ivals(rng, n, cnt):
    m = 1 << (64 * n)
    h = m >> 1
    v = [0, 1, m - 1, h, h - 1, h + 1, 2, m - 2, 3, m - 3]
    v += [value(rng, n) for _ in range(cnt)]
    return v

def gen(tier, rng):
    q = tier == 'quick'
    reps = 12 if q else 120
    small = W_SMALL
    allw = W_ALL
    # ---- limb
    for a in EDGE_WORDS:
        for b in EDGE_WORDS:
            yield f"c01.leak.limb {hx(a)} {hx(b)} {hx(rng.choice(EDGE_WORDS))} {hx(rng.choice(EDGE_WORDS))}"
    for _ in range(reps * 20):
        yield "c01.leak.limb " + " ".join(hx(limb_choice(rng)) for _ in range(4))
    for d in [1 << 63, WMAX, (1 << 63) + 1, WMAX - 1] + [limb_choice(rng) | (1 << 63) for _ in range(reps * 5)]:
        yield f"c01.leak.reciprocal {hx(d)}"
    # ---- per width
    for n in allw:
        m = 1 << (64 * n)
        big = n >= 16
        r = max(3, reps // (4 if big else 1))
        directed = [(0, 0), (m - 1, m - 1), (m - 1, 1), (1, m - 1), (m // 2, m // 2), (0, m - 1), (m - 1, 0)]
        pairs = directed + [pair(rng, n) for _ in range(r)]
        for a, b in pairs:
            yield f"c01.leak.ucmp {n} {hx(a)} {hx(b)} {rng.randrange(2)}"
            yield f"c01.leak.cmp_vartime {n} {hx(a)} {hx(b)}"
            yield f"c01.leak.addsub {n} {hx(a)} {hx(b)} {hx(rng.choice([0, 1, 2, WMAX, 1 << 63, limb_choice(rng)]))}"
            yield f"c01.leak.mul_forms {n} {hx(a)} {hx(b)}"
            yield f"c01.leak.split_mul {n} {n} {hx(a)} {hx(b)}"
            yield f"c01.leak.int_arith {n} {hx(a)} {hx(b)}"
            if n <= 16:
                yield f"c01.leak.concat_split {n} {hx(a)} {hx(b)}"
                yield f"c01.leak.int_mul {n} {n} {hx(a)} {hx(b)}"
        # Karatsuba sign cases: x0 <> x1, y0 <> y1 in every combination, and equal halves
        if n % 2 == 0:
            hlf = 1 << (32 * n)
            for xa, xb in [(0, hlf - 1), (hlf - 1, 0), (5, 5), (hlf - 1, hlf - 1), (1, 2), (2, 1)]:
                for ya, yb in [(0, hlf - 1), (hlf - 1, 0), (7, 7), (1, 2), (2, 1)]:
                    yield f"c01.leak.split_mul {n} {n} {hx(xa + hlf * xb)} {hx(ya + hlf * yb)}"
                yield f"c01.leak.square_wide {n} {hx(xa + hlf * xb)}"
        vals = [0, 1, m - 1, m // 2, m // 2 - 1, m - 2] + [value(rng, n) for _ in range(r)]
        for a in vals:
            yield f"c01.leak.square_wide {n} {hx(a)}"
            yield f"c01.leak.shr1 {n} {hx(a)}"
            yield f"c01.leak.sqrt {n} {hx(a)}" if not big or rng.randrange(4) == 0 else f"c01.leak.shr1 {n} {hx(a)}"
            for s in rng.sample(shifts(rng, n, 6), 4 if q else 10):
                yield f"c01.leak.shl {n} {hx(a)} {s}"
                yield f"c01.leak.shr {n} {hx(a)} {s}"
                yield f"c01.leak.shl_vartime {n} {hx(a)} {s}"
                yield f"c01.leak.shr_vartime {n} {hx(a)} {s}"
                yield f"c01.leak.int_shr {n} {hx(a)} {s}"
            for s in rng.sample([0, 1, 31, 32, 62, 63], 3):
                yield f"c01.leak.shl_limb {n} {hx(a)} {s}"
            for i in rng.sample([0, 1, 63, 64, 64 * n - 1, 64 * n, 64 * n + 1, rng.randrange(64 * n)], 3):
                yield f"c01.leak.bits {n} {hx(a)} {i} {rng.randrange(2)}"
            d = rng.choice([1, 2, 3, WMAX, 1 << 63, (1 << 63) + 1, limb_choice(rng) or 1])
            yield f"c01.leak.div_rem_limb {n} {hx(a)} {hx(d)}"
        for _ in range(r):
            p = modulus(rng, n)
            a, b = below(rng, n, p), below(rng, n, p)
            yield f"c01.leak.modarith {n} {hx(a)} {hx(b)} {hx(p)}"
            # sub_mod_with_carry: v = a + c*2^BITS with -p < v - b < p
            bb = rng.choice([p, below(rng, n, p), p - 1])
            lo, hi = max(0, bb - p + 1), min(2 * m - 1, bb + p - 1)
            v = rng.choice([lo, hi, rng.randrange(lo, hi + 1)])
            yield f"c01.leak.sub_mod_with_carry {n} {hx(v % m)} {v // m} {hx(bb % m)} {hx(p)}"
        # division: every divisor length, dividends around multiples of the divisor
        for _ in range(max(2, r // (2 if big else 1))):
            a = value(rng, n)
            dl = rng.randrange(1, n + 1)
            d = value(rng, dl) or 1
            if rng.randrange(3) == 0:
                d |= 1 << (64 * dl - 1)
            yield f"c01.leak.div_rem {n} {hx(a)} {hx(d)}"
            k = rng.randrange(0, (m - 1) // d + 1)
            for t in (k * d, max(0, k * d - 1), min(m - 1, k * d + d - 1)):
                yield f"c01.leak.div_rem {n} {hx(t)} {hx(d)}"
    # mixed-width multiplication (schoolbook with different operand sizes), Karatsuba sizes 64 (mul) and 64/128 (square)
    for n, k in [(1, 2), (2, 1), (3, 5), (4, 2), (16, 8), (8, 16), (16, 32), (17, 17)]:
        for _ in range(4 if q else 20):
            yield f"c01.leak.split_mul {n} {k} {hx(value(rng, n))} {hx(value(rng, k))}"
        yield f"c01.leak.split_mul {n} {k} {hx((1 << (64 * n)) - 1)} {hx((1 << (64 * k)) - 1)}"
    for _ in range(2 if q else 10):
        yield f"c01.leak.split_mul 64 64 {hx(value(rng, 64))} {hx(value(rng, 64))}"
        yield f"c01.leak.square_wide 64 {hx(value(rng, 64))}"
        yield f"c01.leak.square_wide 128 {hx(value(rng, 128))}"
    yield f"c01.leak.split_mul 64 64 {hx((1 << 4096) - 1)} {hx((1 << 4096) - 1)}"
    yield f"c01.leak.square_wide 128 {hx((1 << 8192) - 1)}"
    # ---- small widths only: inversion mod 2^k, Montgomery forms, signed division
    for n in small:
        m = 1 << (64 * n)
        r = reps
        for _ in range(r):
            a = rng.choice([1, 3, m - 1, rnd_odd(rng, n), value(rng, n), 2, 0])
            for k in rng.sample([0, 1, 2, 63, 64, 65, 64 * n - 1, 64 * n, rng.randrange(64 * n + 1)], 3):
                yield f"c01.leak.inv_mod2k {n} {hx(a)} {k}"
        for _ in range(max(2, r // 3)):
            p = rng.choice([m - 1, rnd_odd(rng, n), 3, (m >> 1) + 1, m - rng.randrange(1, 500, 2) - 1 | 1])
            if p < 3: p = 3
            x, e = below(rng, n, p), rng.choice([0, 1, 2, 15, 16, 17, (1 << 64) - 1, value(rng, n)])
            for eb in rng.sample(sorted({t for t in [0, 1, 3, 4, 5, 8, 63, 64, 65, 64 * n - 1, 64 * n] if t <= 64 * n}), 3):
                yield f"c01.leak.monty {n} {hx(x)} {hx(e % p)} {hx(p)} {eb}"
        iv = ivals(rng, n, r)
        for a in iv:
            d = rng.choice(iv)
            yield f"c01.leak.int_checked_div {n} {hx(a)} {hx(d)}"
            yield f"c01.leak.int_checked_div {n} {hx(a)} 0"
            if d != 0:
                yield f"c01.leak.int_div {n} {hx(a)} {hx(d)}"
                yield f"c01.leak.int_div_uint {n} {hx(a)} {hx(d)}"
            # short divisors / exact multiples
            d2 = rng.choice([1, m - 1, 2, m - 2, (m >> 1), limb_choice(rng) or 1])
            yield f"c01.leak.int_div {n} {hx(a)} {hx(d2)}"
            yield f"c01.leak.int_div_uint {n} {hx(a)} {hx(d2)}"
    # ---- BoxedUint: any two precisions
    blens = [1, 2, 3, 4, 6, 8] if q else [1, 2, 3, 4, 5, 6, 7, 8, 12, 16]
    for na in blens:
        ma = 1 << (64 * na)
        for nb in sorted({na, 1, max(1, na - 1), na + 1, 2}):
            mb = 1 << (64 * nb)
            k = min(na, nb)
            ps = [(ma - 1, mb - 1), (0, 0), (ma - 1, 1), (1, mb - 1), ((1 << (64 * k)) - 1, (1 << (64 * k)) - 1), (5, 5)]
            ps += [(value(rng, na), value(rng, nb)) for _ in range(4 if q else 12)]
            ps += [pair(rng, k) for _ in range(3)]
            for a, b in ps:
                a %= ma; b %= mb
                yield f"c01.leak.boxed_addsub {na} {hx(a)} {nb} {hx(b)} {hx(rng.choice([0, 1, WMAX, 1 << 63, 2]))}"
                yield f"c01.leak.boxed_mul {na} {hx(a)} {nb} {hx(b)}"
                if nb <= na:
                    yield f"c01.leak.boxed_assign {na} {hx(a)} {nb} {hx(b)} {hx(rng.choice([0, 1, WMAX, 1 << 63]))} {rng.randrange(2)}"
        vals = [0, 1, ma - 1, ma // 2] + [value(rng, na) for _ in range(reps // 2)]
        for a in vals:
            b = rng.choice(vals)
            yield f"c01.leak.boxed_ct {na} {hx(a)} {hx(b)} {rng.randrange(2)}"
            yield f"c01.leak.boxed_square {na} {hx(a)}"
            for s in rng.sample(shifts(rng, na, 6), 4):
                yield f"c01.leak.boxed_shift {na} {hx(a)} {s}"
            for i in rng.sample([0, 1, 63, 64, 64 * na - 1, 64 * na, rng.randrange(64 * na)], 3):
                yield f"c01.leak.boxed_bits {na} {hx(a)} {i} {rng.randrange(2)}"
            for k in rng.sample([0, 1, 2, 63, 64, 65, 64 * na - 1, 64 * na, rng.randrange(64 * na + 1)], 2):
                yield f"c01.leak.boxed_inv_mod2k {na} {hx(a)} {k}"
                yield f"c01.leak.boxed_inv_mod2k {na} {hx(a | 1)} {k}"
            p = modulus(rng, na)
            yield f"c01.leak.boxed_modarith {na} {hx(below(rng, na, p))} {hx(below(rng, na, p))} {hx(p)}"
    # boxed Karatsuba: from 32 limbs (mul) / 64 limbs (square); odd lengths, unequal lengths, trailing limbs
    for na, nb in [(32, 32), (33, 40), (70, 35), (64, 64), (51, 52), (100, 32), (32, 100), (65, 66), (31, 40), (50, 50)]:
        for _ in range(1 if q else 4):
            yield f"c01.leak.boxed_mul {na} {hx(value(rng, na))} {nb} {hx(value(rng, nb))}"
        yield f"c01.leak.boxed_mul {na} {hx((1 << (64 * na)) - 1)} {nb} {hx((1 << (64 * nb)) - 1)}"
    for n in [48, 63, 64, 96, 98, 100, 130, 200]:
        yield f"c01.leak.boxed_square {n} {hx(value(rng, n))}"
        yield f"c01.leak.boxed_square {n} {hx((1 << (64 * n)) - 1)}"

def nontrivial(line):
    return any(len(t) > 2 for t in line.split()[1:])
