"""C01 value correspondence: op lines for every function of the leakage model (lean/CB/Model/LeakOps.lean).

`c01.leak.<fn> …` runs the leak-model function in the Lean driver (printing `L1 ;; L0`) and the real public function in
the harness.  Edge-biased operands at the widths 1,2,3,4,6,8 (+16,32, and 64/128 where Karatsuba switches algorithm)."""
from .common import *

W_SMALL = [1, 2, 3, 4, 6, 8]
W_ALL = [1, 2, 3, 4, 6, 8, 16, 32]

def rnd_odd(rng, n):
    return value(rng, n) | 1

def modulus(rng, n):
    """a non-zero modulus, edge biased"""
    m = 1 << (64 * n)
    k = rng.randrange(8)
    if k == 0: return m - 1
    if k == 1: return (m >> 1) + 1
    if k == 2: return 3
    if k == 3: return m - rng.randrange(1, 1000)
    p = value(rng, n)
    return p if p > 1 else 2

def below(rng, n, p):
    k = rng.randrange(6)
    if k == 0: return 0
    if k == 1: return p - 1
    if k == 2: return p // 2
    if k == 3: return 1 % p
    return value(rng, n) % p

def shifts(rng, n, cnt):
    bits = 64 * n
    s = {0, 1, 63, 64, 65, bits - 1, bits, bits + 1, bits // 2, 2 * bits - 1}
    while len(s) < cnt + 10:
        s.add(rng.randrange(0, bits + 3))
    return sorted(x for x in s if x >= 0)

def ivals(rng, n, cnt):
    m = 1 << (64 * n)
    h = m >> 1
    v = [0, 1, m - 1, h, h - 1, h + 1, 2, m - 2, 3, m - 3]
    v += [value(rng, n) for _ in range(cnt)]
    return v

HEAVY = ('c01.leak.inv_mod ', 'c01.leak.mul_mod ', 'c01.hook.monty_params', 'c01.leak.multi_exp', 'c01.leak.inv_odd_mod', 'c01.leak.gcd', 'c01.leak.inv_mod2k', 'c01.leak.monty', 'c01.leak.boxed_inv_mod2k', 'c01.hook.divsteps', 'c01.leak.sqrt')

def gen(tier, rng):
    """the lines of `gen_all`, with the ops whose leak model is slow (long traces) spread evenly over the stream, so that
    the runner's contiguous chunks get the same share of them"""
    lines = list(gen_all(tier, rng))
    heavy = [l for l in lines if l.startswith(HEAVY)]
    light = [l for l in lines if not l.startswith(HEAVY)]
    if not heavy:
        yield from light
        return
    step = max(1, len(light) // len(heavy))
    hi = 0
    for i, l in enumerate(light):
        yield l
        if i % step == step - 1 and hi < len(heavy):
            yield heavy[hi]; hi += 1
    yield from heavy[hi:]

def gen_all(tier, rng):
    q = tier == 'quick'
    reps = 12 if q else 120
    small = W_SMALL
    allw = W_ALL
    # ---- limb
    for a in EDGE_WORDS:
        for b in EDGE_WORDS:
            yield f"c01.leak.limb {hx(a)} {hx(b)} {hx(rng.choice(EDGE_WORDS))} {hx(rng.choice(EDGE_WORDS))}"
    for _ in range(reps * 20):
        yield "c01.leak.limb " + " ".join(hx(limb_choice(rng)) for _ in range(4))
    for d in [1 << 63, WMAX, (1 << 63) + 1, WMAX - 1] + [limb_choice(rng) | (1 << 63) for _ in range(reps * 5)]:
        yield f"c01.hook.reciprocal {hx(d)}"
    # ---- per width
    for n in allw:
        m = 1 << (64 * n)
        big = n >= 16
        r = max(3, reps // (4 if big else 1))
        directed = [(0, 0), (m - 1, m - 1), (m - 1, 1), (1, m - 1), (m // 2, m // 2), (0, m - 1), (m - 1, 0)]
        pairs = directed + [pair(rng, n) for _ in range(r)]
        for a, b in pairs:
            yield f"c01.leak.ucmp {n} {hx(a)} {hx(b)} {rng.randrange(2)}"
            yield f"c01.leak.cmp_vartime {n} {hx(a)} {hx(b)}"
            yield f"c01.leak.addsub {n} {hx(a)} {hx(b)} {hx(rng.choice([0, 1, 2, WMAX, 1 << 63, limb_choice(rng)]))}"
            yield f"c01.leak.mul_forms {n} {hx(a)} {hx(b)}"
            yield f"c01.leak.split_mul {n} {n} {hx(a)} {hx(b)}"
            yield f"c01.leak.int_arith {n} {hx(a)} {hx(b)}"
            if n <= 16:
                yield f"c01.leak.concat_split {n} {hx(a)} {hx(b)}"
                yield f"c01.leak.int_mul {n} {n} {hx(a)} {hx(b)}"
        # Karatsuba sign cases: x0 <> x1, y0 <> y1 in every combination, and equal halves
        if n % 2 == 0:
            hlf = 1 << (32 * n)
            for xa, xb in [(0, hlf - 1), (hlf - 1, 0), (5, 5), (hlf - 1, hlf - 1), (1, 2), (2, 1)]:
                for ya, yb in [(0, hlf - 1), (hlf - 1, 0), (7, 7), (1, 2), (2, 1)]:
                    yield f"c01.leak.split_mul {n} {n} {hx(xa + hlf * xb)} {hx(ya + hlf * yb)}"
                yield f"c01.leak.square_wide {n} {hx(xa + hlf * xb)}"
        vals = [0, 1, m - 1, m // 2, m // 2 - 1, m - 2] + [value(rng, n) for _ in range(r)]
        for a in vals:
            yield f"c01.leak.square_wide {n} {hx(a)}"
            yield f"c01.hook.shr1 {n} {hx(a)}"
            yield f"c01.leak.sqrt {n} {hx(a)}" if not big or rng.randrange(4) == 0 else f"c01.hook.shr1 {n} {hx(a)}"
            for s in rng.sample(shifts(rng, n, 6), 4 if q else 10):
                yield f"c01.leak.shl {n} {hx(a)} {s}"
                yield f"c01.leak.shr {n} {hx(a)} {s}"
                yield f"c01.leak.shl_vartime {n} {hx(a)} {s}"
                yield f"c01.leak.shr_vartime {n} {hx(a)} {s}"
                yield f"c01.leak.int_shr {n} {hx(a)} {s}"
            for s in rng.sample([0, 1, 31, 32, 62, 63], 3):
                yield f"c01.hook.shl_limb {n} {hx(a)} {s}"
            for i in rng.sample([0, 1, 63, 64, 64 * n - 1, 64 * n, 64 * n + 1, rng.randrange(64 * n)], 3):
                yield f"c01.leak.bits {n} {hx(a)} {i} {rng.randrange(2)}"
            d = rng.choice([1, 2, 3, WMAX, 1 << 63, (1 << 63) + 1, limb_choice(rng) or 1])
            yield f"c01.leak.div_rem_limb {n} {hx(a)} {hx(d)}"
        for _ in range(r):
            p = modulus(rng, n)
            a, b = below(rng, n, p), below(rng, n, p)
            yield f"c01.leak.modarith {n} {hx(a)} {hx(b)} {hx(p)}"
            # sub_mod_with_carry: v = a + c*2^BITS with -p < v - b < p
            bb = rng.choice([p, below(rng, n, p), p - 1])
            lo, hi = max(0, bb - p + 1), min(2 * m - 1, bb + p - 1)
            v = rng.choice([lo, hi, rng.randrange(lo, hi + 1)])
            yield f"c01.hook.sub_mod_with_carry {n} {hx(v % m)} {v // m} {hx(bb % m)} {hx(p)}"
        # division: every divisor length, dividends around multiples of the divisor
        for _ in range(max(2, r // (2 if big else 1))):
            a = value(rng, n)
            dl = rng.randrange(1, n + 1)
            d = value(rng, dl) or 1
            if rng.randrange(3) == 0:
                d |= 1 << (64 * dl - 1)
            yield f"c01.leak.div_rem {n} {hx(a)} {hx(d)}"
            yield f"c01.leak.div_rem_vartime {n} {hx(a)} {hx(d)}"
            k = rng.randrange(0, (m - 1) // d + 1)
            for t in (k * d, max(0, k * d - 1), min(m - 1, k * d + d - 1)):
                yield f"c01.leak.div_rem {n} {hx(t)} {hx(d)}"
                yield f"c01.leak.div_rem_vartime {n} {hx(t)} {hx(d)}"
    # mixed-width multiplication (schoolbook with different operand sizes), Karatsuba sizes 64 (mul) and 64/128 (square)
    for n, k in [(1, 2), (2, 1), (3, 5), (4, 2), (16, 8), (8, 16), (16, 32), (17, 17)]:
        for _ in range(4 if q else 20):
            yield f"c01.leak.split_mul {n} {k} {hx(value(rng, n))} {hx(value(rng, k))}"
        yield f"c01.leak.split_mul {n} {k} {hx((1 << (64 * n)) - 1)} {hx((1 << (64 * k)) - 1)}"
    for _ in range(2 if q else 10):
        yield f"c01.leak.split_mul 64 64 {hx(value(rng, 64))} {hx(value(rng, 64))}"
        yield f"c01.leak.square_wide 64 {hx(value(rng, 64))}"
        yield f"c01.leak.square_wide 128 {hx(value(rng, 128))}"
    yield f"c01.leak.split_mul 64 64 {hx((1 << 4096) - 1)} {hx((1 << 4096) - 1)}"
    yield f"c01.leak.square_wide 128 {hx((1 << 8192) - 1)}"
    # ---- small widths only: inversion mod 2^k, Montgomery forms, signed division
    for n in small:
        m = 1 << (64 * n)
        r = reps
        for _ in range(r):
            a = rng.choice([1, 3, m - 1, rnd_odd(rng, n), value(rng, n), 2, 0])
            for k in rng.sample([0, 1, 2, 63, 64, 65, 64 * n - 1, 64 * n, rng.randrange(64 * n + 1)], 3):
                yield f"c01.leak.inv_mod2k {n} {hx(a)} {k}"
        for _ in range(max(2, r // 3)):
            p = rng.choice([m - 1, rnd_odd(rng, n), 3, (m >> 1) + 1, m - rng.randrange(1, 500, 2) - 1 | 1])
            if p < 3: p = 3
            x, e = below(rng, n, p), rng.choice([0, 1, 2, 15, 16, 17, (1 << 64) - 1, value(rng, n)])
            for eb in rng.sample(sorted({t for t in [0, 1, 3, 4, 5, 8, 63, 64, 65, 64 * n - 1, 64 * n] if t <= 64 * n}), 3):
                yield f"c01.leak.monty {n} {hx(x)} {hx(e % p)} {hx(p)} {eb}"
        iv = ivals(rng, n, r)
        for a in iv:
            d = rng.choice(iv)
            yield f"c01.leak.int_checked_div {n} {hx(a)} {hx(d)}"
            yield f"c01.leak.int_checked_div {n} {hx(a)} 0"
            if d != 0:
                yield f"c01.leak.int_div {n} {hx(a)} {hx(d)}"
                yield f"c01.leak.int_div_uint {n} {hx(a)} {hx(d)}"
            # short divisors / exact multiples
            d2 = rng.choice([1, m - 1, 2, m - 2, (m >> 1), limb_choice(rng) or 1])
            yield f"c01.leak.int_div {n} {hx(a)} {hx(d2)}"
            yield f"c01.leak.int_div_uint {n} {hx(a)} {hx(d2)}"
    # ---- BoxedUint: any two precisions
    blens = [1, 2, 3, 4, 6, 8] if q else [1, 2, 3, 4, 5, 6, 7, 8, 12, 16]
    for na in blens:
        ma = 1 << (64 * na)
        for nb in sorted({na, 1, max(1, na - 1), na + 1, 2}):
            mb = 1 << (64 * nb)
            k = min(na, nb)
            ps = [(ma - 1, mb - 1), (0, 0), (ma - 1, 1), (1, mb - 1), ((1 << (64 * k)) - 1, (1 << (64 * k)) - 1), (5, 5)]
            ps += [(value(rng, na), value(rng, nb)) for _ in range(4 if q else 12)]
            ps += [pair(rng, k) for _ in range(3)]
            for a, b in ps:
                a %= ma; b %= mb
                yield f"c01.leak.boxed_addsub {na} {hx(a)} {nb} {hx(b)} {hx(rng.choice([0, 1, WMAX, 1 << 63, 2]))}"
                yield f"c01.leak.boxed_mul {na} {hx(a)} {nb} {hx(b)}"
                if nb <= na:
                    yield f"c01.leak.boxed_assign {na} {hx(a)} {nb} {hx(b)} {hx(rng.choice([0, 1, WMAX, 1 << 63]))} {rng.randrange(2)}"
        vals = [0, 1, ma - 1, ma // 2] + [value(rng, na) for _ in range(reps // 2)]
        for a in vals:
            b = rng.choice(vals)
            yield f"c01.leak.boxed_ct {na} {hx(a)} {hx(b)} {rng.randrange(2)}"
            yield f"c01.leak.boxed_square {na} {hx(a)}"
            for s in rng.sample(shifts(rng, na, 6), 4):
                yield f"c01.leak.boxed_shift {na} {hx(a)} {s}"
            for i in rng.sample([0, 1, 63, 64, 64 * na - 1, 64 * na, rng.randrange(64 * na)], 3):
                yield f"c01.leak.boxed_bits {na} {hx(a)} {i} {rng.randrange(2)}"
            for k in rng.sample([0, 1, 2, 63, 64, 65, 64 * na - 1, 64 * na, rng.randrange(64 * na + 1)], 2):
                yield f"c01.leak.boxed_inv_mod2k {na} {hx(a)} {k}"
                yield f"c01.leak.boxed_inv_mod2k {na} {hx(a | 1)} {k}"
            p = modulus(rng, na)
            yield f"c01.leak.boxed_modarith {na} {hx(below(rng, na, p))} {hx(below(rng, na, p))} {hx(p)}"
    # boxed Karatsuba: from 32 limbs (mul) / 64 limbs (square); odd lengths, unequal lengths, trailing limbs
    for na, nb in [(32, 32), (33, 40), (70, 35), (64, 64), (51, 52), (100, 32), (32, 100), (65, 66), (31, 40), (50, 50)]:
        for _ in range(1 if q else 4):
            yield f"c01.leak.boxed_mul {na} {hx(value(rng, na))} {nb} {hx(value(rng, nb))}"
        yield f"c01.leak.boxed_mul {na} {hx((1 << (64 * na)) - 1)} {nb} {hx((1 << (64 * nb)) - 1)}"
    for n in [48, 63, 64, 96, 98, 100, 130, 200]:
        yield f"c01.leak.boxed_square {n} {hx(value(rng, n))}"
        yield f"c01.leak.boxed_square {n} {hx((1 << (64 * n)) - 1)}"
    for n in [1, 2, 3, 4, 6, 8]:
        for a in [0, 1, (1 << (64 * n)) - 1] + [value(rng, n) for _ in range(6)]:
            yield f"c01.hook.boxed_shr1 {n} {hx(a)}"
    yield from gen_safegcd(tier, rng)
    yield from gen_modular(tier, rng)

def unsat_value(rng, u):
    """u 62-bit limbs (two's complement over 62u bits), each held in a 64-bit word of the token"""
    bits = 62 * u
    k = rng.randrange(8)
    if k == 0: v = 0
    elif k == 1: v = 1
    elif k == 2: v = (1 << bits) - 1                      # -1
    elif k == 3: v = 1 << (bits - 1)                      # most negative
    elif k == 4: v = (1 << (bits - 1)) - 1                # most positive
    elif k == 5: v = (1 << bits) - rng.getrandbits(rng.randrange(1, bits))   # small negative
    elif k == 6: v = rng.getrandbits(rng.randrange(1, bits))
    else: v = rng.getrandbits(bits)
    v %= 1 << bits
    return sum(((v >> (62 * i)) & ((1 << 62) - 1)) << (64 * i) for i in range(u))

def i64tok(rng):
    k = rng.randrange(8)
    if k == 0: return 0
    if k == 1: return 1
    if k == 2: return WMAX                       # -1
    if k == 3: return (1 << 62)                  # 2^62
    if k == 4: return WMAX - (1 << 62) + 1       # -2^62
    if k == 5: return rng.getrandbits(rng.randrange(1, 63))
    return (WMAX + 1 - rng.getrandbits(rng.randrange(1, 63))) & WMAX

def gen_safegcd(tier, rng):
    q = tier == 'quick'
    reps = 40 if q else 400
    for u in [1, 2, 3, 4, 6]:
        for _ in range(reps):
            yield f"c01.hook.unsat {u} {hx(unsat_value(rng, u))} {hx(unsat_value(rng, u))} {hx(i64tok(rng))}"
        x = unsat_value(rng, u)
        yield f"c01.hook.unsat {u} {hx(x)} {hx(x)} {hx(1)}"
    for n in [1, 2, 3, 4, 6, 8]:
        m = 1 << (64 * n)
        for a in [0, 1, m - 1, m // 2] + [value(rng, n) for _ in range(reps // 4)]:
            yield f"c01.hook.unsat_conv {n} {hx(a)}"
    # jump: f odd (62-bit words), g any, delta small either sign
    m62 = (1 << 62) - 1
    for _ in range(reps * 3):
        f = rng.choice([1, m62, 3, rng.getrandbits(62) | 1, limb_choice(rng) & m62 | 1])
        g = rng.choice([0, 1, 2, m62, 1 << 61, rng.getrandbits(62), limb_choice(rng) & m62, 1 << rng.randrange(62)])
        d = rng.choice([1, 0, 2, 5, 62, WMAX, WMAX - 1, WMAX - 61, WMAX - 100, rng.randrange(1, 200), (WMAX + 1 - rng.randrange(1, 200)) & WMAX])
        yield f"c01.hook.jump {hx(f)} {hx(g)} {hx(d)}"
    # fg / de with matrices as `jump` produces them (|entries| <= 2^62) and arbitrary ones
    for u in [2, 3, 4, 6]:
        for _ in range(reps // 2):
            # rows as `jump` can produce them: |t_i0| + |t_i1| <= 2^62 (outside, `md` and the u128 products leave the
            # domain on which `de` / `UnsatInt::mul` are defined: -other overflows for i64::MIN)
            def row():
                a = rng.choice([0, 1, 1 << 62, 1 << 61, rng.getrandbits(rng.randrange(1, 63))])
                a = min(a, 1 << 62)
                b = rng.choice([0, 1, (1 << 62) - a, rng.randrange(0, (1 << 62) - a + 1)])
                sa, sb = rng.choice([1, -1]), rng.choice([1, -1])
                return [(sa * a) & WMAX, (sb * b) & WMAX]
            t = row() + row()
            # operands inside the documented size limit of `fg` / `de` (|x| < 2^(62u - 64): what `divsteps` keeps them in;
            # beyond it the unsaturated arithmetic wraps and debug builds assert) — two's complement over 62u bits
            def inside():
                lim = 62 * u - 66
                mag = rng.choice([0, 1, (1 << lim) - 1, rng.getrandbits(rng.randrange(1, lim + 1))])
                return (mag if rng.randrange(2) else -mag) % (1 << (62 * u))
            pack = lambda v: sum(((v >> (62 * i)) & ((1 << 62) - 1)) << (64 * i) for i in range(u))
            modv = rng.choice([(1 << (62 * u - 66)) - 1, rng.getrandbits(rng.randrange(2, 62 * u - 65))]) | 1
            f, g = pack(inside()), pack(inside())
            d, e = pack(rng.randrange(modv)), pack(rng.randrange(modv))      # d, e are residues of the modulus
            mod = pack(modv)
            inv = rng.getrandbits(62)
            yield f"c01.hook.fgde {u} {hx(f)} {hx(g)} {hx(d)} {hx(e)} {hx(mod)} {hx(inv)} " + " ".join(hx(x) for x in t)
    # divsteps on unsaturated operands (f0 odd, non-negative operands as the callers pass them)
    for u in [2, 3, 4]:
        for _ in range(max(3, reps // 8)):
            bits = 62 * u - 2
            f0 = rng.getrandbits(rng.randrange(1, bits)) | 1
            g = rng.choice([0, 1, f0, rng.getrandbits(rng.randrange(1, bits)), f0 * 3 % (1 << bits)])
            enc = lambda v: sum(((v >> (62 * i)) & m62) << (64 * i) for i in range(u))
            inv = (-pow(f0, -1, 1 << 62)) % (1 << 62)   # what inv_mod2_62 computes for an odd f0?  (any word is accepted by the hook)
            yield f"c01.hook.divsteps {u} {hx(enc(1))} {hx(enc(f0))} {hx(enc(g))} {hx(rng.choice([inv, rng.getrandbits(62)]))}"
    for n in ([1, 2, 3, 4] if q else [1, 2, 3, 4, 6, 8]):
        m = 1 << (64 * n)
        for _ in range(max(2, (8 if q else 40) // n)):
            mod = rng.choice([m - 1, value(rng, n) | 1, 3, 5, (m >> 1) + 1, m - rng.randrange(1, 1000, 2) * 2 + 1])
            if mod < 3: mod = 3
            v = rng.choice([0, 1, mod - 1 if mod > 1 else 0, value(rng, n) % mod, mod // 2, 2, value(rng, n)])
            yield f"c01.leak.inv_odd_mod {n} {hx(mod)} {hx(v)}"
            if n <= (3 if q else 4):
                # any modulus: odd part times a power of two (k = 0, 1, 63, 64, ... BITS-1), zero, one
                k = rng.choice([0, 1, 2, 63, 64, 65, 64 * n - 1])
                k = min(k, 64 * n - 1)
                me = rng.choice([(mod << k) % m, 1 << k, mod, 0, 1, 2, (value(rng, n) | 1) << k & (m - 1)])
                if me == 1: me = 3      # modulus 1: every value is an inverse (the crate answers 1, the canonical residue is 0)
                yield f"c01.leak.inv_mod {n} {hx(me)} {hx(rng.choice([v, v | 1, value(rng, n)]))}"
            a, b = pair(rng, n)
            yield f"c01.leak.gcd {n} {hx(a)} {hx(b)}"
            sh = rng.randrange(0, 64 * n)
            yield f"c01.leak.gcd {n} {hx((a << sh) % m)} {hx((b << rng.randrange(0, 64 * n)) % m)}"
        for a, b in [(0, 0), (0, 5), (5, 0), (m - 1, m - 1), (m // 2, m // 2), (1, m - 1), (6, 9)]:
            yield f"c01.leak.gcd {n} {hx(a)} {hx(b)}"

def gen_modular(tier, rng):
    q = tier == 'quick'
    reps = 10 if q else 100
    for n in W_ALL:
        m = 1 << (64 * n)
        big = n >= 16
        r = max(3, reps // (3 if big else 1))
        for _ in range(r):
            c = rng.choice([1, 2, 189, WMAX, WMAX - 1, 1 << 63, limb_choice(rng) or 1])
            p = m - c
            if p < 2: continue
            a, b = below(rng, n, p), below(rng, n, p)
            yield f"c01.leak.special {n} {hx(a)} {hx(b)} {hx(c)}"
            yield f"c01.leak.special {n} {hx(p - 1)} {hx(p - 1)} {hx(c)}"
            d = rng.choice([1, 2, 3, WMAX, 1 << 63, limb_choice(rng) or 1])
            yield f"c01.leak.rem_limb {n} {hx(value(rng, n))} {hx(d)}"
            yield f"c01.hook.mac_by_limb {n} {hx(value(rng, n))} {hx(value(rng, n))} {hx(limb_choice(rng))} {hx(limb_choice(rng))}"
    for n in W_SMALL:
        m = 1 << (64 * n)
        for _ in range(reps):
            p = rng.choice([m - 1, value(rng, n) | 1, 3, (m >> 1) + 1, m - rng.randrange(1, 500) * 2 + 1, value(rng, max(1, n - 1)) | 1])
            if p < 3: p = 3
            a, b = below(rng, n, p), below(rng, n, p)
            yield f"c01.leak.mul_mod {n} {hx(a)} {hx(b)} {hx(p)}"
            yield f"c01.hook.div_by_2 {n} {hx(a)} {hx(p)}"
            yield f"c01.hook.monty_params {n} {hx(p)}"
            # vartime / trait form: any non-zero modulus of every limb length, unreduced factors
            pv = rng.choice([p, 1, 2, m - 1, m >> 1, value(rng, rng.randrange(1, n + 1)) or 1, 1 << rng.randrange(64 * n), WMAX, 1 << 64 if n > 1 else 5])
            yield f"c01.leak.mul_mod_vartime {n} {hx(value(rng, n))} {hx(value(rng, n))} {hx(pv)}"
        # linear combinations: the window is 2^mlz products; modulus with few / many leading zeros
        for _ in range(reps):
            lzb = rng.choice([0, 0, 1, 2, 5, 63, 64 if n > 1 else 3, 70 if n > 1 else 7])
            lzb = min(lzb, 64 * n - 2)
            p = (rng.getrandbits(64 * n - lzb) | (1 << (64 * n - lzb - 1)) | 1)
            own = min(lzb, 63)
            ln = rng.choice([1, 2, 3, 4, 5, 9])
            mlz = rng.choice([own, 0, min(own, 1), min(own, 2)])
            vals = [below(rng, n, p) for _ in range(2 * ln)]
            yield f"c01.hook.lincomb {n} {mlz} {hx(p)} " + " ".join(hx(v) for v in vals)
        for _ in range(max(3, reps // 2)):
            p = rng.choice([m - 1, value(rng, n) | 1, 3, (m >> 1) + 1])
            if p < 3: p = 3
            cnt = rng.choice([1, 2, 3])
            eb = rng.choice([0, 1, 4, 5, 63, 64, 64 * n])
            eb = min(eb, 64 * n)
            vals = []
            for _ in range(cnt):
                vals += [below(rng, n, p), rng.choice([0, 1, 15, 16, value(rng, n)])]
            yield f"c01.leak.multi_exp {n} {eb} {hx(p)} " + " ".join(hx(v) for v in vals)
        # random_mod: enough words for ~20 rejections
        for _ in range(reps):
            p = rng.choice([1, 2, 3, m - 1, m >> 1, (m >> 1) + 1, value(rng, n) or 1, value(rng, rng.randrange(1, n + 1)) or 1, 1 << rng.randrange(64 * n)])
            nl = (p.bit_length() + 63) // 64
            himod = p >> (64 * (nl - 1))
            ws = []
            for _ in range(60 * nl + 8):
                k = rng.randrange(6)
                ws.append(himod if k == 0 else (himod - 1) % (WMAX + 1) if k == 1 else (himod + 1) & WMAX if k == 2 else 0 if k == 3 else rng.getrandbits(64))
            # make sure the draw ends: a zero candidate is always below a modulus > 0 ... except modulus 1 needs exactly 0
            ws[-(nl + 2):] = [0] * (nl + 2)
            yield f"c01.leak.random_mod {n} {hx(p)} " + " ".join(hx(w) for w in ws)

def nontrivial(line):
    return any(len(t) > 2 for t in line.split()[1:])
