"""
C16 generator — byte / hex / word / primitive conversions.

Streams (in this order): well-formed encodings and decodings per width; the MALFORMED stream (wrong
lengths for every decoder, every non-hex byte that can occur in a `&str` at every nibble position, the
neighbours of the digit ranges '/', ':', '@', 'G', '`', 'g', multi-byte UTF-8 sequences covering
0x80..0xf4); boxed decoders for bits_precision 0..=520 with byte strings of length 0..=precision/8+9
and values placed on the precision boundary; primitive conversions; concat/split/resize; formatting;
serde (bincode).
"""
from .common import *

WIDTHS_Q = [1, 2, 3, 4, 5, 6, 7, 8, 16, 32]
WIDTHS_T = [1, 2, 3, 4, 5, 6, 7, 8, 12, 16, 32]
ARR = {1, 2, 3, 4, 6, 7, 8, 12, 16, 32}          # widths with hybrid-array ArrayEncoding
RESIZE = [1, 2, 3, 4, 5, 8, 16]
EVEN = [1, 2, 3, 4, 8, 16]
MIXED = [(2, 1), (1, 2), (3, 1), (1, 3), (4, 1), (1, 4), (3, 2), (2, 3), (5, 1), (1, 5), (4, 2), (2, 4),
         (7, 1), (1, 7), (5, 3), (3, 5), (15, 1), (1, 15), (9, 7), (7, 9)]
KINDS = ['x', 'X', 'd', 'b', '#x', '#X', '#b', 'dbg']
NEIGHBOURS = [0x2f, 0x3a, 0x40, 0x47, 0x60, 0x67]   # '/', ':', '@', 'G', '`', 'g'
LOWER = '0123456789abcdef'
UPPER = '0123456789ABCDEF'

RULE = ('operation lines = well-formed stream + separate malformed stream + boxed precision sweep + conversions; '
        'each line runs on the real crate in two build profiles and on the Lean model (L1 mirror and L0 positional spec); '
        'distinct = distinct lines; non-trivial = the line has a value / byte-string token of at least 2 bytes '
        'or is a malformed-input line')
ASSUMPTIONS = ['hex decoders take &str: bytes 0xc0, 0xc1, 0xf5..0xff cannot occur in valid UTF-8; they reach decode_hex_byte only '
               'through the `c16.hook.*` lines (crypto_bigint::verif_hooks; thorough tier: all 65 536 byte pairs)',
               'serde is exercised through bincode 1 only (binary form); the human-readable hex form is not executed',
               'Rust primitive to/from_{be,le}_bytes, `as` casts and core::fmt integer formatting are trusted']


def nontrivial(line):
    toks = line.split()
    return any((t.startswith('x') and len(t) >= 5) or (not t.startswith('x') and len(t) >= 4 and not t.isdigit()) for t in toks[1:]) \
        or any(k in toks[0] for k in ('hex', 'slice', 'serde_de', 'c16.err.', 'octal'))


def xb(b):
    return 'x' + bytes(b).hex()


def xt(s):
    return 'x' + (s.encode('utf-8') if isinstance(s, str) else bytes(s)).hex()


def rbytes(rng, k):
    m = rng.randrange(6)
    if k == 0:
        return b''
    if m == 0:
        return bytes(k)
    if m == 1:
        return b'\xff' * k
    if m == 2:
        return bytes((i * 17 + 1) & 0xff for i in range(k))
    if m == 3:
        b = bytearray(k)
        b[rng.randrange(k)] = rng.choice([1, 0x80, 0xff, rng.randrange(256)])
        return bytes(b)
    return bytes(rng.getrandbits(8) for _ in range(k))


def hextext(rng, v, ndig, style):
    lo = format(v, '0%dx' % ndig)
    if style == 0:
        return lo
    if style == 1:
        return lo.upper()
    return ''.join(c.upper() if rng.randrange(2) else c for c in lo)


def utf8_specials():
    """valid UTF-8 sequences covering every lead byte c2..f4 and every continuation byte 80..bf"""
    out = []
    for lead in range(0xc2, 0xe0):
        out.append(bytes([lead, 0x80 + (lead * 7) % 64]))
    for cont in range(0x80, 0xc0):
        out.append(bytes([0xc2 + cont % 30, cont]))
    for lead in range(0xe0, 0xf0):
        second = 0xa0 if lead == 0xe0 else (0x80 if lead != 0xed else 0x80)
        out.append(bytes([lead, second, 0xbf]))
        out.append(bytes([lead, (0xbf if lead != 0xed else 0x9f), 0x80]))
    for lead in range(0xf0, 0xf5):
        second = 0x90 if lead == 0xf0 else 0x80
        out.append(bytes([lead, second, 0x80, 0xbf]))
        out.append(bytes([lead, (0xbf if lead != 0xf4 else 0x8f), 0xbf, 0x80]))
    for s in out:
        s.decode('utf-8')     # generator self-check: all are valid
    return out


def hook_lines(tier, rng):
    """`c16.hook.*`: crate-internal decode_hex_byte([a, b]) through crypto_bigint::verif_hooks — all byte values,
    also those that cannot occur in a &str (0xc0, 0xc1, 0xf5..0xff, lone continuation bytes).
    thorough: every one of the 65 536 byte pairs for both ops; quick: a 64 x 64 structured subset (every range end
    and its neighbours, all 22 hex digits, 0x00/0x7f/0x80/0xff, the non-UTF-8 bytes, some random bytes) for the exact
    (byte, err) op, plus all 484 valid pairs and the range-end x range-end pairs for the validity op."""
    digits = [ord(c) for c in '0123456789abcdefABCDEF']
    if tier != 'quick':
        for a in range(256):
            for b in range(256):
                yield f"c16.hook.decode_hex_byte {a:x} {b:x}"
                yield f"c16.hook.hex_pair {a:x} {b:x}"
        return
    ends = [0x2f, 0x30, 0x39, 0x3a, 0x40, 0x41, 0x46, 0x47, 0x60, 0x61, 0x66, 0x67]
    S = list(dict.fromkeys(digits + ends + [0x00, 0x01, 0x7f, 0x80, 0xff, 0xfe, 0xc0, 0xc1, 0xf5, 0xbf, 0x20, 0x2e, 0x3b, 0x48,
                                            0x5f, 0x68, 0x10, 0x0f, 0xb0, 0xd0]))
    while len(S) < 64:
        c = rng.randrange(256)
        if c not in S:
            S.append(c)
    for a in S:
        for b in S:
            yield f"c16.hook.decode_hex_byte {a:x} {b:x}"
    E = list(dict.fromkeys(ends + [0x00, 0x7f, 0x80, 0xff, 0xc0, 0xf5]))
    for a, b in dict.fromkeys([(a, b) for a in digits for b in digits] + [(a, b) for a in E for b in E] +
                              [(a, b) for a in E for b in digits[::3]] + [(a, b) for a in digits[::3] for b in E] +
                              [(rng.randrange(256), rng.randrange(256)) for _ in range(200)]):
        yield f"c16.hook.hex_pair {a:x} {b:x}"


def gen(tier, rng):
    quick = tier == 'quick'
    widths = WIDTHS_Q if quick else WIDTHS_T
    reps = 12 if quick else 400

    # ------------------------------------------------------------------ Limb
    for w in EDGE_WORDS + [0x0102030405060708, 0xf1e2d3c4b5a69788] + [limb_choice(rng) for _ in range(reps)]:
        yield f"c16.l.to_be_bytes {hx(w)}"
        yield f"c16.l.to_le_bytes {hx(w)}"
        b = w.to_bytes(8, 'big')
        yield f"c16.l.from_be_bytes {xb(b)}"
        yield f"c16.l.from_le_bytes {xb(b)}"
        yield f"c16.l.fmt {rng.choice(KINDS)} {hx(w)}"
    for k in KINDS:
        yield f"c16.l.fmt {k} {hx(0xabcdef0123456789)}"

    # ------------------------------------------------------------------ fixed: well-formed bytes
    for n in widths:
        nb = 8 * n
        m = 1 << (64 * n)
        vals = [0, 1, m - 1, m >> 1, int.from_bytes(bytes((i + 1) & 0xff for i in range(nb)), 'big') % m]
        pos = range(nb) if n <= 8 else sorted(set([0, 1, 7, 8, 9, nb - 9, nb - 8, nb - 1] + [rng.randrange(nb) for _ in range(24)]))
        vals += [(rng.choice([1, 0x80, 0xff, 0xa5])) << (8 * i) for i in pos]      # one byte set, every position
        vals += [value(rng, n) for _ in range(reps)]
        for v in vals:
            yield f"c16.u.to_be_bytes {n} {hx(v)}"
            yield f"c16.u.to_le_bytes {n} {hx(v)}"
            b = v.to_bytes(nb, 'big')
            yield f"c16.u.from_be_slice {n} {xb(b)}"
            yield f"c16.u.from_le_slice {n} {xb(b)}"
            yield f"c16.u.from_be_bytes {n} {xb(b)}"
            yield f"c16.u.from_le_bytes {n} {xb(b)}"
        for v in vals[:5] + vals[-reps:]:
            b = v.to_bytes(nb, 'big')
            yield f"c16.nz.from_be_bytes {n} {xb(b)}"
            yield f"c16.nz.from_le_bytes {n} {xb(b)}"
            if n in ARR:
                yield f"c16.nz.from_be_byte_array {n} {xb(b)}"
                yield f"c16.nz.from_le_byte_array {n} {xb(b)}"        # repaired by fix ad61352 (was C16-nz-from-le-byte-array-reads-be); palindromic bytes: both readings agree
                pal = b[:nb // 2] + b[:nb // 2][::-1]
                yield f"c16.nz.from_le_byte_array {n} {xb(pal)}"
            yield f"c16.u.words {n} {hx(v)}"
            yield f"c16.u.serde_ser {n} {hx(v)}"
            yield f"c16.u.serde_de {n} {xb((nb).to_bytes(8, 'little') + b)}"
            for k in rng.sample(KINDS, 3):
                yield f"c16.u.fmt {n} {k} {hx(v)}"
                yield f"c16.i.fmt {n} {k} {hx(v)}"
        for k in KINDS:
            v = value(rng, n)
            yield f"c16.u.fmt {n} {k} {hx(v)}"
            yield f"c16.i.fmt {n} {k} {hx(v)}"

    # ------------------------------------------------------------------ fixed: well-formed hex
    for n in widths:
        nd = 16 * n
        m = 1 << (64 * n)
        for _ in range(reps):
            for style in (0, 1, 2):
                v = value(rng, n)
                t = hextext(rng, v, nd, style)
                yield f"c16.u.from_be_hex {n} {xt(t)}"
                yield f"c16.u.from_le_hex {n} {xt(t)}"
                yield f"c16.i.from_be_hex {n} {xt(t)}"
                yield f"c16.odd.from_be_hex {n} {xt(t)}"
                yield f"c16.odd.from_le_hex {n} {xt(t)}"           # repaired by fix dd30bc0 (was C16-odd-from-le-hex-reads-be)
                # byte-palindromic text: both readings agree
                half = t[:nd // 2]
                pal = half + ''.join(half[i:i + 2] for i in range(len(half) - 2, -2, -2))
                yield f"c16.odd.from_le_hex {n} {xt(pal)}"
        # every digit character at both nibble positions of the first and last byte
        for c in LOWER + UPPER[10:]:
            for p in (0, 1, nd - 2, nd - 1):
                t = ['0'] * nd
                t[p] = c
                yield f"c16.u.from_be_hex {n} {xt(''.join(t))}"
                yield f"c16.u.from_le_hex {n} {xt(''.join(t))}"

    # ------------------------------------------------------------------ MALFORMED stream: lengths
    for n in widths:
        nb = 8 * n
        lens = range(nb + 10) if (n <= 8 or not quick) else sorted(set([0, 1, 7, 8, nb - 8, nb - 1, nb + 1, nb + 8, nb + 9, 2 * nb]))
        for k in lens:
            if k == nb:
                continue
            b = rbytes(rng, k)
            yield f"c16.u.from_be_slice {n} {xb(b)}"
            yield f"c16.u.from_le_slice {n} {xb(b)}"
        nd = 16 * n
        hl = range(nd + 4) if n <= 4 else sorted(set([0, 1, 2, 15, 16, nd - 16, nd - 2, nd - 1, nd + 1, nd + 2, nd + 16, 2 * nd]))
        for k in hl:
            if k == nd:
                continue
            t = ''.join(rng.choice(LOWER) for _ in range(k))
            for op in ('u.from_be_hex', 'u.from_le_hex', 'i.from_be_hex', 'odd.from_be_hex', 'odd.from_le_hex'):
                yield f"c16.{op} {n} {xt(t)}"

    # ------------------------------------------------------------------ MALFORMED stream: characters
    specials = utf8_specials()
    for n in widths:
        nd = 16 * n
        allpos = list(range(nd)) if n <= 4 else sorted(set([0, 1, 2, 15, 16, 17, nd - 17, nd - 16, nd - 2, nd - 1] + [rng.randrange(nd) for _ in range(12)]))
        base = lambda: [ord(rng.choice(LOWER + UPPER)) for _ in range(nd)]
        # the neighbours of the digit ranges at every position
        for p in allpos:
            for c in NEIGHBOURS:
                t = base()
                t[p] = c
                yield f"c16.u.from_be_hex {n} {xt(t)}"
                yield f"c16.u.from_le_hex {n} {xt(t)}"
        # every ASCII byte (valid or not) at a high and a low nibble position
        for c in range(128):
            for p in ((0, 1) if n > 1 else (0, 1, 14, 15)):
                t = base()
                t[p] = c
                yield f"c16.u.from_be_hex {n} {xt(t)}"
                if n <= 2:
                    yield f"c16.u.from_le_hex {n} {xt(t)}"
                    yield f"c16.i.from_be_hex {n} {xt(t)}"
                    yield f"c16.odd.from_be_hex {n} {xt(t)}"
        # multi-byte UTF-8 sequences (bytes 0x80..0xf4) at even and odd offsets
        for s in (specials if n <= 2 else rng.sample(specials, 12)):
            for p in (0, 1, nd - len(s) - 1, nd - len(s)):
                if p < 0 or p + len(s) > nd:
                    continue
                t = base()
                t[p:p + len(s)] = list(s)
                yield f"c16.u.from_be_hex {n} {xt(t)}"
                yield f"c16.u.from_le_hex {n} {xt(t)}"
    # the decode_hex_byte table over ASCII pairs, through Uint<1>::from_be_hex (position of the pair varies)
    pairs = [(a, b) for a in range(128) for b in range(128)]
    if quick:
        edge = set(NEIGHBOURS + [0x30, 0x39, 0x41, 0x46, 0x61, 0x66, 0, 0x7f, 0x20])
        pairs = [p for p in pairs if p[0] in edge or p[1] in edge] + rng.sample(pairs, 1500)
    for (a, b) in pairs:
        t = [ord('0')] * 16
        j = 2 * rng.randrange(8)
        t[j], t[j + 1] = a, b
        yield f"c16.u.from_be_hex 1 {xt(t)}"

    # ------------------------------------------------------------------ boxed slice decoders
    full = set(list(range(0, 18)) + [31, 32, 33, 56, 57, 63, 64, 65, 71, 72, 73, 120, 121, 127, 128, 129, 135, 136, 137,
                                     191, 192, 193, 255, 256, 257, 383, 384, 385, 448, 449, 455, 456, 457, 511, 512, 513, 519, 520])
    for bp in range(0, 521):
        cap = (bp + 7) // 8
        top = bp // 8 + 9
        if not quick or bp in full:
            lens = list(range(0, top + 1))
        else:
            lens = sorted(set([0, 1, max(cap - 1, 0), cap, cap + 1, top] + [rng.randrange(top + 1) for _ in range(3)]))
        for k in lens:
            cands = [rbytes(rng, k)]
            if 0 < k <= cap + 1:
                # values on the precision boundary: 2^bp - 1 (accepted), 2^bp (Precision / InputSize), 2^(bp-1)
                for v in (((1 << bp) - 1), (1 << bp), (1 << bp) >> 1, (1 << bp) + 1):
                    if v < (1 << (8 * k)):
                        cands.append(v.to_bytes(k, 'big'))
                # a random value of exactly the limit's bit length, and one bit more
                if bp > 0:
                    v = rng.getrandbits(bp) | (1 << (bp - 1))
                    if v < (1 << (8 * k)):
                        cands.append(v.to_bytes(k, 'big'))
                v = rng.getrandbits(bp + 1) | (1 << bp)
                if v < (1 << (8 * k)):
                    cands.append(v.to_bytes(k, 'big'))
            for b in cands:
                yield f"c16.b.from_be_slice {bp} {xb(b)}"
                yield f"c16.b.from_le_slice {bp} {xb(b[::-1])}"
            if not quick:
                for _ in range(3):
                    b = rbytes(rng, k)
                    yield f"c16.b.from_be_slice {bp} {xb(b)}"
                    yield f"c16.b.from_le_slice {bp} {xb(b)}"

    # ------------------------------------------------------------------ boxed hex decoder, encoders, widen/shorten
    for bp in (list(range(0, 521)) if not quick else sorted(full | set(rng.sample(range(521), 40)))):
        nl = bp // 64
        nd = 16 * nl
        v = value(rng, max(nl, 1)) % (1 << (64 * nl)) if nl else 0
        t = hextext(rng, v, nd, rng.randrange(3)) if nd else ''
        yield f"c16.b.from_be_hex {bp} {xt(t)}"
        if nd:
            for c in rng.sample(NEIGHBOURS, 2) + [rng.randrange(128)]:
                tt = [ord(ch) for ch in t]
                tt[rng.choice([0, 1, nd - 2, nd - 1, rng.randrange(nd)])] = c
                yield f"c16.b.from_be_hex {bp} {xt(tt)}"
            s = rng.choice(specials)
            tt = [ord(ch) for ch in t]
            p = rng.randrange(nd - len(s) + 1)
            tt[p:p + len(s)] = list(s)
            yield f"c16.b.from_be_hex {bp} {xt(tt)}"
        for k in sorted(set([0, 1, max(nd - 1, 0), nd + 1, nd + 16, max(nd - 16, 0), 16 * ((bp + 63) // 64)])):
            if k != nd:
                yield f"c16.b.from_be_hex {bp} {xt(''.join(rng.choice(LOWER) for _ in range(k)))}"
        # widen / shorten from a value of `n` limbs to precision bp
        for n in rng.sample([1, 2, 3, 4, 5, 8, 9], 3):
            v = value(rng, n)
            yield f"c16.b.widen {n} {hx(v)} {bp}"
            yield f"c16.b.shorten {n} {hx(v)} {bp}"
    for n in [1, 2, 3, 4, 5, 6, 7, 8, 9, 16, 33]:
        for _ in range(reps):
            v = value(rng, n)
            yield f"c16.b.to_be_bytes {n} {hx(v)}"
            yield f"c16.b.to_le_bytes {n} {hx(v)}"
            yield f"c16.b.words {n} {hx(v)}"
            yield f"c16.b.from_vec {n} {hx(v)}"
            yield f"c16.b.from_slice {n} {hx(v)}"
            yield f"c16.b.fmt {n} {rng.choice(KINDS)} {hx(v)}"
        for b in (64 * n, 64 * n - 1, 64 * n + 1, 64 * n - 63, 64 * n - 64, 64 * n + 64):
            v = value(rng, n)
            yield f"c16.b.widen {n} {hx(v)} {b}"
            yield f"c16.b.shorten {n} {hx(v)} {b}"
    for k in KINDS:
        yield f"c16.b.fmt 0 {k} 0"          # zero-limb value: prints as Limb::ZERO
        yield f"c16.b.fmt 2 {k} {hx(value(rng, 2))}"
    yield "c16.b.from_vec 0 0"
    yield "c16.b.from_slice 0 0"
    yield "c16.b.words 0 0"
    for n in widths:
        for _ in range(3):
            yield f"c16.b.from_uint {n} {hx(value(rng, n))}"

    # ------------------------------------------------------------------ primitives
    PR = [('u8', 8), ('u16', 16), ('u32', 32), ('u64', 64), ('word', 64), ('u128', 128), ('wide_word', 128)]
    for ty, bits in PR:
        edge = [0, 1, (1 << bits) - 1, 1 << (bits - 1), (1 << (bits - 1)) - 1, (1 << (bits // 2)), (1 << (bits // 2)) - 1]
        for v in edge + [rng.getrandbits(bits) for _ in range(reps)]:
            for n in (widths if v in edge[:3] else rng.sample(widths, 3) + [1, 2]):
                yield f"c16.u.from_prim {n} {ty} {hx(v)}"
            if ty != 'wide_word':
                yield f"c16.b.from_prim {ty} {hx(v)}"
    for ty, bits in [('i8', 8), ('i16', 16), ('i32', 32), ('i64', 64), ('i128', 128)]:
        h = 1 << (bits - 1)
        edge = [0, 1, (1 << bits) - 1, h, h - 1, h + 1, (1 << bits) - 2, 0x7f, 0x80 % (1 << bits)]
        if bits == 128:
            # around the i64 range: representable in one limb or not (C16-int-from-i128 finding when not)
            edge += [(1 << 63) - 1, 1 << 63, (1 << 128) - (1 << 63), (1 << 128) - (1 << 63) - 1, 1 << 64, (1 << 128) - (1 << 64)]
        for v in edge + [rng.getrandbits(bits) for _ in range(reps)] + [rng.getrandbits(rng.randrange(1, bits + 1)) for _ in range(reps)]:
            for n in (widths if v in edge else rng.sample(widths, 3) + [1, 2]):
                yield f"c16.i.from_prim {n} {ty} {hx(v)}"
    for _ in range(reps * 4):
        yield f"c16.u.to_u64 {hx(limb_choice(rng))}"
        yield f"c16.i.to_i64 {hx(limb_choice(rng))}"
        yield f"c16.u.to_u128 {hx(value(rng, 2))}"
        yield f"c16.i.to_i128 {hx(value(rng, 2))}"

    # ------------------------------------------------------------------ concat / split / resize
    for (l, h) in [(e, e) for e in EVEN] + MIXED:
        ml, mh = 1 << (64 * l), 1 << (64 * h)
        ds = [(0, 0), (ml - 1, 0), (0, mh - 1), (ml - 1, mh - 1), (1, 1), (ml >> 1, 1), (1, mh >> 1)]
        for (lo, hi) in ds + [(value(rng, l), value(rng, h)) for _ in range(reps)]:
            yield f"c16.u.concat {l} {h} {hx(lo)} {hx(hi)}"
            yield f"c16.u.split {l} {h} {hx(lo | (hi << (64 * l)))}"
    for n in RESIZE:
        m = 1 << (64 * n)
        for t in RESIZE:
            mt = 1 << (64 * min(t, n))
            ds = [0, 1, m - 1, m >> 1, (m >> 1) - 1, mt >> 1, (mt >> 1) - 1, mt % m, (m - 1) ^ ((mt >> 1)), m - mt if n > t else 0]
            for v in ds + [value(rng, n) for _ in range(reps // 2)]:
                yield f"c16.u.resize {n} {t} {hx(v % m)}"
                yield f"c16.i.resize {n} {t} {hx(v % m)}"

    # ------------------------------------------------------------------ serde framing errors
    Z1, O1 = bytes([0]), bytes([1])
    for n in widths:
        nb = 8 * n
        body = rbytes(rng, nb)
        pre = nb.to_bytes(8, 'little')
        yield f"c16.u.serde_de {n} {xb(pre + body)}"
        yield f"c16.u.serde_de {n} {xb(pre + body + Z1)}"                     # trailing byte (ignored)
        yield f"c16.u.serde_de {n} {xb(pre + body[:-1])}"                            # short payload
        yield f"c16.u.serde_de {n} {xb((nb - 1).to_bytes(8, 'little') + body[:-1])}"  # wrong announced length
        yield f"c16.u.serde_de {n} {xb((nb + 1).to_bytes(8, 'little') + body + O1)}"
        yield f"c16.u.serde_de {n} {xb(pre[:5])}"
        yield f"c16.u.serde_de {n} x"
        yield f"c16.u.serde_de {n} {xb((1 << 63).to_bytes(8, 'little') + body)}"
        yield f"c16.u.serde_de {n} {xb(nb.to_bytes(8, 'big') + body)}"

    # ------------------------------------------------------------------ crate-internal decode_hex_byte through the hooks
    # (emitted last from its own PRNG stream: the public lines above are the same as before the hooks existed)
    yield from hook_lines(tier, random.Random(rng.getrandbits(32)))

    # ------------------------------------------------------------------ coverage round (after everything else: the lines above are unchanged)
    yield from coverage_lines(tier, rng)


# ---------------------------------------------------------------------- coverage round
WRAP_KINDS = ['x', 'X', 'd', 'b', '#x', '#X', '#b']            # what NonZero<T> / Odd<T> forward (Debug is derived)
CM = {1: 0xffffffff00000001, 2: (1 << 64) + 1,                # compile-time moduli of the harness (C16M1/2/4)
      4: 0xffffffff00000000ffffffffffffffffbce6faada7179e84f3b9cac2fc632551}


def frame(nb, body, ln=None):
    return (nb if ln is None else ln).to_bytes(8, 'little') + body


def bad_frames(rng, nb):
    """malformed bincode frames of an `nb`-byte array (same shapes as the Uint serde framing errors)"""
    body = rbytes(rng, nb)
    return [frame(nb, body) + bytes([0]), frame(nb, body[:-1]), frame(nb, body[:-1], nb - 1), frame(nb, body + bytes([1]), nb + 1),
            frame(nb, body)[:5], b'', frame(nb, body, 1 << 63), nb.to_bytes(8, 'big') + body, frame(nb, b''), frame(nb, body, 0)]


def coverage_lines(tier, rng):
    """serde of Limb / Wrapping / Checked / ConstMontyForm, word and limb views of Int, the mutable views of
    Uint / Int / BoxedUint, From<Limb> for Word / WideWord, From<Odd<Uint>> for BoxedUint, the formatting traits
    forwarded by NonZero / Odd (incl. Octal through a harness-local type), Display of the two error enums."""
    quick = tier == 'quick'
    widths = WIDTHS_Q if quick else WIDTHS_T
    reps = 6 if quick else 120

    # ---- Limb
    ws = EDGE_WORDS + [0x0102030405060708, 0xf1e2d3c4b5a69788] + [limb_choice(rng) for _ in range(reps)]
    for w in ws:
        le = w.to_bytes(8, 'little')
        yield f"c16.l.serde_ser {hx(w)}"
        yield f"c16.l.serde_de {xb(le)}"
        yield f"c16.l.serde_de {xb(le + bytes([rng.randrange(256)]))}"         # trailing byte: ignored
        yield f"c16.l.serde_de {xb(le[:rng.randrange(8)])}"                    # too short
        yield f"c16.l.to_prim {hx(w)}"
        for k in rng.sample(WRAP_KINDS, 2):
            yield f"c16.nz.l.fmt {k} {hx(w)}"
    for k in range(9):
        yield f"c16.l.serde_de {xb(bytes(range(0x11, 0x11 + k)))}"             # every length 0..8
    for k in WRAP_KINDS:
        yield f"c16.nz.l.fmt {k} {hx(0xabcdef0123456789)}"
        yield f"c16.nz.l.fmt {k} 0"
        yield f"c16.odd.l.fmt {k}"
    for v in [0, 1, 7, 8, 9, 63, 64, 0o777, 0o1000, 1 << 62, 1 << 63, (1 << 63) - 1, WMAX, WMAX - 1] + [limb_choice(rng) for _ in range(reps)]:
        yield f"c16.nz.octal o {hx(v)}"
        yield f"c16.nz.octal #o {hx(v)}"
    yield "c16.odd.octal o"
    yield "c16.odd.octal #o"

    # ---- fixed widths
    for n in widths:
        nb = 8 * n
        m = 1 << (64 * n)
        pat = int.from_bytes(bytes((i + 1) & 0xff for i in range(nb)), 'big') % m
        vals = [0, 1, 2, m - 1, m - 2, m >> 1, (m >> 1) | 1, pat] + [value(rng, n) for _ in range(reps)]
        for v in vals:
            le = v.to_bytes(nb, 'little')
            yield f"c16.w.serde_ser {n} {hx(v)}"
            yield f"c16.w.serde_de {n} {xb(frame(nb, le))}"
            yield f"c16.ck.serde_ser {n} 1 {hx(v)}"
            yield f"c16.ck.serde_ser {n} 0 {hx(v)}"
            yield f"c16.ck.serde_de {n} {xb(bytes([1]) + frame(nb, le))}"
            yield f"c16.i.words {n} {hx(v)}"
            yield f"c16.b.from_odd {n} {hx(v)}"
            yield f"c16.b.from_odd {n} {hx(v | 1)}"
            for k in rng.sample(WRAP_KINDS, 2):
                yield f"c16.nz.fmt {n} {k} {hx(v)}"
                yield f"c16.nz.i.fmt {n} {k} {hx(v)}"
                yield f"c16.odd.fmt {n} {k} {hx(v | 1)}"
                yield f"c16.odd.i.fmt {n} {k} {hx(v | 1)}"
            i = rng.randrange(n)
            w = limb_choice(rng)
            yield f"c16.u.words_mut {n} {hx(v)} {i} {hx(w)}"
            yield f"c16.i.words_mut {n} {hx(v)} {i} {hx(w)}"
        # a store at every index (sampled above 8 limbs), into an all-distinct pattern / all-ones / zero
        idx = range(n) if n <= 8 else sorted(set([0, 1, n // 2, n - 2, n - 1] + [rng.randrange(n) for _ in range(4)]))
        for i in idx:
            for (v, w) in ((pat, WMAX), (m - 1, 0), (0, 1 << 63)):
                yield f"c16.u.words_mut {n} {hx(v)} {i} {hx(w)}"
                yield f"c16.i.words_mut {n} {hx(v)} {i} {hx(w)}"
        for k in WRAP_KINDS:
            v = value(rng, n) | 1
            yield f"c16.nz.fmt {n} {k} {hx(v)}"
            yield f"c16.odd.fmt {n} {k} {hx(v)}"
            yield f"c16.nz.i.fmt {n} {k} {hx(v)}"
            yield f"c16.odd.i.fmt {n} {k} {hx(v)}"
        yield f"c16.nz.fmt {n} x 0"                   # not admissible: no wrapper to format
        yield f"c16.nz.i.fmt {n} x 0"
        yield f"c16.odd.fmt {n} x {hx(m - 2)}"
        yield f"c16.odd.i.fmt {n} x 2"
        # framing errors of the wrappers' serde
        for f in bad_frames(rng, nb):
            yield f"c16.w.serde_de {n} {xb(f)}"
            yield f"c16.ck.serde_de {n} {xb(bytes([1]) + f)}"
        le = pat.to_bytes(nb, 'little')
        yield f"c16.ck.serde_de {n} x"                                   # no tag byte
        yield f"c16.ck.serde_de {n} x00"                                 # tag 0: absent
        yield f"c16.ck.serde_de {n} {xb(bytes([0]) + frame(nb, le))}"    # tag 0, the rest is not read
        yield f"c16.ck.serde_de {n} x01"                                 # tag 1, nothing after
        for t in (2, 0x7f, 0x80, 0xff, rng.randrange(2, 256)):
            yield f"c16.ck.serde_de {n} {xb(bytes([t]) + frame(nb, le))}"    # invalid Option tag

    # ---- BoxedUint: mutable views, wrapper formatting
    for n in [1, 2, 3, 4, 5, 9]:
        m = 1 << (64 * n)
        pat = int.from_bytes(bytes((i + 1) & 0xff for i in range(8 * n)), 'big')
        for i in range(n):
            for (v, w) in ((pat, WMAX), (m - 1, 0), (value(rng, n), limb_choice(rng))):
                yield f"c16.b.words_mut {n} {hx(v)} {i} {hx(w)}"
        for k in WRAP_KINDS:
            v = value(rng, n)
            yield f"c16.nz.b.fmt {n} {k} {hx(v)}"
            yield f"c16.odd.b.fmt {n} {k} {hx(v | 1)}"
        yield f"c16.nz.b.fmt {n} x 0"
        yield f"c16.odd.b.fmt {n} #b {hx(m - 2)}"

    # ---- ConstMontyForm serde: the raw Montgomery representation around the modulus, limb by limb
    for n, mod in CM.items():
        nb = 8 * n
        m = 1 << (64 * n)
        edge = [0, 1, mod - 1, mod, mod + 1, m - 1, mod >> 1, mod ^ 1]
        for k in range(n):
            edge += [(mod - (1 << (64 * k))) % m, (mod + (1 << (64 * k))) % m, mod & ((1 << (64 * (k + 1))) - 1), (mod >> (64 * k)) << (64 * k)]
        vals = list(dict.fromkeys(edge)) + [rng.randrange(mod) for _ in range(reps)] + [value(rng, n) for _ in range(reps)]
        for v in vals:
            yield f"c16.cm.serde_ser {n} {hx(mod)} {hx(v)}"
            yield f"c16.cm.serde_de {n} {hx(mod)} {xb(frame(nb, v.to_bytes(nb, 'little')))}"
            yield f"c16.cm.serde_de {n} {hx(mod)} {xb(frame(nb, v.to_bytes(nb, 'big')))}"
            yield f"c16.cm.roundtrip {n} {hx(mod)} {hx(v)}"
        for f in bad_frames(rng, nb):
            yield f"c16.cm.serde_de {n} {hx(mod)} {xb(f)}"

    # ---- Display of the error enums
    for k in ('Empty', 'InvalidDigit', 'InputSize', 'Precision'):
        yield f"c16.err.decode {k}"
    for bp, b in ((8, b'\x01\x00'), (7, b'\xff'), (8, b'\xff'), (0, b''), (0, b'\x00'), (64, bytes(9)), (63, b'\x80' + bytes(7)),
                  (63, b'\x7f' + bytes(7)), (1, b'\x02'), (1, b'\x01'), (520, b'\x01' + bytes(65))):
        yield f"c16.err.boxed_decode {bp} {xb(b)}"
    for t in ('', 'exhausted', 'rng failure: é', '{}', 'x' * 40):
        yield f"c16.err.randbits rand_core {xt(t)}"
    for (x, y) in ((0, 0), (5, 64), (64, 5), (4294967295, 4294967295), (256, 255), (rng.randrange(1 << 32), rng.randrange(1 << 32))):
        yield f"c16.err.randbits mismatch {x} {y}"
        yield f"c16.err.randbits too_large {x} {y}"


def canon(line, out):
    """`Int::<1>::from_i128(v)` for a value that FITS one limb: the property is met both by returning the
    value and by refusing (a limb-count assertion like `Uint::from_u128`'s); both canonicalise to one
    token.  A value that does not fit must be refused (L0 = panic) — nothing is canonicalised there, and
    any other output for a fitting value stays as it is (so a wrong value is still a disagreement)."""
    t = line.split()
    if len(t) == 4 and t[0] == 'c16.i.from_prim' and t[1] == '1' and t[2] == 'i128':
        v = int(t[3], 16)
        sv = v - (1 << 128) if v >> 127 else v
        if -(1 << 63) <= sv < (1 << 63) and out in ('panic', format(sv % (1 << 64), 'x')):
            return 'value-or-refusal'
    return out
