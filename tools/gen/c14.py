"""C14 — signed division flavours of Int<LIMBS>: op lines `c14.<op> n a [m] b`.
Signed operands are written as the hex of their two's-complement limbs."""
from .common import *
from .c13 import enc, edges, sval, fits

W6 = [1, 2, 3, 4, 8, 16]
PAIRS = [(1, 1), (2, 2), (3, 3), (4, 4), (8, 8), (16, 16), (1, 2), (2, 1), (1, 3), (3, 1), (2, 4), (4, 2),
         (3, 4), (4, 3), (4, 8), (8, 4), (1, 8), (8, 1), (8, 16), (16, 8)]

RULE = ("operation lines from corpus + directed families (all four sign combinations; exact and inexact division; |n| < |d|; "
        "d = +-1; n = MIN; d = MIN; MIN / -1; zero divisor; unsigned divisors with the top bit set; all width pairs for the "
        "vartime forms) + seeded structured random; each line executed on the real crate in two build profiles, on the Lean "
        "model of the code as written (L1) and on Int.tdiv/tmod resp. Int.fdiv/fmod (L0); every line also compares all forwarding "
        "forms (single-result methods, CheckedDiv, DivVartime, / % /= %= on Int and Wrapping<Int>, Checked<Int> /) inside the "
        "harness; non-trivial = some operand token longer than 2 hex digits")
ASSUMPTIONS = ["Uint::div_rem(_vartime) is taken at value level (exactness is property C02)",
               "a zero divisor cannot be passed to the NonZero-taking forms; the lines with d = 0 exercise checked_div*, CheckedDiv, Checked<Int> / and NonZero::new only"]


def spairs(rng, n, m, reps):
    """(dividend of n limbs, signed divisor of m limbs)"""
    En, Em = edges(n), edges(m)
    mnn, mnm = -(1 << (64 * n - 1)), -(1 << (64 * m - 1))
    out = [(a, b) for a in En[:9] for b in Em[:9]]
    out += [(mnn, -1), (mnn, 1), (mnn, mnm), (mnn + 1, -1), (-mnn - 1, -1), (0, mnm), (mnm if fits(mnm, n) else 5, mnm), (8, 3), (-8, 3), (8, -3), (-8, -3)]
    for _ in range(reps):
        k = rng.randrange(8)
        d = sval(rng, m)
        if k == 0:   # small divisor
            d = rng.choice([1, -1]) * (rng.getrandbits(rng.randrange(1, 64)) + 1)
        if d == 0 and rng.randrange(4):
            d = rng.choice([1, -1, 2, -2, 3, -3])
        a = sval(rng, n)
        if k == 1 and d != 0:   # exact division
            q = sval(rng, n)
            t = q * d
            a = t if fits(t, n) else (d * rng.choice([1, -1, 2, -2, 0]))
            if not fits(a, n):
                a = 0
        elif k == 2 and d != 0:   # one off an exact multiple
            q = rng.getrandbits(rng.randrange(1, 64 * n))
            t = rng.choice([1, -1]) * q * abs(d) // max(1, abs(d)) * 1
            t = (t // d) * d + rng.choice([1, -1])
            a = t if fits(t, n) else a
        elif k == 3:            # |a| < |d|
            if abs(d) > 1:
                a = rng.choice([1, -1]) * rng.randrange(abs(d))
                if not fits(a, n):
                    a = sval(rng, n)
        elif k == 4:            # equal magnitudes
            a = rng.choice([d, -d])
            if not fits(a, n):
                a = sval(rng, n)
        for sa in (1, -1):
            for sd in (1, -1):
                x, y = sa * a, sd * d
                if fits(x, n) and fits(y, m):
                    out.append((x, y))
    return out


def upairs(rng, n, m, reps):
    """(dividend of n limbs, unsigned divisor of m limbs)"""
    En = edges(n)
    top = 1 << (64 * m)
    U = [1, 2, 3, top - 1, top // 2, top // 2 - 1, top // 2 + 1, top - 2, 1 << (32 * m), 0]
    out = [(a, u) for a in En[:9] for u in U] + [(8, 3), (-8, 3)]
    for _ in range(reps):
        k = rng.randrange(6)
        u = value(rng, m)
        if k == 0:
            u = rng.getrandbits(rng.randrange(1, 64)) + 1
        if k == 1:
            u |= top // 2      # top bit set
        if u == 0 and rng.randrange(4):
            u = 1
        a = sval(rng, n)
        if k == 2 and u:
            q = rng.getrandbits(rng.randrange(1, 64 * n))
            t = q // u * u + rng.choice([0, 0, 1, -1])
            a = t if fits(t, n) else a
        elif k == 3 and u > 1:
            a = rng.randrange(u)
            if not fits(a, n):
                a = sval(rng, n)
        for sa in (1, -1):
            if fits(sa * a, n):
                out.append((sa * a, u))
    return out


def gen(tier, rng):
    quick = tier == 'quick'
    reps = 60 if quick else 600
    for n in W6:
        r = reps if n <= 8 else reps // 2
        for a, d in spairs(rng, n, n, r):
            yield f"c14.div_rem {n} {enc(a, n)} {enc(d, n)}"
            yield f"c14.div_rem_floor {n} {enc(a, n)} {enc(d, n)}"
        for a, u in upairs(rng, n, n, r):
            yield f"c14.div_rem_uint {n} {enc(a, n)} {hx(u)}"
            yield f"c14.div_rem_floor_uint {n} {enc(a, n)} {hx(u)}"
    for (n, m) in PAIRS:
        r = (reps if max(n, m) <= 8 else reps // 2) // 2
        for a, d in spairs(rng, n, m, r):
            yield f"c14.div_rem_vartime {n} {enc(a, n)} {m} {enc(d, m)}"
            yield f"c14.div_rem_floor_vartime {n} {enc(a, n)} {m} {enc(d, m)}"
        for a, u in upairs(rng, n, m, r):
            yield f"c14.div_rem_uint_vartime {n} {enc(a, n)} {m} {hx(u)}"
            yield f"c14.div_rem_floor_uint_vartime {n} {enc(a, n)} {m} {hx(u)}"
