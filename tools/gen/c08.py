"""C08 — operation histories over Montgomery forms, parameter lines, raw reductions."""
import os, re
from .common import *

RULE = ('one line = one whole operation history (`c08.hist`), one parameter set (`c08.params*`), one raw '
        '`montgomery_reduction` (`c08.redc`) or one `mul_mod`; after EVERY step of a history the harness prints '
        'the stored Montgomery form and retrieve() of the value the step produced, and the line is compared '
        'token by token with the limb model (L1) and with the evaluation in Z/m (L0); distinct = distinct lines; '
        'non-trivial = history with >= 4 steps containing a multiplication/square, or any params/redc/mul_mod line '
        'with a modulus above 2^8')
ASSUMPTIONS = ['moduli are odd (the constructors take Odd<…>)',
               'const moduli are the fixed table in harness/src/ops/c08.rs (impl_modulus! needs literals)',
               'boxed operands have the precision of the modulus (documented precondition, debug_assert only)',
               'Montgomery representatives written with from_montgomery / as_montgomery_mut are canonical (< m): they are caller-supplied by documentation and the property constrains canonical values only',
               'lincomb_vartime gets at least one product (the runtime and boxed forms assert it)',
               '`c08.hook.*` lines call almost_montgomery_mul(_by_one) / montgomery_reduction_inner on raw limb slices (unreduced inputs included) and read the private parameter fields, through crypto_bigint::verif_hooks']

HERE = os.path.dirname(os.path.abspath(__file__))
FIXED = [1, 2, 3, 4, 6, 8, 16, 32]          # widths with Concat (MontyParams::new)


def const_table():
    src = open(os.path.join(HERE, '..', '..', 'harness', 'src', 'ops', 'c08.rs')).read()
    return [(int(n), int(h, 16)) for _, n, h in re.findall(r'\((M\w+), U\d+, (\d+), "([0-9a-f]+)"\)', src)]


def moduli(rng, n):
    """the property's moduli for n limbs"""
    bits = 64 * n
    R = 1 << bits
    ms = [1, 3, R - 1, (R >> 1) + 1, (R - 1) // 3, (R >> 2) - 1]
    # whole zero high limbs
    if n > 1:
        k = rng.randrange(1, n)
        ms.append(rng.getrandbits(64 * k) | 1 | (1 << (64 * k - 1)))
    else:
        ms.append(rng.getrandbits(rng.randrange(2, 33)) | 1)
    ms.append(rng.getrandbits(bits) | 1 | (1 << (bits - 1)))      # full-size random
    ms.append(rng.getrandbits(bits) | 1)                           # any random odd
    return ms


def operand(rng, n, m):
    R = 1 << (64 * n)
    k = rng.randrange(12)
    if k == 0: return 0
    if k == 1: return 1 % R
    if k == 2: return m - 1
    if k == 3: return (m - 1) // 2
    if k == 4: return ((m + 1) // 2) % R
    if k == 5: return rng.randrange(m)
    if k == 6: return rng.getrandbits(64 * n)             # possibly >= m: `new` must reduce
    if k == 7: return R - 1
    if k == 8: return m % R
    if k == 9: return (m + 1) % R
    return value(rng, n)


BIN_FORMS = ['m', 'rr', 'rv', 'vr', 'vv']
ASSIGN_FORMS = ['a', 'av']


REP_OF = {'dyn': 'dyn', 'dynv': 'dyn', 'dynt': 'dyn', 'const': 'const', 'boxed': 'boxed', 'boxedv': 'boxed', 'boxedt': 'boxed'}


def one_step(rng, rep, size, n, m, steps):
    """append one step of the original machine (possibly none); returns (size, rep)"""
    h = lambda: rng.randrange(size) if rng.randrange(3) else size - 1 - rng.randrange(min(size, 3))
    c = rng.randrange(100)
    if c < 6:
        steps.append('new,' + hx(operand(rng, n, m))); size += 1
    elif c < 8:
        steps.append('zero'); size += 1
    elif c < 10:
        steps.append('one'); size += 1
    elif c < 50:
        name = rng.choice(['add', 'sub', 'mul', 'mul'])
        forms = BIN_FORMS + ASSIGN_FORMS + (['mm'] if name == 'mul' and rep != 'const' else [])
        form = rng.choice(forms)
        i, j = h(), (h() if rng.randrange(4) else None)
        if j is None: j = i
        steps.append(f'{name}.{form},{i},{j}')
        if form in BIN_FORMS: size += 1
    elif c < 58:
        steps.append(f"neg.{rng.choice(['m', 'v', 'r'])},{h()}"); size += 1
    elif c < 66:
        form = rng.choice(['', '.t'] if rep != 'const' else [''])
        steps.append(f'double{form},{h()}'); size += 1
    elif c < 80:
        forms = ['m', 't'] + (['a', 'mm'] if rep != 'const' else [])
        form = rng.choice(forms)
        steps.append(f'square.{form},{h()}')
        if form in ('m', 't'): size += 1
    elif c < 90:
        forms = [''] + (['.t', '.a'] if rep != 'const' else []) + (['.ai'] if rep == 'boxed' else [])
        form = rng.choice(forms)
        steps.append(f'div2{form},{h()}')
        if form in ('', '.t'): size += 1
    elif c < 94:
        if rep != 'boxed':
            steps.append(f'select,{h()},{h()},{rng.randrange(2)}'); size += 1
    elif c < 97:
        if rep != 'const':
            steps.append(f'copy,{h()},{h()}')
    else:
        if rep == 'const':
            steps.append('conv'); rep = 'dyn'
        elif rep == 'dyn' and rng.randrange(2):
            steps.append('conv'); rep = 'boxed'
    return size, rep


def history(rng, kind, n, m, length):
    """a list of step strings valid for the representation the history is in at each point"""
    rep = REP_OF[kind]
    steps = []
    size = 0
    # seed values
    for _ in range(rng.randrange(2, 5)):
        c = rng.randrange(6)
        if c == 0: steps.append('zero')
        elif c == 1: steps.append('one')
        else: steps.append('new,' + hx(operand(rng, n, m)))
        size += 1
    while len(steps) < length:
        size, rep = one_step(rng, rep, size, n, m, steps)
    return steps


# ---------------------------------------------------------------- coverage round: the remaining public forms

def canonical(rng, n, m):
    """a caller-supplied Montgomery representative; the property only speaks about canonical ones (< m)"""
    R = 1 << (64 * n)
    k = rng.randrange(8)
    if k == 0: return 0
    if k == 1: return 1 % m
    if k == 2: return m - 1
    if k == 3: return (m - 1) // 2
    if k == 4: return R % m                 # the representative of 1
    if k == 5: return (m + 1) // 2 % m
    return rng.randrange(m)


def x_step(rng, rep, size, n, m, steps):
    """append one of the coverage-round steps valid in representation `rep`; returns the new size"""
    h = lambda: rng.randrange(size) if rng.randrange(3) else size - 1 - rng.randrange(min(size, 3))
    pool = ['frommont', 'frommont', 'zeroize', 'eq', 'eq', 'eqdup', 'obs.t', 'obs.tm']
    if rep != 'boxed': pool += ['setmont', 'setmont']
    if rep != 'const': pool += ['lincomb', 'lincomb', 'lincomb', 'new.t', 'zero.t', 'one.t', 'obs.p', 'obs.pt']
    if rep == 'boxed': pool += ['new.arc', 'new.arc', 'obs.z', 'obs.z', 'obs.bp']
    if rep == 'const': pool += ['zero.d', 'zero.z', 'obs.z', 'obs.z']
    c = rng.choice(pool)
    if c == 'frommont':
        steps.append('frommont,' + hx(canonical(rng, n, m))); size += 1
    elif c == 'setmont':
        steps.append(f'setmont,{h()},{hx(canonical(rng, n, m))}')
    elif c == 'zeroize':
        i = h()
        steps.append(f'zeroize,{i}')
        if rng.randrange(2):                     # the zeroized value IS zero
            steps.append('zero'); size += 1
            steps.append(f'eq,{i},{size - 1}')
    elif c == 'eq':
        i = h()
        steps.append(f'eq,{i},{i if rng.randrange(3) == 0 else h()}')
    elif c == 'eqdup':                           # two handles holding the same value
        i, j = h(), h()
        if rep == 'boxed':
            steps.append(f'copy,{i},{j}')
            steps.append(f'eq,{i},{j}')
        else:
            b = rng.randrange(2)
            steps.append(f'select,{i},{j},{b}'); size += 1
            steps.append(f'eq,{size - 1},{j if b else i}')
            steps.append(f'eq,{size - 1},{i if b else j}')
    elif c == 'lincomb':
        # 1..9 products: moduli without leading zero bits take one window per product (max_accum = 1), the others
        # 2^lz products per window
        k = rng.choice([1, 1, 2, 2, 3, 4, 5, 9, 17])
        ps = []
        for _ in range(k):
            i = h()
            ps += [i, i if rng.randrange(5) == 0 else h()]
        steps.append('lincomb.t,' + ','.join(map(str, ps))); size += 1
    elif c in ('new.t', 'new.arc'):
        steps.append(f'{c},{hx(operand(rng, n, m))}'); size += 1
    elif c in ('zero.t', 'one.t', 'zero.d', 'zero.z'):
        steps.append(c); size += 1
    else:                                        # obs.*
        steps.append(f'{c},{h()}')
    return size


def history_x(rng, kind, n, m, length):
    """a history mixing the original steps with the coverage-round ones"""
    rep = REP_OF[kind]
    steps = []
    size = 0
    for _ in range(rng.randrange(2, 5)):
        c = rng.randrange(8)
        if c == 0: steps.append('zero.t' if rep != 'const' else rng.choice(['zero.d', 'zero.z']))
        elif c == 1: steps.append('one.t' if rep != 'const' else 'one')
        elif c == 2: steps.append('frommont,' + hx(canonical(rng, n, m)))
        else: steps.append(('new.t,' if rep != 'const' and rng.randrange(2) else 'new,') + hx(operand(rng, n, m)))
        size += 1
    while len(steps) < length:
        if rng.randrange(100) < 45:
            size = x_step(rng, rep, size, n, m, steps)
        else:
            size, rep = one_step(rng, rep, size, n, m, steps)
    return steps


def cov_lines(tier, rng, consts):
    """coverage round: trait constructors, `ct_eq` of parameter sets, histories with the additional steps"""
    quick = tier == 'quick'
    W = 1 << 64
    boxed_widths = list(range(1, 13)) + [17, 33] if quick else list(range(1, 34))
    for n in FIXED:
        for m in moduli(rng, n):
            yield f"c08.params dynt {n} {hx(m)}"
            yield f"c08.params boxedt {n} {hx(m)}"
            # equal, low limb / high limb / one bit different, neighbours
            R = 1 << (64 * n)
            others = [m, (m + 2) % R | 1, m ^ (1 << (64 * n - 1)), m ^ (1 << rng.randrange(1, 64 * n)) if n * 64 > 1 else m,
                      rng.getrandbits(64 * n) | 1, 1, R - 1]
            for m2 in dict.fromkeys(x for x in others if 0 < x < R and x & 1):
                yield f"c08.params_cteq {n} {hx(m)} {hx(m2)}"
            # several operations on ONE multiplier object (its product buffer must be cleared between them)
            for ops in ("ms", "ss", "sm", "mms", "smsm", "sssss", "msmsmsms"):
                xx, yy = rng.getrandbits(64 * n), rng.choice([rng.getrandbits(64 * n), m - 1, 2, R - 1])
                yield f"c08.mmseq dyn {n} {hx(m)} {hx(xx)} {hx(yy)} {ops}"
                yield f"c08.mmseq boxed {n} {hx(m)} {hx(xx)} {hx(yy)} {ops}"
            # selection between two different parameter sets (different leading-zero counts, different -1/m mod 2^64)
            for m2 in dict.fromkeys([3, (1 << 17) - 1, R - 1, (R >> 1) + 1, (R >> 65 | 1) if n > 1 else 5, rng.getrandbits(64 * n) | 1]):
                if 0 < m2 < R and m2 != m:
                    for c in (0, 1):
                        yield f"c08.params_select {n} {hx(m)} {hx(m2)} {c} {hx(rng.getrandbits(64 * n))}"
    for n in boxed_widths:
        if n in FIXED: continue
        for m in moduli(rng, n)[:4]:
            yield f"c08.params boxedt {n} {hx(m)}"
    # histories
    maxlen = 48 if quick else 160
    for rep in range(2 if quick else 20):
        for n in FIXED:
            if quick and n >= 16 and rep >= 1: continue
            lim = maxlen if n <= 8 else max(12, maxlen // (n // 4))
            for m in moduli(rng, n):
                kind = rng.choice(['dyn', 'dynv', 'dynt'])
                yield f"c08.hist {kind} {n} {hx(m)} {';'.join(history_x(rng, kind, n, m, rng.randrange(4, lim + 1)))}"
        for n in boxed_widths:
            if quick and n > 12 and rep >= 1: continue
            lim = maxlen if n <= 8 else max(12, maxlen // (n // 4))
            for m in moduli(rng, n):
                kind = rng.choice(['boxed', 'boxedv', 'boxedt'])
                yield f"c08.hist {kind} {n} {hx(m)} {';'.join(history_x(rng, kind, n, m, rng.randrange(4, lim + 1)))}"
        for n, m in consts:
            if quick and n >= 16 and rep >= 1: continue
            lim = maxlen if n <= 8 else max(12, maxlen // (n // 4))
            yield f"c08.hist const {n} {hx(m)} {';'.join(history_x(rng, 'const', n, m, rng.randrange(4, lim + 1)))}"
    for _ in range(2500 if quick else 60000):
        n = rng.choice([1, 1, 2, 2, 3, 4] if quick else [1, 1, 2, 2, 3, 4, 6, 8])
        m = rng.choice(moduli(rng, n))
        kind = rng.choice(['dyn', 'dynv', 'dynt', 'boxed', 'boxedv', 'boxedt'])
        yield f"c08.hist {kind} {n} {hx(m)} {';'.join(history_x(rng, kind, n, m, rng.randrange(3, 17)))}"
    small_consts = [(n, m) for n, m in consts if n <= 4]
    for _ in range(400 if quick else 8000):
        n, m = rng.choice(small_consts)
        yield f"c08.hist const {n} {hx(m)} {';'.join(history_x(rng, 'const', n, m, rng.randrange(3, 17)))}"


def hist_line(rng, kind, n, m, length):
    return f"c08.hist {kind} {n} {hx(m)} {';'.join(history(rng, kind, n, m, length))}"


def redc_lines(rng, n, m, reps):
    R = 1 << (64 * n)
    k = (-pow(m, -1, 1 << 64)) % (1 << 64)
    Ts = [0, 1, m - 1, m, R - 1, R, m * R - 1, (m - 1) * R + (R - 1), (m - 1) * (m - 1), m * R - m]
    Ts += [rng.randrange(m * R) for _ in range(reps)]
    Ts += [(rng.randrange(m) * rng.randrange(m)) for _ in range(reps)]
    for T in Ts:
        if T >= m * R: continue
        yield f"c08.redc {n} {hx(T % R)} {hx(T // R)} {hx(m)} {hx(k)}"
    # outside the precondition (T >= m*R): only model vs code
    for _ in range(max(1, reps // 4)):
        T = rng.randrange(R * R)
        yield f"c08.redc {n} {hx(T % R)} {hx(T // R)} {hx(m)} {hx(k)}"


def hook_lines(tier, rng, consts):
    """`c08.hook.*`: almost_montgomery_mul / _by_one on UNREDUCED inputs (any x, y < B^n: all-ones, multiples of m,
    values just below B^n with moduli just below B^n so that the `ts` overflow bit and `conditional_sub` fire, tiny
    moduli so that floor(x/m) is huge), montgomery_reduction_inner on ANY double-width T (also T >= m*B^n, where the
    meta carry is needed), and the private parameter fields through verif_fields()."""
    quick = tier == 'quick'
    W = 1 << 64
    widths = [1, 2, 3, 4, 5, 7, 8, 16, 33] if quick else list(range(1, 13)) + [16, 17, 24, 32, 33, 48, 64]
    for n in widths:
        R = 1 << (64 * n)
        ms = moduli(rng, n) + [R - 3, R - W + 1 if n > 1 else R - 5, (R >> 1) - 1, W - 1 if n > 1 else 5]
        for m in dict.fromkeys(x for x in ms if 1 <= x < R and x & 1):
            k = (-pow(m, -1, W)) % W
            mh, kh = hx(m), hx(k)
            near = lambda: R - 1 - rng.getrandbits(rng.randrange(1, 64))
            xs = [R - 1, m, (R - 1) // m * m, 0, 1, near(), rng.getrandbits(64 * n), operand(rng, n, m), value(rng, n)]
            ys = [R - 1, m, R - 2, near(), 1, rng.getrandbits(64 * n), value(rng, n)]
            pairs = [(R - 1, R - 1), (R - 1, m), (m, m), (near(), near()), ((R - 1) // m * m, R - 1), (0, R - 1), (1, 1)]
            for _ in range(3 if quick else 30):
                pairs.append((rng.choice(xs), rng.choice(ys)))
                pairs.append((rng.getrandbits(64 * n), rng.getrandbits(64 * n)))
            if not quick:
                pairs += [(x, y) for x in xs[:5] for y in ys[:4]]
            for x, y in dict.fromkeys(pairs):
                yield f"c08.hook.amm {n} {hx(x)} {hx(y)} {mh} {kh}"
            for x in dict.fromkeys(xs):
                yield f"c08.hook.amm_by_one {n} {hx(x)} {mh} {kh}"
            Ts = [R * R - 1, m * R - 1, m * R, (m - 1) * (m - 1), R * R - R, R - 1, 0, m * R + R - 1]
            Ts += [rng.randrange(R * R) for _ in range(3 if quick else 20)] + [rng.randrange(m * R) for _ in range(2 if quick else 20)]
            Ts += [value(rng, 2 * n) for _ in range(2 if quick else 10)]
            for T in dict.fromkeys(t for t in Ts if 0 <= t < R * R):
                yield f"c08.hook.redc_inner {n} {hx(T % R)} {hx(T // R)} {mh} {kh}"
        # a wrong / arbitrary k and an even modulus: only the limb model is compared (no L0)
        m = rng.getrandbits(64 * n)
        yield f"c08.hook.amm {n} {hx(value(rng, n))} {hx(value(rng, n))} {hx(m)} {hx(rng.getrandbits(64))}"
        yield f"c08.hook.redc_inner {n} {hx(value(rng, n))} {hx(value(rng, n))} {hx(m)} {hx(rng.getrandbits(64))}"
    # ---- private parameter fields
    for n in FIXED:
        for m in moduli(rng, n):
            yield f"c08.hook.params dyn {n} {hx(m)}"
            yield f"c08.hook.params dynv {n} {hx(m)}"
    for n in (list(range(1, 13)) + [17, 33] if quick else range(1, 41)):
        for m in moduli(rng, n):
            yield f"c08.hook.params boxed {n} {hx(m)}"
            yield f"c08.hook.params boxedv {n} {hx(m)}"
    for n, m in consts:
        yield f"c08.hook.params dynfromconst {n} {hx(m)}"
        yield f"c08.hook.params boxedfromconst {n} {hx(m)}"


def gen(tier, rng):
    quick = tier == 'quick'
    maxlen = 64 if quick else 256
    hreps = 5 if quick else 40
    consts = const_table()

    # ---- parameter sets: every constructor, every listed modulus
    for n in FIXED:
        for m in moduli(rng, n):
            for kind in ('dyn', 'dynv', 'boxed', 'boxedv'):
                yield f"c08.params {kind} {n} {hx(m)}"
            yield f"c08.params_eq {n} {hx(m)}"
    for n in range(1, 34):
        if n in FIXED: continue
        for m in moduli(rng, n):
            yield f"c08.params boxed {n} {hx(m)}"
            yield f"c08.params boxedv {n} {hx(m)}"
    for n, m in consts:
        for kind in ('const', 'dynfromconst', 'boxedfromconst'):
            yield f"c08.params {kind} {n} {hx(m)}"
        yield f"c08.params_eq_const {n} {hx(m)}"

    # ---- raw reductions
    for n in ([1, 2, 3, 4, 6, 8, 16] if quick else with_all_fixed()):
        for m in moduli(rng, n):
            yield from redc_lines(rng, n, m, 6 if quick else 40)

    # ---- mul_mod through the Montgomery route
    for n in FIXED:
        for m in moduli(rng, n):
            for _ in range(2 if quick else 10):
                a, b = operand(rng, n, m), operand(rng, n, m)
                yield f"c08.mul_mod dyn {n} {hx(a)} {hx(b)} {hx(m)}"
                yield f"c08.mul_mod boxed {n} {hx(a)} {hx(b)} {hx(m)}"

    # ---- histories
    for rep in range(hreps):
        for n in FIXED:
            if quick and n >= 16 and rep >= 2: continue        # wide histories: two rounds are enough in quick
            lim = maxlen if n <= 8 else max(16, maxlen // (n // 4))
            for m in moduli(rng, n):
                for kind in ('dyn', 'dynv'):
                    yield hist_line(rng, kind, n, m, rng.randrange(4, lim + 1) if rep or rng.randrange(3) else lim)
        for n in range(1, 34):
            if quick and n > 12 and rep >= 2: continue
            lim = maxlen if n <= 8 else max(16, maxlen // (n // 4))
            for m in moduli(rng, n):
                kind = rng.choice(['boxed', 'boxedv'])
                yield hist_line(rng, kind, n, m, rng.randrange(4, lim + 1) if rep or rng.randrange(3) else lim)
        for n, m in consts:
            if quick and n >= 16 and rep >= 2: continue
            lim = maxlen if n <= 8 else max(16, maxlen // (n // 4))
            for _ in range(2):
                yield hist_line(rng, 'const', n, m, rng.randrange(4, lim + 1))
    # short histories, many: every prefix of small width gets dense coverage
    for _ in range(8000 if quick else 250000):
        n = rng.choice([1, 1, 2, 2, 3, 4] if quick else [1, 1, 2, 2, 3, 4, 6, 8])
        m = rng.choice(moduli(rng, n))
        kind = rng.choice(['dyn', 'dynv', 'boxed', 'boxedv'])
        yield hist_line(rng, kind, n, m, rng.randrange(3, 17))

    # ---- crate-internal functions through crypto_bigint::verif_hooks (emitted last from their own PRNG stream:
    #      the public lines above are the same as before the hooks existed)
    yield from hook_lines(tier, random.Random(rng.getrandbits(32)), consts)

    # ---- coverage round (own PRNG stream again: everything above is unchanged)
    yield from cov_lines(tier, random.Random(rng.getrandbits(32)), consts)


def with_all_fixed():
    return [1, 2, 3, 4, 5, 6, 7, 8, 12, 16, 32]


def nontrivial(line):
    t = line.split()
    if t[0] == 'c08.hist':
        steps = t[4].split(';')
        return len(steps) >= 4 and any(s.startswith(('mul', 'square', 'lincomb')) for s in steps)
    return any(len(x) > 2 for x in t[2:])
