"""C17 — radix strings: op-line generator.

Families (DESIGN.md §6 C17 / the property's quantifier text):
  fmt      radix exhaustive 2..=36 x widths (Uint 1,2,3,4,8,16,33,40; BoxedUint 1..=140 crossing the
           32-limb large-divisor threshold) x values 0, 1, r^j, r^j-1, 2^BITS-1, D^k (limb divisor
           powers), the large divisor and its neighbours / multiples, quotient-limb boundary values of
           the division encoder (top quotient limb = 2^(64-shift) and neighbours), structured random
  parse    strings from the grammar [+]?[0-9a-zA-Z_]+ : canonical, upper / mixed case, '+', leading
           zeros, interior / doubled / leading / trailing underscores, digits >= radix, other bytes
           (valid UTF-8 only: the API takes &str), empty, lone '+', exactly 2^BITS, 2^BITS-1 dressed
           with zeros and underscores, far too long, garbage after an overflowing prefix
  radix    outside 2..=36 (documented panic)
"""
import os
from .common import *

ALNUM = "0123456789abcdefghijklmnopqrstuvwxyz"
FIXED = [1, 2, 3, 4, 8, 16, 40]
FIXED_FMT = [1, 2, 3, 4, 8, 16, 33, 40]
LARGE = 32
VERIF = os.path.dirname(os.path.dirname(os.path.dirname(os.path.abspath(__file__))))

RULE = ('operation lines from corpus + directed families (radix exhaustive 2..36; value and string families of the '
        'property text) + seeded structured random; each line executed on the real crate in two build profiles and on '
        'the Lean model (L1) and the numeral specification (L0); distinct = distinct lines, non-trivial = the value / '
        'string token is longer than 2 characters')
ASSUMPTIONS = ['strings are valid UTF-8 (the API takes &str)', 'radix and precision arguments fit u32']


def xs(s):
    if isinstance(s, str):
        s = s.encode('utf-8')
    return 'x' + s.hex()


def fmt(r, x):
    if x == 0:
        return '0'
    out = []
    while x:
        out.append(ALNUM[x % r])
        x //= r
    return ''.join(reversed(out))


def ilog(r):
    k, p = 0, 1
    while p * r <= WMAX:
        p *= r
        k += 1
    return k


_P = {}


def params(r):
    """(digits_limb, div_limb, shift, digits_large, div_large) as radix_large_divisor computes them"""
    if r in _P:
        return _P[r]
    dl = ilog(r)
    D = r ** dl
    l = 64 - D.bit_length()
    big, dig = D, dl
    while big.bit_length() <= 64 * (LARGE - 1):
        big *= D
        dig += dl
    while (big * r).bit_length() <= 64 * LARGE:
        big *= r
        dig += 1
    _P[r] = (dl, D, l, dig, big)
    return _P[r]


def wrap_radices():
    """radices whose limb divisor is odd and needs a normalising shift: the quotient-limb boundary
    2^(64-shift) is reachable (see notes/C17.md, finding C17-encode-wrapped-shift)"""
    return [r for r in range(3, 37) if r & (r - 1) and params(r)[2] > 0 and params(r)[1] % 2 == 1]


def wrap_value(r, n, delta=0, low=12345):
    """n-limb value whose (n-1)-th division step leaves hi = floor(D/2^l) and the next quotient limb
    2^(64-l) + delta; None if it does not fit n limbs"""
    dl, D, l, _, _ = params(r)
    h = D >> l
    # smallest low limb making the quotient exactly 2^(64-l)
    q = (1 << (64 - l)) + delta
    top = q * D + (D // 3 if delta >= 0 else D - 1)
    if top >> 64 != h and delta == 0:
        return None
    x = top * D ** (n - 1) + low
    return x if x < (1 << (64 * n)) else None


# ------------------------------------------------------------------ value families

def values_for(r, n, rng, reps):
    bits = 64 * n
    m = 1 << bits
    dl, D, l, dig, big = params(r) if r & (r - 1) else (ilog(r), r ** ilog(r), 0, 0, 0)
    vs = [0, 1, m - 1, m - 2, m >> 1, (m >> 1) - 1, r - 1, r]
    # r^j, r^j - 1: largest, around limb-divisor multiples, a few random exponents
    jmax = 0
    p = 1
    while p * r < m:
        p *= r
        jmax += 1
    js = {jmax, jmax - 1, 1, 2, dl - 1, dl, dl + 1, 2 * dl, 2 * dl + 1}
    js |= {rng.randrange(1, jmax + 1) for _ in range(3)}
    for j in sorted(js):
        if 1 <= j <= jmax:
            vs += [r ** j, r ** j - 1, r ** j + 1]
    # D^k boundaries (each division step of the encoder)
    k = 1
    while D ** k < m and k <= n + 1:
        if k <= 2 or k >= n - 1 or rng.randrange(4) == 0:
            vs += [D ** k - 1, D ** k, D ** k * (r - 1)]
        k += 1
    if big and n >= LARGE:
        for v in [big - 1, big, big + 1, 2 * big, big * D, big * big - 1, big * big, big * big + 1, big * big * big,
                  big * (B - 1), big * B, big * (m // big) - 1, (m // big) * big]:
            if v < m:
                vs.append(v)
        # quotient after the large division has a zero top limb / is exactly one limb short
        q = rng.getrandbits(64 * max(1, n - LARGE))
        vs.append((q * big + rng.randrange(big)) % m)
    for _ in range(reps):
        vs.append(value(rng, n))
    return [v for v in vs if 0 <= v < m]


def wrap_family(r, n, with_triggers):
    out = []
    if r not in wrap_radices():
        return out
    # delta -1: largest top quotient limb that does not wrap (near miss); 0, 1: wrap (a digit is lost)
    for delta in [-1] + ([0, 1] if with_triggers else []):
        if n <= LARGE:
            x = wrap_value(r, n, delta)
            if x is not None:
                out.append(x)
        else:
            # through the 32-limb remainder of the large division
            _, _, _, _, big = params(r)
            rem = wrap_value(r, LARGE, delta)
            if rem is not None and rem < big:
                x = 7 * big + rem
                if x < (1 << (64 * n)):
                    out.append(x)
    return out


# ------------------------------------------------------------------ string families

def dress(rng, s):
    """grammar-preserving decorations of a canonical numeral"""
    k = rng.randrange(9)
    if k == 0:
        return '+' + s
    if k == 1:
        return '0' * rng.choice([1, 2, 19, 20, 64, 65]) + s
    if k == 2:
        return s.upper()
    if k == 3:
        return ''.join(c.upper() if rng.randrange(2) else c for c in s)
    if k in (4, 5) and len(s) > 1:
        cs = list(s)
        for _ in range(rng.randrange(1, 4)):
            i = rng.randrange(1, len(cs))
            cs.insert(i, '_' if k == 4 else '__')
        return ''.join(cs)
    if k == 6:
        return '+' + '0' * rng.randrange(1, 4) + '_' + s
    if k == 7:
        return '0_' * rng.randrange(1, 30) + s
    return s


BAD_INSERTS = ['_', ' ', '-', '+', '.', '/', ':', '@', '[', '`', '{', '\x00', '\x7f', 'é', '١', '１', '\U0001d7d9', '\n']


def spoil(rng, s, r):
    """non-numerals near a numeral"""
    k = rng.randrange(10)
    if k == 0:
        return '_' + s
    if k == 1:
        return s + '_'
    if k == 2:
        return '+_' + s
    if k == 3:
        return '++' + s
    if k == 4:
        return '-' + s
    if k == 5 and r < 36:   # a digit >= radix, either case
        c = ALNUM[rng.randrange(r, 36)]
        i = rng.randrange(len(s) + 1)
        return s[:i] + (c.upper() if rng.randrange(2) else c) + s[i:]
    if k == 6:
        i = rng.randrange(len(s) + 1)
        return s[:i] + rng.choice(BAD_INSERTS[1:]) + s[i:]
    if k == 7:
        return s + '+'
    if k == 8:
        return ' ' + s
    i = rng.randrange(len(s) + 1)
    return s[:i] + rng.choice(['é', '١', '１']) + s[i:]


FIXED_STRINGS = ['', '+', '_', '+_', '__', '0', '00', '+0', '0_0', '+0_0', '_0', '0_', '+_0', '++', '++1', '+-1', '-0', '-1',
                 '1', '+1', '01', '1_', '_1', '1__0', '1_0', 'z', 'Z', 'a', 'A', '9', '10', '+00000000000000000000000000000000000000',
                 '0' * 200, '0' * 63 + '1', '0' * 64 + '1', '0' * 65 + '1', ' ', ' 1', '1 ', 'é', '1é', '１',
                 '0x10', '1e3', '1.0', '\x00', '1\x00']


def parse_strings(r, bits, rng, reps):
    """strings aimed at a target of `bits` bits"""
    m = 1 << bits
    out = []
    base = [0, 1, r - 1, r, m - 1, m, m + 1, m - 2, 2 * m - 1, m * r, m * m, m >> 1, (m >> 64) if bits > 64 else 1 << 63]
    dl = ilog(r)
    base += [r ** dl - 1, r ** dl, r ** (2 * dl) - 1, r ** (2 * dl), r ** (2 * dl + 1)]
    for v in base:
        s = fmt(r, v)
        out += [s, '+' + s, '0' * 3 + s, s.upper()]
        if len(s) > 2:
            out.append(s[0] + '_' + s[1:-1] + '_' + s[-1])
            out.append('00_' + s[:len(s) // 2] + '__' + s[len(s) // 2:])
    # garbage behind / in front of a prefix that already overflows (which error wins)
    over = fmt(r, m * m * r)
    out += [over + '?', '?' + over, over + '_', over + ALNUM[35] + '!', over[:len(over) // 2] + '!' + over[len(over) // 2:]]
    for _ in range(reps):
        v = value(rng, max(1, bits // 64))
        if rng.randrange(6) == 0:
            v = rng.getrandbits(rng.randrange(1, bits + 70))
        s = fmt(r, v)
        k = rng.randrange(10)
        if k < 6:
            out.append(dress(rng, s))
        elif k < 9:
            out.append(spoil(rng, dress(rng, s) if rng.randrange(2) else s, r))
        else:
            out.append(''.join(rng.choice(ALNUM + ALNUM.upper()[10:] + '_+') for _ in range(rng.randrange(1, 30))))
    return out


def gen(tier, rng):
    quick = tier == 'quick'
    radices = list(range(2, 37))
    triggers = True   # the classifier c17_encode_wrapped_shift recognises exactly the as-written output
    boxed_fmt = ([1, 2, 3, 5, 14, 17, 18, 28, 31, 32, 33, 34, 40, 63, 64, 65, 70, 97, 140] if quick
                 else list(range(1, 141)))

    # ---- radix out of range: documented panic
    for r in [0, 1, 37, 38, 64, 255, 256, 258, 272, 65538, 4294967295]:
        yield f"c17.u.parse 2 {r} {xs('1')}"
        yield f"c17.u.parse_num 2 {r} {xs('1')}"
        yield f"c17.u.fmt 2 {r} 1"
        yield f"c17.b.parse {r} {xs('1')}"
        yield f"c17.b.parse_prec {r} 64 {xs('1')}"
        yield f"c17.b.fmt 2 {r} 1"

    # ---- fixed small strings, every radix, several targets
    for r in radices:
        for s in FIXED_STRINGS:
            yield f"c17.u.parse 1 {r} {xs(s)}"
            yield f"c17.b.parse {r} {xs(s)}"
            yield f"c17.b.roundtrip {r} {xs(s)}"
        for s in ['0', '+0', '00_0', '1', '', '_']:
            yield f"c17.b.parse_bits {r} {xs(s)}"
            yield f"c17.u.parse_num 2 {r} {xs(s)}"
            for p in [0, 1, 64, 65]:
                yield f"c17.b.parse_prec {r} {p} {xs(s)}"

    # ---- the whole ASCII alphabet in every radix (a digit classifier that accepts one byte too many — a case fold by
    # `| 0x20`, an off-by-one range end — shows on exactly that byte: seed C17-m6 accepted 0x10..0x19 as digits)
    for r in radices:
        for b in range(128):
            ch = bytes([b])
            yield f"c17.u.parse 1 {r} {xs(b'1' + ch + b'1')}"
            yield f"c17.b.parse {r} {xs(ch)}"
            if b % 4 == r % 4:
                yield f"c17.u.parse 2 {r} {xs(ch + b'0')}"
                yield f"c17.b.parse_prec {r} 128 {xs(b'10' + ch)}"

    # ---- formatting
    for r in radices:
        for n in FIXED_FMT:
            reps = (2 if n >= 33 else 4) if quick else 30
            for v in values_for(r, n, rng, reps) + wrap_family(r, n, triggers):
                yield f"c17.u.fmt {n} {r} {hx(v)}"
        for n in boxed_fmt:
            if quick and n > 40 and r % 5 != n % 5:
                continue
            reps = 1 if quick else 6
            vs = values_for(r, n, rng, reps) if (not quick or n in (1, 2, 32, 33, 34)) else \
                [0, (1 << (64 * n)) - 1, value(rng, n), r ** max(1, int(64 * n / r.bit_length()) - 1) % (1 << (64 * n))]
            for v in vs + wrap_family(r, n, triggers):
                yield f"c17.b.fmt {n} {r} {hx(v)}"

    # ---- parsing, fixed widths
    for r in radices:
        for n in FIXED:
            reps = (4 if n >= 16 else 8) if quick else 80
            if quick and n == 40 and r % 3:
                reps = 1
            for s in parse_strings(r, 64 * n, rng, reps):
                yield f"c17.u.parse {n} {r} {xs(s)}"
            for s in parse_strings(r, 64 * n, rng, 1)[:6]:
                yield f"c17.u.parse_num {n} {r} {xs(s)}"

    # ---- parsing, boxed (no precision): value of any size, round trip
    for r in radices:
        sizes = [1, 2, 3, 33] + [rng.randrange(1, 41) for _ in range(3 if quick else 30)] + \
                ([rng.randrange(41, 141)] if (not quick or r % 6 == 0) else [])
        for n in sizes:
            v = value(rng, n)
            s = fmt(r, v)
            for t in [s, dress(rng, s), dress(rng, s), spoil(rng, s, r)]:
                yield f"c17.b.parse {r} {xs(t)}"
                yield f"c17.b.roundtrip {r} {xs(t)}"
            yield f"c17.b.parse_bits {r} {xs(dress(rng, s))}"

    # ---- parsing, boxed with precision: precision around the value's bit length and limb boundary
    for r in radices:
        for _ in range(6 if quick else 60):
            n = rng.choice([1, 1, 2, 2, 3, 4, 5, 8, 33]) if quick or rng.randrange(4) else rng.randrange(1, 141)
            v = value(rng, n) or 1
            bl = v.bit_length()
            s = fmt(r, v)
            ps = {bl - 1, bl, bl + 1, (bl + 63) // 64 * 64, (bl + 63) // 64 * 64 - 63, max(0, (bl - 1) // 64 * 64),
                  64 * n, 64 * n + 1, rng.randrange(0, 64 * n + 70)}
            for p in sorted(p for p in ps if p >= 0):
                yield f"c17.b.parse_prec {r} {p} {xs(dress(rng, s) if rng.randrange(3) == 0 else s)}"
            yield f"c17.b.parse_prec {r} {rng.randrange(0, 200)} {xs(spoil(rng, s, r))}"
        for p in [1, 63, 64, 65, 128, 129]:
            for v in [(1 << p) - 1, 1 << p, (1 << ((p + 63) // 64 * 64)) - 1, 1 << ((p + 63) // 64 * 64)]:
                yield f"c17.b.parse_prec {r} {p} {xs(fmt(r, v))}"


def nontrivial(line):
    return len(line.split()[-1]) > 3
