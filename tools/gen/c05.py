"""C05 — shifts and bit queries: operation lines.

Families (property quantifier + DESIGN §6 C05):
  widths  Limb, Uint 1,2,3,4,5,6,8,16 (thorough adds 7,12,32), Int same, BoxedUint 1..=20 limbs
  shifts  0..=2*BITS+1 and u32::MAX — exhaustive for BITS <= 192 in quick, for every width in thorough;
          wider quick widths take every limb boundary +-2, every ladder step 2^i +-1, BITS+-2, 2*BITS+-1, 0..=66
  indices 0..=BITS+1 (quick: exhaustive up to 6 limbs, boundary-dense above)
  values  0, 1, MAX, every single bit, runs of ones ending/starting at limb boundaries, structured random
"""
from .common import *

U32MAX = (1 << 32) - 1
RULE = ('operation lines from corpus + directed families (exhaustive shift amounts 0..=2*BITS+1 and u32::MAX, '
        'bit indices 0..=BITS+1, values 0/1/MAX/single bits/runs of ones at limb boundaries) + seeded structured random; '
        'each line executed on the real crate in two build profiles and on the Lean model (L1) and compared with the '
        'arithmetic specification (L0); distinct = distinct lines; non-trivial = shift/index not 0 and value not 0')
ASSUMPTIONS = ['shift amounts and bit indices are u32; limb counts 1..=32 (fixed) and 1..=20 (boxed) are executed, the theorems cover all',
               'crate-internal shl_limb / overflowing_shl1 / shr1_with_carry / shr1 (+ boxed twins) are executed through crypto_bigint::verif_hooks (`c05.hook.*` lines)']


def nontrivial(line):
    t = line.split()
    if t[0].startswith('c05.l.'):
        return t[1] != '0'
    return len(t) > 2 and t[2] != '0' and (len(t) < 4 or t[3] != '0')


def shifts_for(bits, full):
    if full:
        return list(range(0, 2 * bits + 2)) + [U32MAX, 1 << 31, (1 << 31) - 1]
    s = set(range(0, 67))
    for b in range(0, 2 * bits + 1, 64):
        s.update(x for x in (b - 2, b - 1, b, b + 1, b + 2) if x >= 0)
    i = 1
    while i <= 4 * bits:
        s.update((i - 1, i, i + 1))
        i *= 2
    s.update((bits - 2, bits - 1, bits, bits + 1, bits + 2, 2 * bits - 1, 2 * bits, 2 * bits + 1, U32MAX, 1 << 31))
    return sorted(x for x in s if x <= 2 * bits + 1 or x >= (1 << 31))


def indices_for(bits, full):
    if full:
        return list(range(0, bits + 2)) + [U32MAX, 1 << 31]
    s = set(range(0, 66))
    for b in range(0, bits + 1, 64):
        s.update(x for x in (b - 2, b - 1, b, b + 1, b + 2) if x >= 0)
    s.update(range(0, bits + 2, 7))
    s.update((bits, bits + 1, U32MAX))
    return sorted(s)


def special_values(n):
    """0, 1, MAX, runs of ones ending / starting at limb boundaries"""
    bits = 64 * n
    m = 1 << bits
    vals = [0, 1, m - 1, m - 2, m >> 1, (m >> 1) - 1, (m >> 1) + 1]
    for b in range(64, bits + 1, 64):
        for ln in (1, 2, 63, 64, 65, b):
            if ln <= b:
                vals.append(((1 << ln) - 1) << (b - ln))        # run ending just below boundary b
        for ln in (1, 2, 63, 64, 65):
            if b + ln <= bits:
                vals.append(((1 << ln) - 1) << b)               # run starting at boundary b
        vals.append((1 << b) - 1)
    out, seen = [], set()
    for v in vals:
        v %= m
        if v not in seen:
            seen.add(v)
            out.append(v)
    return out


def single_bits(n):
    return [1 << i for i in range(64 * n)]


SHIFT_FORMS = ['shl', 'shl_vartime', 'wrapping_shl', 'wrapping_shl_vartime', 'tr_wrapping_shl',
               'tr_overflowing_shl_vartime', 'tr_wrapping_shl_vartime']
BOXED_FORMS = ['shl', 'shl_vartime', 'wrapping_shl', 'wrapping_shl_vartime', 'tr_wrapping_shl',
               'tr_overflowing_shl_vartime', 'tr_wrapping_shl_vartime']
QUERIES = ['bits', 'bits_vartime', 'leading_zeros', 'leading_zeros_vartime', 'trailing_zeros',
           'trailing_zeros_vartime', 'trailing_ones', 'trailing_ones_vartime']
BQUERIES = [q for q in QUERIES if q != 'leading_zeros_vartime']


def shift_lines(kind, n, s, vals, rng, forms, nforms_op):
    """core forms on every value, one rotating thin form per value"""
    pre = f"c05.{kind}."
    for v in vals:
        for d in ('shl', 'shr'):
            if kind == 'b':
                yield f"{pre}overflowing_{d} {n} {hx(v)} {s}"
                yield f"{pre}{d}_vartime {n} {hx(v)} {s}"
            else:
                yield f"{pre}overflowing_{d} {n} {hx(v)} {s}"
                yield f"{pre}overflowing_{d}_vartime {n} {hx(v)} {s}"
        f = rng.choice(forms)
        d = rng.choice(('shl', 'shr'))
        yield f"{pre}{f.replace('shl', d)} {n} {hx(v)} {s}"
        yield f"{pre}op_{d} {n} {hx(v)} {s} {rng.randrange(nforms_op)}"


def hook_lines(tier, rng):
    """crate-internal shl_limb / overflowing_shl1 / shr1_with_carry / shr1 (+ boxed twins), reached through
    crypto_bigint::verif_hooks (harness ops `c05.hook.*`).  Directed: every shift 0..=63 on the carry-relevant
    patterns (all-ones, top bit / low bit of every limb, alternating limbs), boundary shifts 0/1/31/32/33/62/63 elsewhere."""
    quick = tier == 'quick'
    fixed = [1, 2, 3, 4, 5, 6, 8, 16] if quick else [1, 2, 3, 4, 5, 6, 7, 8, 12, 16, 32]
    bshifts = [0, 1, 2, 31, 32, 33, 62, 63]
    for n in fixed:
        bits = 64 * n
        m = 1 << bits
        ones = m - 1
        alt = sum((WMAX if i % 2 == 0 else 0) << (64 * i) for i in range(n))
        dense = [0, 1, 2, 3, ones, m >> 1, ones ^ 1, ones >> 1, alt, ones ^ alt, WMAX % m, (WMAX << (bits - 64)) % m]
        tops = [1 << (64 * i + 63) for i in range(n)] + [1 << (64 * i) for i in range(n)]
        tops += [((1 << 64 * (i + 1)) - 1) for i in range(n)] + [ones ^ ((1 << 64 * i) - 1) for i in range(1, n)]
        rnd = [rng.getrandbits(bits) for _ in range(6 if quick else 60)] + \
              [rng.getrandbits(bits) | (m >> 1) | 1 for _ in range(3 if quick else 30)] + \
              [value(rng, bits) % m for _ in range(6 if quick else 60)]
        seen = set()
        for cls, vals in (('dense', dense), ('tops', tops), ('rnd', rnd)):
            for v in vals:
                v %= m
                if v in seen:
                    continue
                seen.add(v)
                yield f"c05.hook.shl1 {n} {hx(v)}"
                yield f"c05.hook.shr1 {n} {hx(v)}"
                yield f"c05.hook.ushr1 {n} {hx(v)}"
                if cls == 'dense' and (n <= 2 or not quick):
                    ss = range(64)
                elif cls == 'dense':
                    ss = sorted(set(bshifts + list(range(0, 64, 5))))
                elif cls == 'tops' and quick:
                    ss = [0, 1, 63] if n > 4 else bshifts
                else:
                    ss = bshifts
                for s in ss:
                    yield f"c05.hook.shl_limb {n} {hx(v)} {s}"
    for n in (range(1, 21) if quick else range(1, 41)):
        bits = 64 * n
        m = 1 << bits
        ones = m - 1
        vals = [0, 1, ones, m >> 1, ones >> 1, ones ^ 1, WMAX % m, (WMAX << (bits - 64)) % m,
                sum(1 << (64 * i + 63) for i in range(n)), sum(1 << (64 * i) for i in range(n)),
                rng.getrandbits(bits), rng.getrandbits(bits) | (m >> 1) | 1, value(rng, bits) % m]
        for v in dict.fromkeys(vals):
            yield f"c05.hook.bshl1 {n} {hx(v)}"
            yield f"c05.hook.bshr1 {n} {hx(v)}"
            for s in ([0, 1, 7, 32, 63] if quick else bshifts + [7, 17]):
                yield f"c05.hook.bshl_limb {n} {hx(v)} {s}"


def gen(tier, rng):
    quick = tier == 'quick'
    widths = [1, 2, 3, 4, 5, 6, 8, 16] if quick else [1, 2, 3, 4, 5, 6, 7, 8, 12, 16, 32]

    # ---------------- Limb
    limb_vals = EDGE_WORDS + [1 << i for i in range(64)] + [(1 << i) - 1 for i in range(1, 65)] + \
        [WMAX ^ ((1 << i) - 1) for i in range(1, 64)] + [limb_choice(rng) for _ in range(40 if quick else 400)]
    for v in limb_vals:
        for q in ('bits', 'leading_zeros', 'trailing_zeros', 'trailing_ones'):
            yield f"c05.l.{q} {hx(v)}"
    for s in list(range(0, 64)):
        for v in (1, WMAX, 1 << 63, limb_choice(rng), rng.getrandbits(64)):
            yield f"c05.l.shl {hx(v)} {s}"
            yield f"c05.l.shr {hx(v)} {s}"
            yield f"c05.l.op_shl {hx(v)} {s} {rng.randrange(6)}"
            yield f"c05.l.op_shr {hx(v)} {s} {rng.randrange(6)}"
    for s in list(range(0, 131)) + [U32MAX, 1 << 31]:
        v = rng.choice((1, WMAX, rng.getrandbits(64)))
        yield f"c05.l.wrapping_shl {hx(v)} {s}"
        yield f"c05.l.wrapping_shr {hx(v)} {s}"
    # documented: `Limb::shl/shr` panic when the shift overflows Limb::BITS (release build does not: finding C05-limb-shift)
    for s in list(range(64, 131)) + [U32MAX]:
        v = rng.choice((1, WMAX, rng.getrandbits(64) | 1))
        yield f"c05.l.shl {hx(v)} {s}"
        yield f"c05.l.shr {hx(v | (1 << 63))} {s}"

    # ---------------- `usize` shift amounts above u32::MAX in the operator forms that take a `usize` (forms 4 = `&x >> usize`,
    # 5 = `>>= usize`): the amount must not be cut to its low 32 bits (seeds C05-m9 / C11-m9: `shift as u32`)
    for kind, ws in (('u', [1, 2, 4]), ('i', [1, 2, 4]), ('b', [1, 2, 3])):
        for n in ws:
            bits = 64 * n
            for s in [1 << 32, (1 << 32) + 1, (1 << 32) + 4, (1 << 32) + bits - 1, (1 << 32) + bits, (1 << 33) + 63, 1 << 63, (1 << 64) - 1]:
                for d in ('shl', 'shr'):
                    for f in (4, 5):
                        v = rng.choice([1, (1 << bits) - 1, 1 << (bits - 1), value(rng, n)])
                        yield f"c05.{kind}.op_{d} {n} {hx(v)} {s} {f}"
    for s in [1 << 32, (1 << 32) + 4, (1 << 32) + 63, (1 << 64) - 1]:
        for d in ('shl', 'shr'):
            for f in (4, 5):
                yield f"c05.l.op_{d} {hx(rng.choice([1, WMAX, 1 << 63]))} {s} {f}"

    # ---------------- fixed Uint / Int
    for n in widths:
        bits = 64 * n
        m = 1 << bits
        full = bits <= 192 or not quick
        spec = special_values(n)
        sbits = single_bits(n)
        # -- shifts
        for s in shifts_for(bits, full):
            vals = [m - 1, rng.getrandbits(bits) | 1 | (m >> 1), rng.choice(sbits), rng.choice(spec), value(rng, n)]
            if s <= bits:   # a bit that lands exactly on / just past the top and bottom
                vals.append(1 << max(0, bits - 1 - s) if s < bits else 1)
            yield from shift_lines('u', n, s, vals, rng, SHIFT_FORMS, 6)
            # Int: negative, positive, MIN, -1
            ivals = [m - 1, m >> 1, (m >> 1) - 1, rng.getrandbits(bits) | (m >> 1), rng.getrandbits(bits) >> 1, value(rng, n)]
            yield from shift_lines('i', n, s, ivals[:4] if quick else ivals, rng, SHIFT_FORMS, 6)
            # wide
            for _ in range(2):
                lo, hi = rng.choice([m - 1, rng.getrandbits(bits) | 1, rng.choice(spec)]), rng.choice([m - 1, rng.getrandbits(bits) | (m >> 1), rng.choice(spec), 0])
                yield f"c05.u.shl_wide {n} {hx(lo)} {hx(hi)} {s}"
                yield f"c05.u.shr_wide {n} {hx(lo)} {hx(hi)} {s}"
        # every single bit through a few shifts (bit i shifted to the top, across the next limb boundary, out)
        for i, v in enumerate(sbits):
            if quick and n > 4 and i % 64 not in (0, 1, 31, 62, 63):
                continue
            for s in {bits - 1 - i, bits - i, (64 - i % 64) % 64, i, i + 1, rng.randrange(bits)}:
                if 0 <= s:
                    yield f"c05.u.overflowing_shl {n} {hx(v)} {s}"
                    yield f"c05.u.overflowing_shl_vartime {n} {hx(v)} {s}"
                    yield f"c05.u.overflowing_shr {n} {hx(v)} {s}"
                    yield f"c05.u.overflowing_shr_vartime {n} {hx(v)} {s}"
        # -- bit queries
        qvals = spec + sbits + [value(rng, n) for _ in range(30 if quick else 300)]
        for j, v in enumerate(qvals):
            yield f"c05.u.bitops {n} {hx(v)}"
            for q in (QUERIES if (j < len(spec) or not quick) else rng.sample(QUERIES, 3)):
                yield f"c05.u.{q} {n} {hx(v)}"
        # all-ones below / above a position: leading and trailing runs of every length
        for k in range(0, bits + 1):
            if quick and n > 6 and k % 64 not in (0, 1, 2, 32, 62, 63):
                continue
            lowones = (1 << k) - 1
            yield f"c05.u.trailing_ones {n} {hx(lowones)}"
            yield f"c05.u.trailing_ones_vartime {n} {hx(lowones)}"
            yield f"c05.u.trailing_zeros {n} {hx((m - 1) ^ lowones)}"
            yield f"c05.u.trailing_zeros_vartime {n} {hx((m - 1) ^ lowones)}"
            yield f"c05.u.leading_zeros {n} {hx(lowones)}"
            yield f"c05.u.bits_vartime {n} {hx(lowones)}"
            # noise above the run must not matter
            noise = rng.getrandbits(bits)
            yield f"c05.u.trailing_ones {n} {hx((lowones | (noise << (k + 1))) % m)}"
            yield f"c05.u.trailing_zeros_vartime {n} {hx(((noise << (k + 1)) | (1 << k)) % m if k < bits else 0)}"
        # -- bit test / set, indices 0..=BITS+1
        idx_full = n <= 6 or not quick
        rv = rng.getrandbits(bits)
        for i in indices_for(bits, idx_full):
            ib = (1 << i) % m if i < bits else 0
            for v in (m - 1, ib, (m - 1) ^ ib, rv):
                yield f"c05.u.bit {n} {hx(v)} {i}"
                yield f"c05.u.bit_vartime {n} {hx(v)} {i}"
            yield f"c05.u.tr_bit {n} {hx(rv)} {i}"
            yield f"c05.u.tr_bit_vartime {n} {hx(rv)} {i}"
            for v, b in ((0, 1), (m - 1, 0), (rv, 0), (rv, 1), (ib, 0), ((m - 1) ^ ib, 1)):
                yield f"c05.u.set_bit {n} {hx(v)} {i} {b}"
                yield f"c05.u.set_bit_vartime {n} {hx(v)} {i} {b}"
        # -- bitwise operators
        prs = [(0, 0), (m - 1, m - 1), (m - 1, 0), (0, m - 1), (1, m >> 1)] + [pair(rng, n) for _ in range(40 if quick else 400)]
        for a, b in prs:
            for o in ('and', 'or', 'xor'):
                yield f"c05.u.{o} {n} {hx(a)} {hx(b)}"
            yield f"c05.u.not {n} {hx(a)}"
            yield f"c05.u.and_limb {n} {hx(a)} {hx(limb_choice(rng))}"

    # ---------------- BoxedUint 1..=20 limbs
    for n in range(1, 21):
        bits = 64 * n
        m = 1 << bits
        full = (n <= 2) or not quick
        spec = special_values(n)
        sbits = single_bits(n)
        for s in shifts_for(bits, full):
            vals = [m - 1, rng.getrandbits(bits) | 1 | (m >> 1), rng.choice(sbits)]
            if not quick or n <= 4:
                vals += [rng.choice(spec), value(rng, n)]
            yield from shift_lines('b', n, s, vals, rng, BOXED_FORMS, 7)
        qvals = spec + (sbits if (not quick or n <= 3) else [sbits[i] for i in range(len(sbits)) if i % 64 in (0, 63)]) + \
            [value(rng, n) for _ in range(10 if quick else 100)]
        for v in qvals:
            yield f"c05.b.bitops {n} {hx(v)}"
            for q in (BQUERIES if not quick else rng.sample(BQUERIES, 2)):
                yield f"c05.b.{q} {n} {hx(v)}"
        rv = rng.getrandbits(bits)
        for i in indices_for(bits, (n <= 2) or not quick):
            if quick and n > 4 and i % 64 not in (0, 1, 63) and i < bits:
                continue
            ib = (1 << i) % m if i < bits else 0
            for v in (m - 1, ib, rv):
                yield f"c05.b.bit {n} {hx(v)} {i}"
                yield f"c05.b.bit_vartime {n} {hx(v)} {i}"
            yield f"c05.b.tr_bit {n} {hx(rv)} {i}"
            yield f"c05.b.tr_bit_vartime {n} {hx(rv)} {i}"
            for v, b in ((0, 1), (m - 1, 0), (rv, 0), (rv, 1)):
                yield f"c05.b.set_bit {n} {hx(v)} {i} {b}"
                yield f"c05.b.set_bit_vartime {n} {hx(v)} {i} {b}"
        for _ in range(6 if quick else 60):
            a = value(rng, n)
            ny = rng.choice([n, n, rng.randrange(1, 21)])
            b = value(rng, ny)
            for o in ('and', 'or', 'xor'):
                yield f"c05.b.{o} {n} {hx(a)} {ny} {hx(b)}"
            yield f"c05.b.or_assign {n} {hx(a)} {ny} {hx(b)} {rng.randrange(4)}"
            yield f"c05.b.not {n} {hx(a)}"
            yield f"c05.b.and_limb {n} {hx(a)} {hx(limb_choice(rng))}"

    # ---------------- structured random over everything
    reps = 1500 if quick else 40000
    for _ in range(reps):
        n = rng.choice(widths)
        bits = 64 * n
        v = value(rng, n)
        s = rng.choice([rng.randrange(0, 2 * bits + 2), rng.randrange(0, bits), rng.randrange(0, bits), 64 * rng.randrange(0, 2 * n + 1)])
        k = rng.choice(['u', 'u', 'i'])
        d = rng.choice(['shl', 'shr'])
        yield f"c05.{k}.overflowing_{d} {n} {hx(v)} {s}"
        yield f"c05.{k}.overflowing_{d}_vartime {n} {hx(v)} {s}"
        yield f"c05.{k}.wrapping_{d} {n} {hx(v)} {s}"
        yield f"c05.u.{d}_wide {n} {hx(v)} {hx(value(rng, n))} {s}"
        nb = rng.randrange(1, 21)
        vb = value(rng, nb)
        sb = rng.choice([rng.randrange(0, 2 * 64 * nb + 2), rng.randrange(0, 64 * nb)])
        yield f"c05.b.overflowing_{d} {nb} {hx(vb)} {sb}"
        yield f"c05.b.{d}_vartime {nb} {hx(vb)} {sb}"
        yield f"c05.b.bitops {nb} {hx(vb)}"
        i = rng.randrange(0, bits + 2)
        yield f"c05.u.bit {n} {hx(v)} {i}"
        yield f"c05.u.set_bit {n} {hx(v)} {i} {rng.randrange(2)}"
        yield f"c05.u.bitops {n} {hx(v)}"

    # ---------------- crate-internal functions through the hooks of /repo/src/verif_hooks.rs (emitted last, from
    # their own PRNG stream, so the public families above are the same lines as before the hooks existed)
    yield from hook_lines(tier, random.Random(rng.getrandbits(32)))

    # ---------------- coverage round: `& | ^ !` / `bitand_limb` of `Int` and the `Limb` operators incl. assigning forms
    # (emitted after everything else, from their own PRNG stream)
    yield from coverage_lines(tier, random.Random(rng.getrandbits(32)))


def coverage_lines(tier, rng):
    """Int<n>: every spelling of & | ^ ! (inherent, wrapping_*, checked_*, operators by value / reference / assigning,
    Wrapping<Int>) is cross-checked inside the harness; operands around the sign bit (MIN, MAX, -1, 0), single bits,
    complementary patterns, structured random.  Limb: & | ^ ! with &= |= ^= (by value and by reference)."""
    quick = tier == 'quick'
    widths = [1, 2, 3, 4, 5, 6, 8, 16] if quick else [1, 2, 3, 4, 5, 6, 7, 8, 12, 16, 32]
    lv = EDGE_WORDS + [0xaaaaaaaaaaaaaaaa, 0x5555555555555555]
    for a in lv:
        yield f"c05.l.not {hx(a)}"
        for b in lv:
            for o in ('and', 'or', 'xor'):
                yield f"c05.l.{o} {hx(a)} {hx(b)}"
    for _ in range(60 if quick else 600):
        a, b = limb_choice(rng), limb_choice(rng)
        for o in ('and', 'or', 'xor'):
            yield f"c05.l.{o} {hx(a)} {hx(b)}"
        yield f"c05.l.not {hx(a)}"
    for n in widths:
        bits = 64 * n
        m = 1 << bits
        half = m >> 1
        alt = sum(0xaaaaaaaaaaaaaaaa << (64 * i) for i in range(n))
        prs = [(0, 0), (m - 1, m - 1), (m - 1, 0), (0, m - 1), (half, half), (half, half - 1), (half - 1, half - 1), (m - 1, half),
               (half, 0), (1, half), (alt, (m - 1) ^ alt), (alt, alt), (1, m - 1), (half | 1, m - 2)]
        prs += [(1 << rng.randrange(bits), rng.getrandbits(bits)) for _ in range(4)]
        prs += [pair(rng, n) for _ in range(40 if quick else 400)]
        for a, b in prs:
            for o in ('and', 'or', 'xor'):
                yield f"c05.i.{o} {n} {hx(a)} {hx(b)}"
            yield f"c05.i.not {n} {hx(a)}"
            yield f"c05.i.and_limb {n} {hx(a)} {hx(limb_choice(rng))}"
        for l in (0, 1, WMAX, 1 << 63):
            yield f"c05.i.and_limb {n} {hx(m - 1)} {hx(l)}"
