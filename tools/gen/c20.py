"""C20 — integer square root: op lines `c20.{u,b}.<form> <limbs> <hex>`."""
from .common import *

FORMS = ["sqrt", "sqrt_vartime", "wrapping_sqrt", "wrapping_sqrt_vartime",
         "checked_sqrt", "checked_sqrt_vartime", "trait_sqrt", "trait_sqrt_vartime"]
CORE = ["sqrt", "sqrt_vartime", "checked_sqrt", "checked_sqrt_vartime"]

FIXED_Q = [1, 2, 3, 4, 7, 8, 16]   # 7 limbs: tight case of the round-count theorem
FIXED_T = [1, 2, 3, 4, 5, 6, 7, 8, 12, 16, 32]
BOXED = list(range(1, 21))

RULE = ("operation lines from corpus + directed families (0,1,2,3; t^2-1, t^2, t^2+1 for t = 2^j, 2^j+-1 and "
        "random t < 2^(BITS/2); 2^BITS-1; 2^k-1, 2^k, 2^k+1 for every bit length k incl. around 2^(BITS-1); "
        "s^2+2s (largest non-square below the next square)) + seeded structured random; every line executed on "
        "the real crate in two build profiles and on the Lean model (L1) and compared with Nat.sqrt (L0); "
        "distinct = distinct lines, non-trivial = operand longer than 2 hex digits")
ASSUMPTIONS = ["division, shifts, addition, comparison and multiplication called by the sqrt code are value-level "
               "calls in the model (their exactness is C02/C05/C04/C06/C03)"]


def directed(n, rng, tier, dense):
    """values of the property's quantifier text for an n-limb operand"""
    bits = 64 * n
    m = 1 << bits
    half = bits // 2
    out = [0, 1, 2, 3, 4, 5, 8, 9, 15, 16, 17, m - 1, m - 2]
    # values just below and above 2^(BITS-1)
    for d in range(-3, 4):
        out.append((1 << (bits - 1)) + d)
    js = range(0, half + 1)
    if not dense:
        js = sorted(set(list(range(0, 8)) + list(range(half - 6, half + 1)) +
                        [rng.randrange(half + 1) for _ in range(24 if tier == 'quick' else 96)] +
                        [32 * k + e for k in range(1, 2 * n) for e in (-1, 0, 1)]))
    for j in js:
        for t in ((1 << j) - 1, 1 << j, (1 << j) + 1):
            if t < 0 or t >= (1 << half):
                continue
            for d in (-1, 0, 1):
                out.append(t * t + d)
            out.append(t * t + 2 * t)          # (t+1)^2 - 1: the iteration may oscillate s, s+1
            out.append(t * t + t)
    # largest root
    r = (1 << half) - 1
    out += [r * r - 1, r * r, r * r + 1, r * r + 2 * r]
    # every bit length: the initial guess 2^ceil(b/2) changes with b; b odd and v = 2^(b-1) is the
    # slowest start (x0 = 2 * sqrt v)
    ks = range(0, bits) if dense else sorted(set(
        list(range(0, 10)) + list(range(bits - 6, bits)) +
        [rng.randrange(bits) for _ in range(24 if tier == 'quick' else 96)] +
        [64 * k + e for k in range(1, n) for e in (-2, -1, 0, 1)]))
    for k in ks:
        out += [(1 << k) - 1, 1 << k, (1 << k) + 1]
    # random roots of every size
    cnt = (40 if tier == 'quick' else 1500) if dense else (16 if tier == 'quick' else 300)
    for _ in range(cnt):
        t = rng.getrandbits(rng.randrange(1, half + 1))
        for d in (-1, 0, 1):
            out.append(t * t + d)
        out.append(t * t + 2 * t)
    for _ in range(cnt):
        out.append(value(rng, n))
        out.append(rng.getrandbits(rng.randrange(1, bits + 1)))
    seen, res = set(), []
    for v in out:
        if 0 <= v < m and v not in seen:
            seen.add(v)
            res.append(v)
    return res


def gen(tier, rng):
    quick = tier == 'quick'
    for n in (FIXED_Q if quick else FIXED_T):
        dense = n <= (2 if quick else 8)
        for v in directed(n, rng, tier, dense):
            forms = FORMS if (dense or v < 4 or rng.randrange(4) == 0) else CORE[:2] + [rng.choice(FORMS[2:])]
            for f in forms:
                yield f"c20.u.{f} {n} {hx(v)}"
            if dense or rng.randrange(3) == 0:
                yield f"c20.u.rounds {n} {hx(v)}"
    for n in BOXED:
        dense = n <= (1 if quick else 6)
        for v in directed(n, rng, tier, dense):
            if not dense and quick and n not in (1, 2, 3, 4, 8, 16, 20) and rng.randrange(2) == 0 and v > 3:
                continue
            forms = FORMS if (dense or v < 4 or rng.randrange(4) == 0) else CORE[:2] + [rng.choice(FORMS[2:])]
            for f in forms:
                yield f"c20.b.{f} {n} {hx(v)}"
            if dense or rng.randrange(3) == 0:
                yield f"c20.b.rounds {n} {hx(v)}"
