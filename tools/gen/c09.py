"""C09 generator: pow / pow_bounded_exp / multi-exponentiation / lincomb_vartime on Montgomery forms.

Directed families (property quantifier + DESIGN §6 C09):
  widths 1,2,4,8,16 (fixed), boxed 1..=17; exponent widths narrower / equal / wider than the base;
  moduli 1, 3, 2^BITS-1, 2^(BITS-1)+1, ~2^BITS/3, ~2^BITS/4, zero high limbs, random odd;
  bases 0, 1, m-1, 2, random (also unreduced); exponents 0, 1, 2^j, all-ones, random;
  k exhaustive (0..=BITS(e)) for 1-2 limb exponents, window-/limb-boundary values otherwise, k = 0;
  boxed inputs found by simulation whose accumulator is >= 2m at loop exit (both final subtractions needed);
  multi-exponentiation with arrays of 1..=3 and slices of 0..=5 terms;
  lincomb with 1..=40 terms and moduli of 0..=63+ leading zero bits (several accumulation windows).
"""
from .common import *

RULE = ('operation lines from corpus + directed families (see tools/gen/c09.py docstring) + seeded structured random; '
        'each line executed on the real crate in two build profiles and on the Lean model (L1) and compared with the '
        'Nat-level spec (L0); distinct = distinct lines, non-trivial = some operand token longer than 2 hex digits')
ASSUMPTIONS = ['moduli are odd (Odd<_> is a precondition of every Montgomery parameter constructor)',
               'exponent_bits <= BITS(exponent) (larger values index past the exponent limbs: a panic, outside the property)',
               'all terms of one call share one modulus / parameter set']

# exponent widths per base width — must match `impl_kind_all!` in harness/src/ops/c09.rs
EXP_WIDTHS = {1: [1, 2, 4], 2: [1, 2, 4], 4: [1, 2, 4, 8], 8: [1, 4, 8, 16], 16: [1, 8, 16, 32]}
WIDTHS = [1, 2, 4, 8, 16]

# compile-time moduli — must match `const_moduli!` in harness/src/ops/c09.rs
CONST_MODULI = [
    (1, 0x1), (1, 0x3), (1, 0xffffffffffffffff), (1, 0x5555555555555555), (1, 0x3fffffffffffffff), (1, 0xf1),
    (2, 0xffffffffffffffffffffffffffffffc5), (2, 0xffffffffffffffc5), (2, 0x1fffffffffffffffffffffffffffffff),
    (4, 0xffffffff00000000ffffffffffffffffbce6faada7179e84f3b9cac2fc632551),
    (4, 0x7fffffff00000000ffffffffffffffffbce6faada7179e84f3b9cac2fc632551),
    (4, 0x0fffffff00000000ffffffffffffffffbce6faada7179e84f3b9cac2fc632551),
    (8, (1 << 510) - 1),
    (16, (1 << 1023) + 1),
]


def moduli(rng, n, extra=2):
    bits = 64 * n
    ms = [1, 3, (1 << bits) - 1, (1 << (bits - 1)) + 1, ((1 << bits) - 1) // 3, (1 << (bits - 2)) - 1]
    if n >= 2:
        ms.append(rng.getrandbits(64 * rng.randrange(1, n)) | 1)                  # zero high limbs
        ms.append((1 << (bits - 64)) - 1 - 2 * rng.randrange(1 << 16))            # top limb zero, rest dense
    for _ in range(extra):
        ms.append(rng.getrandbits(bits) | 1 | (1 << (bits - 1)))                  # full-width random odd
        ms.append(rng.getrandbits(rng.randrange(2, bits + 1)) | 1)                # random bit length
    return [m if m % 2 == 1 else m - 1 for m in ms]


def bases(rng, n, m, cnt=2):
    bs = [0, 1, m - 1, 2 % (1 << 64 * n)]
    for _ in range(cnt):
        bs.append(rng.randrange(m))
    bs.append(value(rng, n))                                                     # possibly >= m
    return bs


def exps(rng, ne, cnt=2):
    bits = 64 * ne
    es = [0, 1, (1 << bits) - 1, 1 << (bits - 1), 1 << rng.randrange(bits)]
    for _ in range(cnt):
        es.append(rng.getrandbits(bits))
        es.append(value(rng, ne))
    return es


def kvals(rng, ne, exhaustive):
    bits = 64 * ne
    if exhaustive:
        return list(range(bits + 1))
    ks = {0, 1, 2, 3, 4, 5, 7, 8, 9, 60, 61, 63, 64, bits - 1, bits, bits - 3, bits - 4, bits - 5}
    if ne > 1:
        ks |= {65, 66, 67, 68, 69, 127, 128, 129, bits - 63, bits - 64, bits - 65}
        j = rng.randrange(1, ne)
        ks |= {64 * j - 1, 64 * j, 64 * j + 1, 64 * j + 4, 64 * j + 5}
    ks |= {rng.randrange(bits + 1) for _ in range(3)}
    return sorted(k for k in ks if 0 <= k <= bits)


def pairs_tok(ps):
    return ';'.join(f'{hx(a)},{hx(b)}' for a, b in ps) if ps else '-'


def pow_lines(rng, kind, n, m, ne, nb, nexp, exhaustive_k, forms=('m', 't'), ksample=None):
    bs = bases(rng, n, m)
    es = exps(rng, ne)
    for _ in range(nb):
        b = rng.choice(bs)
        for _ in range(nexp):
            e = rng.choice(es)
            f = rng.choice(forms)
            if kind == 'boxed':
                yield f'c09.pow boxed m {n} {hx(m)} {ne} {hx(b)} {hx(e)}'
            else:
                yield f'c09.pow {kind} {f} {n} {hx(m)} {ne} {hx(b)} {hx(e)}'
            ks = kvals(rng, ne, exhaustive_k)
            if ksample is not None and not exhaustive_k and len(ks) > ksample:
                ks = sorted(set(rng.sample(ks, ksample - 2) + [0, 64 * ne]))
            for k in ks:
                f = rng.choice(forms)
                yield f'c09.powb {kind} {f} {n} {hx(m)} {ne} {hx(b)} {hx(e)} {k}'


def multi_lines(rng, kind, n, m, ne, cnt):
    for _ in range(cnt):
        form = rng.choice(['arr', 'slice'])
        t = rng.randrange(1, 4) if form == 'arr' else rng.choice([1, 2, 3, 4, 5])
        bs, es = bases(rng, n, m), exps(rng, ne)
        ps = [(rng.choice(bs), rng.choice(es)) for _ in range(t)]
        yield f'c09.multi {kind} {form} {n} {hx(m)} {ne} {pairs_tok(ps)}'
        for k in rng.sample(kvals(rng, ne, False), 3) + [0]:
            yield f'c09.multib {kind} {form} {n} {hx(m)} {ne} {k} {pairs_tok(ps)}'


def lincomb_terms(rng, n, m, t):
    mode = rng.randrange(4)
    ps = []
    for _ in range(t):
        if mode == 0:
            ps.append((m - 1, m - 1))                       # largest accumulator
        elif mode == 1:
            ps.append((rng.randrange(m), rng.randrange(m)))
        elif mode == 2:
            ps.append((rng.choice([0, 1, m - 1, rng.randrange(m)]), rng.choice([0, 1, m - 1, rng.randrange(m)])))
        else:
            ps.append((value(rng, n), value(rng, n)))       # unreduced inputs (reduced by `new`)
    return ps


def lz_modulus(rng, n, lz):
    """odd modulus of n limbs with exactly `lz` leading zero bits"""
    bl = 64 * n - lz
    if bl <= 1:
        return 1
    k = rng.randrange(3)
    if k == 0:
        return (1 << bl) - 1
    if k == 1:
        return (1 << (bl - 1)) | 1
    return (1 << (bl - 1)) | rng.getrandbits(bl - 1) | 1


def lincomb_lines(rng, kind, n, cnt_lz, counts):
    lzs = list(range(0, 8)) + [rng.randrange(8, 63) for _ in range(cnt_lz)] + [62, 63]
    if n > 1:
        lzs += [64, 65, 64 * n - 2, 64 * n - 1]
    for lz in lzs:
        if lz > 64 * n - 1:
            continue
        m = lz_modulus(rng, n, lz)
        for t in counts(lz):
            yield f'c09.lincomb {kind} {n} {hx(m)} {pairs_tok(lincomb_terms(rng, n, m, t))}'


def double_sub_inputs(rng, nl, want):
    """boxed ladder inputs whose accumulator is >= 2m when the loop exits, so that BOTH final conditional
    subtractions are needed (DESIGN §6 C09 tag final_sub = 2). Random inputs essentially never get there; this
    searches with a value-level simulation of the almost-Montgomery ladder (8-bit exponents, moduli in
    (0.40, 0.495)·2^BITS) and returns (modulus, base, exponent) triples."""
    Rn = 1 << (64 * nl)
    out = []
    while len(out) < want:
        m = rng.randrange(Rn * 40 // 100, Rn * 495 // 1000) | 1
        k = (-pow(m, -1, Rn)) % Rn

        def amm(a, b):
            t = a * b
            u = ((t % Rn) * k) % Rn
            z = (t + u * m) // Rn
            return z - m if z >= Rn else z
        one = Rn % m
        for _ in range(8):
            x = rng.randrange(m)
            xm = (x * Rn) % m
            powers = [one, xm]
            for _i in range(2, 16):
                powers.append(amm(powers[-1], xm))
            big = [i for i in range(2, 16) if 100 * powers[i] >= 155 * m]
            if not big:
                continue
            hit = None
            for hi_n in range(1, 16):
                z = amm(one, powers[hi_n])
                for _j in range(4):
                    z = amm(z, z)
                if 2 * z < 3 * m:
                    continue
                for lo_n in big:
                    if amm(z, powers[lo_n]) >= 2 * m:
                        hit = (m, x, (hi_n << 4) | lo_n)
                        break
                if hit:
                    break
            if hit:
                out.append(hit)
                break
    return out


def gen(tier, rng):
    q = tier == 'quick'
    # ---- panics / empties the documentation names
    yield 'c09.lincomb dyn 1 f1 -'
    yield 'c09.lincomb boxed 1 f1 -'
    yield 'c09.lincomb const 1 f1 -'
    yield 'c09.multi dyn slice 1 f1 1 -'
    yield 'c09.multi const slice 1 f1 1 -'
    yield 'c09.multib const slice 1 f1 1 7 -'
    # ---- exponentiation, fixed widths
    for n in WIDTHS:
        small = n <= 2
        for m in moduli(rng, n, 1 if q else 3):
            for ne in EXP_WIDTHS[n]:
                big = n * ne >= 64
                exhaustive = ne <= 2 and small and (not q or rng.randrange(3) == 0)
                if exhaustive:
                    nb, nexp = 1, 1
                elif q:
                    nb, nexp = (1, 1)
                    if big and rng.randrange(3):
                        continue
                else:
                    nb, nexp = (2, 2) if not big else (1, 1)
                yield from pow_lines(rng, 'dyn', n, m, ne, nb, nexp, exhaustive, ksample=12 if q and n > 2 else None)
                if not big or not q:
                    yield from multi_lines(rng, 'dyn', n, m, ne, 1 if q else 3)
    for n, m in CONST_MODULI:
        for ne in EXP_WIDTHS[n]:
            if q and n * ne >= 64:
                continue
            exhaustive = ne == 1 and n == 1
            yield from pow_lines(rng, 'const', n, m, ne, 1, 1, exhaustive)
            yield from multi_lines(rng, 'const', n, m, ne, 1 if q else 3)
    # ---- exponentiation, boxed 1..=17 limbs, exponent precision independent of the base
    for n in range(1, 18):
        for m in moduli(rng, n, 1 if q else 2):
            nes = [1, 2] if n <= 2 else [rng.choice([1, 2, 3]), n] if n <= 8 or not q else [rng.choice([1, 2])]
            for ne in nes:
                exhaustive = n <= 2 and ne <= 2 and (not q or rng.randrange(3) == 0)
                yield from pow_lines(rng, 'boxed', n, m, ne, 1, 1, exhaustive, ksample=9 if q and n > 2 else None)
    # accumulator >= 2m at loop exit: the second final conditional subtraction is needed (tag final_sub = 2)
    for n in ([1, 2, 4, 9] if q else [1, 2, 3, 4, 6, 9, 17]):
        for (m, x, e) in double_sub_inputs(rng, n, 3 if q else 12):
            yield f'c09.powb boxed m {n} {hx(m)} 1 {hx(x)} {hx(e)} 8'
            yield f'c09.powb boxed t {n} {hx(m)} 2 {hx(x)} {hx(e)} 8'
    # m = 1, k = 0 explicitly for every representation (DESIGN §7-14)
    for kind in ['dyn', 'const', 'boxed']:
        yield f'c09.powb {kind} m 1 1 1 0 5 0'
        yield f'c09.powb {kind} t 1 1 1 0 0 0'
        yield f'c09.powb {kind} m 1 1 1 0 5 3'
    # ---- lincomb: 1..=40 terms, 0..=63+ leading zeros
    def counts_q(lz):
        w = 1 << min(lz, 10)
        cs = {1, 2, 40, rng.randrange(1, 41)}
        if w < 40:
            cs |= {w, w + 1, min(40, 2 * w), min(40, 2 * w + 1), min(40, 3 * w - 1)}
        return sorted(c for c in cs if 1 <= c <= 40)
    def counts_t(lz):
        return list(range(1, 41))
    counts = counts_q if q else counts_t
    for n in WIDTHS:
        yield from lincomb_lines(rng, 'dyn', n, 2 if q else 8, counts)
    for n in ([1, 2, 3, 5, 9, 17] if q else range(1, 18)):
        yield from lincomb_lines(rng, 'boxed', n, 1 if q else 4, counts)
    for n, m in CONST_MODULI:
        for t in ([1, 2, 3, 5, 17, 40] if q else range(1, 41)):
            yield f'c09.lincomb const {n} {hx(m)} {pairs_tok(lincomb_terms(rng, n, m, t))}'
    # ---- seeded structured random over everything
    for _ in range(150 if q else 3000):
        n = rng.choice(WIDTHS[:3] if q else WIDTHS)
        kind = rng.choice(['dyn', 'boxed'])
        if kind == 'boxed':
            n = rng.randrange(1, 8 if q else 18)
        m = value(rng, n) | 1
        ne = rng.choice(EXP_WIDTHS[n]) if kind == 'dyn' else rng.randrange(1, 4)
        if n * ne >= 64:
            continue
        b, e, k = value(rng, n), value(rng, ne), rng.randrange(64 * ne + 1)
        yield f'c09.powb {kind} {rng.choice("mt")} {n} {hx(m)} {ne} {hx(b)} {hx(e)} {k}'
        t = rng.randrange(1, 41)
        yield f'c09.lincomb {kind} {n} {hx(m)} {pairs_tok(lincomb_terms(rng, n, m, t))}'
