"""C09 generator: pow / pow_bounded_exp / multi-exponentiation / lincomb_vartime on Montgomery forms.

Directed families (property quantifier + DESIGN §6 C09):
  widths 1,2,4,8,16 (fixed), boxed 1..=17; exponent widths narrower / equal / wider than the base;
  moduli 1, 3, 2^BITS-1, 2^(BITS-1)+1, ~2^BITS/3, ~2^BITS/4, zero high limbs, random odd;
  bases 0, 1, m-1, 2, random (also unreduced); exponents 0, 1, 2^j, all-ones, random;
  k exhaustive (0..=BITS(e)) for 1-2 limb exponents, window-/limb-boundary values otherwise, k = 0;
  boxed inputs found by simulation whose accumulator is >= 2m at loop exit (both final subtractions needed);
  multi-exponentiation with arrays of 1..=3 and slices of 0..=5 terms;
  lincomb with 1..=40 terms and moduli of 0..=63+ leading zero bits (several accumulation windows);
  nilpotent bases: non-squarefree moduli q^k, (p*q)^2 over 1, 2, 3+ limbs (and boxed precisions with zero high
  limbs), non-zero bases divisible by every prime factor of m, exponents at / above the nilpotency index: the true
  result is exactly 0 (the accumulator a non-zero multiple of m before the last reduction), for every pow form,
  multi-exponentiation with factors multiplying to 0, and lincomb sums that are exactly 0 / exactly m;
  c09.hook.*: the crate-internal functions on raw Montgomery-domain limbs (see hook_lines).
"""
import random
from .common import *

RULE = ('operation lines from corpus + directed families (see tools/gen/c09.py docstring) + seeded structured random; '
        'each line executed on the real crate in two build profiles and on the Lean model (L1) and compared with the '
        'Nat-level spec (L0); distinct = distinct lines, non-trivial = some operand token longer than 2 hex digits')
ASSUMPTIONS = ['moduli are odd (Odd<_> is a precondition of every Montgomery parameter constructor)',
               'exponent_bits <= BITS(exponent) (larger values index past the exponent limbs: a panic, outside the property)',
               'all terms of one call share one modulus / parameter set',
               'c09.hook.* lines call compute_powers, multi_exponentiate_montgomery_form_internal, one pass of impl_longa_monty_lincomb! (fixed and boxed) and the boxed pow_montgomery_form on raw Montgomery-domain limbs (unreduced values, arbitrary tables, arbitrary one / mod_neg_inv included) through crypto_bigint::verif_hooks']

# exponent widths per base width — must match `impl_kind_all!` in harness/src/ops/c09.rs
EXP_WIDTHS = {1: [1, 2, 4], 2: [1, 2, 4], 4: [1, 2, 4, 8], 8: [1, 4, 8, 16], 16: [1, 8, 16, 32]}
WIDTHS = [1, 2, 4, 8, 16]

# compile-time moduli — must match `const_moduli!` in harness/src/ops/c09.rs
CONST_MODULI = [
    (1, 0x1), (1, 0x3), (1, 0xffffffffffffffff), (1, 0x5555555555555555), (1, 0x3fffffffffffffff), (1, 0xf1),
    (2, 0xffffffffffffffffffffffffffffffc5), (2, 0xffffffffffffffc5), (2, 0x1fffffffffffffffffffffffffffffff),
    (4, 0xffffffff00000000ffffffffffffffffbce6faada7179e84f3b9cac2fc632551),
    (4, 0x7fffffff00000000ffffffffffffffffbce6faada7179e84f3b9cac2fc632551),
    (4, 0x0fffffff00000000ffffffffffffffffbce6faada7179e84f3b9cac2fc632551),
    (8, (1 << 510) - 1),
    (16, (1 << 1023) + 1),
    (1, ((1 << 32) - 5) ** 2), (2, 3 ** 80),            # non-squarefree (nilpotent bases exist)
    (2, 0xffffffffffffffff0000000000000005), (4, 0xffffffffffffffffffffffffffffffffffffffffffffffff0000000000000003),   # low limb with leading zeros
]


def moduli(rng, n, extra=2):
    bits = 64 * n
    ms = [1, 3, (1 << bits) - 1, (1 << (bits - 1)) + 1, ((1 << bits) - 1) // 3, (1 << (bits - 2)) - 1]
    if n >= 2:
        ms.append(rng.getrandbits(64 * rng.randrange(1, n)) | 1)                  # zero high limbs
        ms.append((1 << (bits - 64)) - 1 - 2 * rng.randrange(1 << 16))            # top limb zero, rest dense
    for _ in range(extra):
        ms.append(rng.getrandbits(bits) | 1 | (1 << (bits - 1)))                  # full-width random odd
        ms.append(rng.getrandbits(rng.randrange(2, bits + 1)) | 1)                # random bit length
    return [m if m % 2 == 1 else m - 1 for m in ms]


def bases(rng, n, m, cnt=2):
    bs = [0, 1, m - 1, 2 % (1 << 64 * n)]
    for _ in range(cnt):
        bs.append(rng.randrange(m))
    bs.append(value(rng, n))                                                     # possibly >= m
    return bs


def exps(rng, ne, cnt=2):
    bits = 64 * ne
    es = [0, 1, (1 << bits) - 1, 1 << (bits - 1), 1 << rng.randrange(bits)]
    for _ in range(cnt):
        es.append(rng.getrandbits(bits))
        es.append(value(rng, ne))
    return es


def kvals(rng, ne, exhaustive):
    bits = 64 * ne
    if exhaustive:
        return list(range(bits + 1))
    ks = {0, 1, 2, 3, 4, 5, 7, 8, 9, 60, 61, 63, 64, bits - 1, bits, bits - 3, bits - 4, bits - 5}
    if ne > 1:
        ks |= {65, 66, 67, 68, 69, 127, 128, 129, bits - 63, bits - 64, bits - 65}
        j = rng.randrange(1, ne)
        ks |= {64 * j - 1, 64 * j, 64 * j + 1, 64 * j + 4, 64 * j + 5}
    ks |= {rng.randrange(bits + 1) for _ in range(3)}
    return sorted(k for k in ks if 0 <= k <= bits)


def pairs_tok(ps):
    return ';'.join(f'{hx(a)},{hx(b)}' for a, b in ps) if ps else '-'


def pow_lines(rng, kind, n, m, ne, nb, nexp, exhaustive_k, forms=('m', 't'), ksample=None):
    bs = bases(rng, n, m)
    es = exps(rng, ne)
    for _ in range(nb):
        b = rng.choice(bs)
        for _ in range(nexp):
            e = rng.choice(es)
            f = rng.choice(forms)
            if kind == 'boxed':
                yield f'c09.pow boxed m {n} {hx(m)} {ne} {hx(b)} {hx(e)}'
            else:
                yield f'c09.pow {kind} {f} {n} {hx(m)} {ne} {hx(b)} {hx(e)}'
            ks = kvals(rng, ne, exhaustive_k)
            if ksample is not None and not exhaustive_k and len(ks) > ksample:
                ks = sorted(set(rng.sample(ks, ksample - 2) + [0, 64 * ne]))
            for k in ks:
                f = rng.choice(forms)
                yield f'c09.powb {kind} {f} {n} {hx(m)} {ne} {hx(b)} {hx(e)} {k}'


def multi_lines(rng, kind, n, m, ne, cnt):
    for _ in range(cnt):
        form = rng.choice(['arr', 'slice'])
        t = rng.randrange(1, 4) if form == 'arr' else rng.choice([1, 2, 3, 4, 5])
        bs, es = bases(rng, n, m), exps(rng, ne)
        ps = [(rng.choice(bs), rng.choice(es)) for _ in range(t)]
        yield f'c09.multi {kind} {form} {n} {hx(m)} {ne} {pairs_tok(ps)}'
        for k in rng.sample(kvals(rng, ne, False), 3) + [0]:
            yield f'c09.multib {kind} {form} {n} {hx(m)} {ne} {k} {pairs_tok(ps)}'


def lincomb_terms(rng, n, m, t):
    mode = rng.randrange(4)
    ps = []
    for _ in range(t):
        if mode == 0:
            ps.append((m - 1, m - 1))                       # largest accumulator
        elif mode == 1:
            ps.append((rng.randrange(m), rng.randrange(m)))
        elif mode == 2:
            ps.append((rng.choice([0, 1, m - 1, rng.randrange(m)]), rng.choice([0, 1, m - 1, rng.randrange(m)])))
        else:
            ps.append((value(rng, n), value(rng, n)))       # unreduced inputs (reduced by `new`)
    return ps


def lz_modulus(rng, n, lz):
    """odd modulus of n limbs with exactly `lz` leading zero bits"""
    bl = 64 * n - lz
    if bl <= 1:
        return 1
    k = rng.randrange(3)
    if k == 0:
        return (1 << bl) - 1
    if k == 1:
        return (1 << (bl - 1)) | 1
    return (1 << (bl - 1)) | rng.getrandbits(bl - 1) | 1


def lincomb_lines(rng, kind, n, cnt_lz, counts):
    lzs = list(range(0, 8)) + [rng.randrange(8, 63) for _ in range(cnt_lz)] + [62, 63]
    if n > 1:
        lzs += [64, 65, 64 * n - 2, 64 * n - 1]
    for lz in lzs:
        if lz > 64 * n - 1:
            continue
        m = lz_modulus(rng, n, lz)
        for t in counts(lz):
            yield f'c09.lincomb {kind} {n} {hx(m)} {pairs_tok(lincomb_terms(rng, n, m, t))}'


def double_sub_inputs(rng, nl, want):
    """boxed ladder inputs whose accumulator is >= 2m when the loop exits, so that BOTH final conditional
    subtractions are needed (DESIGN §6 C09 tag final_sub = 2). Random inputs essentially never get there; this
    searches with a value-level simulation of the almost-Montgomery ladder (8-bit exponents, moduli in
    (0.40, 0.495)·2^BITS) and returns (modulus, base, exponent) triples."""
    Rn = 1 << (64 * nl)
    out = []
    while len(out) < want:
        m = rng.randrange(Rn * 40 // 100, Rn * 495 // 1000) | 1
        k = (-pow(m, -1, Rn)) % Rn

        def amm(a, b):
            t = a * b
            u = ((t % Rn) * k) % Rn
            z = (t + u * m) // Rn
            return z - m if z >= Rn else z
        one = Rn % m
        for _ in range(8):
            x = rng.randrange(m)
            xm = (x * Rn) % m
            powers = [one, xm]
            for _i in range(2, 16):
                powers.append(amm(powers[-1], xm))
            big = [i for i in range(2, 16) if 100 * powers[i] >= 155 * m]
            if not big:
                continue
            hit = None
            for hi_n in range(1, 16):
                z = amm(one, powers[hi_n])
                for _j in range(4):
                    z = amm(z, z)
                if 2 * z < 3 * m:
                    continue
                for lo_n in big:
                    if amm(z, powers[lo_n]) >= 2 * m:
                        hit = (m, x, (hi_n << 4) | lo_n)
                        break
                if hit:
                    break
            if hit:
                out.append(hit)
                break
    return out


# ---------------------------------------------------------------- crate-internal functions (verif_hooks)

HOOK_WIDTHS = [1, 2, 3, 4, 8, 16]                      # `go!` in harness/src/ops/c09.rs::hook_dispatch
HOOK_MULTI = [(1, 1), (1, 2), (2, 1), (2, 2), (3, 1), (4, 1), (4, 4), (4, 8), (8, 2)]


def mparams(n, m):
    """(one, mod_neg_inv) of the modulus: R mod m, -m^-1 mod 2^64"""
    return (1 << (64 * n)) % m, (-pow(m, -1, 1 << 64)) % (1 << 64)


def pow2_minus_c(rng, n):
    """moduli of the form 2^k - c"""
    bits = 64 * n
    ks = {bits, bits - 1, bits - 2, bits - 5, max(2, bits - 63), max(2, bits - 64), max(2, 64 * (n - 1) + 1), max(2, rng.randrange(2, bits + 1))}
    out = []
    for k in sorted(ks):
        for c in (1, 3, rng.choice([5, 19, 0xc5, 0x1000003d1, (1 << 32) + 977])):
            m = (1 << k) - c
            if m >= 1 and m % 2 == 1:
                out.append(m)
    return out


def mont_table(n, m, xm):
    """compute_powers as the contract describes it: Montgomery forms of X^0 .. X^15 for the Montgomery form xm"""
    R = 1 << (64 * n)
    X = xm * pow(R, -1, m) % m if m > 1 else 0
    return [pow(X, j, m) * R % m for j in range(16)]


def hook_lines(tier, rng):
    q = tier == 'quick'
    # ---- compute_powers: x in {0, 1~, m-1, unreduced, random}, canonical and arbitrary `one` / `k`
    for n in HOOK_WIDTHS:
        R = 1 << (64 * n)
        ms = moduli(rng, n, 1) + pow2_minus_c(rng, n)
        if q:
            ms = rng.sample(ms, min(len(ms), 6 if n <= 4 else 2)) + [1]
        for m in ms:
            one, k = mparams(n, m)
            xs = [0, 1 % R, one, m - 1, rng.randrange(m), rng.randrange(m)]
            xs += [m % R, R - 1, rng.randrange(R)]                     # unreduced (mirror only)
            if q and n >= 8:
                xs = rng.sample(xs, 3)
            for x in xs:
                yield f'c09.hook.compute_powers {n} {hx(m)} {hx(one)} {hx(k)} {hx(x)}'
            yield f'c09.hook.compute_powers {n} {hx(m)} {hx(rng.randrange(R))} {hx(k)} {hx(rng.randrange(m))}'
            yield f'c09.hook.compute_powers {n} {hx(m)} {hx(one)} {hx(rng.getrandbits(64))} {hx(rng.randrange(m))}'
    # ---- multi_exponentiate_montgomery_form_internal on caller-provided tables
    for (n, ne) in HOOK_MULTI:
        R = 1 << (64 * n)
        ebits = 64 * ne
        ms = moduli(rng, n, 1) + pow2_minus_c(rng, n)
        for m in rng.sample(ms, min(len(ms), (3 if q else 8) if n <= 4 else 2)):
            one, k = mparams(n, m)
            for rep in range(4 if q else 12):
                nterms = rng.choice([0, 1, 1, 2, 3])
                kind = rng.choice(['power', 'power', 'arbitrary', 'distinct', 'unreduced'])
                terms = []
                for _ in range(nterms):
                    if kind == 'power':
                        t = mont_table(n, m, rng.choice([0, one, m - 1, rng.randrange(m)]))
                    elif kind == 'arbitrary':
                        t = [rng.randrange(m) for _ in range(16)]
                    elif kind == 'distinct':                          # entry j = j+1: a wrong index is visible at once
                        t = [(j + 1) % m for j in range(16)]
                    else:
                        t = [rng.randrange(R) for _ in range(16)]
                    terms.append((t, rng.choice(exps(rng, ne, 1))))
                tok = ';'.join(':'.join(hx(p) for p in t) + ',' + hx(e) for t, e in terms) if terms else '-'
                ks = {1, 2, 3, 4, 5, 8, 63, 64, ebits, ebits - 1, ebits - 3, rng.randrange(1, ebits + 1)}
                if ne > 1:
                    ks |= {65, 68, 69, 128}
                if nterms:
                    ks |= {0, ebits + 1, ebits + 64}                 # index out of bounds: panic
                ks = sorted(b for b in ks if (0 if nterms else 1) <= b <= ebits + 64 and (nterms or b <= ebits))
                for bits in (rng.sample(ks, min(len(ks), 4)) if q else ks):
                    yield f'c09.hook.multi_internal {n} {ne} {hx(m)} {hx(one)} {hx(k)} {bits} {tok}'
    # ---- one pass of the Longa accumulation: up to and beyond 2^leading_zeros terms, moduli 2^k - c,
    #      reduced and unreduced limbs; (u, hi_carry) unreduced
    def longa_family(op, n):
        R = 1 << (64 * n)
        lzs = [0, 1, 2, 3, 5, rng.randrange(6, 40)] + ([64, 64 * n - 2] if n > 1 else [62])
        cases = [(lz_modulus(rng, n, lz), lz) for lz in lzs if lz <= 64 * n - 1]
        cases += [(m, 64 * n - m.bit_length()) for m in rng.sample(pow2_minus_c(rng, n), 3 if q else 8)]
        for (m, lz) in cases:
            _, k = mparams(n, m)
            w = 1 << min(lz, 5)
            cnts = {0, 1, 2, w, w + 1, 2 * w + 3, 40 if n <= 4 else 9}
            if not q:
                cnts |= {w - 1 if w > 1 else 3, 3 * w, 100 if n <= 2 else 17}
            for t in sorted(cnts):
                mode = rng.randrange(4)
                ps = []
                for _ in range(t):
                    if mode == 0:
                        ps.append((m - 1, m - 1))
                    elif mode == 1:
                        ps.append((R - 1, R - 1))                      # unreduced maximum: hi_carry well above 1
                    elif mode == 2:
                        ps.append((rng.randrange(m), rng.randrange(m)))
                    else:
                        ps.append((value(rng, n), rng.choice([0, 1, m - 1, R - 1, rng.randrange(R)])))
                yield f'{op} {n} {hx(m)} {hx(k)} {pairs_tok(ps)}'
            yield f'{op} {n} {hx(m)} {hx(rng.getrandbits(64))} {pairs_tok([(rng.randrange(m), rng.randrange(m)) for _ in range(3)])}'
    for n in HOOK_WIDTHS:
        yield from longa_family('c09.hook.longa', n)
    for n in ([1, 2, 3, 5, 9] if q else [1, 2, 3, 4, 5, 6, 7, 9, 12, 17]):
        yield from longa_family('c09.hook.blonga', n)
    # ---- boxed pow_montgomery_form on raw limbs
    for n in ([1, 2, 3, 5, 9] if q else list(range(1, 10)) + [12, 17]):
        R = 1 << (64 * n)
        ms = moduli(rng, n, 1) + pow2_minus_c(rng, n)
        for m in rng.sample(ms, min(len(ms), 4 if q else 10)):
            one, k = mparams(n, m)
            for ne in sorted({1, rng.choice([1, 2, 3])}):
                ebits = 64 * ne
                for x in [0, one, m - 1, rng.randrange(m), rng.randrange(R)]:
                    e = rng.choice(exps(rng, ne, 1))
                    for bits in rng.sample(sorted({0, 1, 4, 5, 63, 64, ebits, ebits - 1, ebits + 1, rng.randrange(ebits + 1)}), 3):
                        yield f'c09.hook.bpow {n} {ne} {hx(m)} {hx(one)} {hx(k)} {bits} {hx(x)} {hx(e)}'
    for n in ([1, 2, 4] if q else [1, 2, 3, 4, 6, 9]):      # both final subtractions needed
        for (m, x, e) in double_sub_inputs(rng, n, 2 if q else 8):
            one, k = mparams(n, m)
            yield f'c09.hook.bpow {n} 1 {hx(m)} {hx(one)} {hx(k)} 8 {hx(x * (1 << (64 * n)) % m)} {hx(e)}'


# ---------------------------------------------------------------- nilpotent bases: results that are exactly 0 mod m

Q32 = (1 << 32) - 5                                      # prime
Q31 = (1 << 31) - 1                                      # prime
# (modulus, its radical): q^k and (p*q)^2, spanning 1, 2 and 3+ limbs
NILPOTENT_MODULI = [
    (9, 3), (27, 3), (25, 5), (125, 5), (49, 7), (343, 7), (225, 15), (3 ** 40, 3), (Q32 ** 2, Q32),
    (Q32 ** 3, Q32), (3 ** 80, 3), (7 ** 45, 7), ((Q32 * Q31) ** 2, Q32 * Q31), (5 ** 27 * 3 ** 2, 15),
    (Q32 ** 5, Q32), (3 ** 121, 3), (5 ** 110, 5), ((Q32 * Q31) ** 4, Q32 * Q31), (7 ** 91, 7),
    (Q32 ** 15, Q32), (3 ** 323, 3), (Q32 ** 31, Q32), (3 ** 646, 3),
]


def nilpotent_index(m, r):
    """least k with r^k = 0 mod m"""
    k, p = 1, r % m
    while p:
        p, k = p * r % m, k + 1
    return k


def nilpotent_lines(tier, rng):
    """moduli that are NOT squarefree, non-zero bases divisible by every prime factor of m: base^e = 0 (mod m)
    for e >= the nilpotency index. The Montgomery-domain accumulator is then a non-zero MULTIPLE of m before the
    final reduction (exactly m or 2m in the almost-reduced boxed ladder) - the `z >= m` boundary of every
    conditional subtraction; lincomb sums that are exactly 0 and exactly m likewise."""
    q = tier == 'quick'
    consts = set(CONST_MODULI)
    for (m, r) in NILPOTENT_MODULI:
        k = nilpotent_index(m, r)
        need = (m.bit_length() + 63) // 64
        bs = [r, m - r, (rng.randrange(1, m // r) * r) % m or r, r * r % m or r]
        es = [k, k + 1, 1 << rng.randrange(k.bit_length(), 64), (1 << 64) - 1, max(k - 1, 1)]
        widths = [n for n in WIDTHS if n >= need]
        if q:                                             # the tight width, sometimes a wider one; two of the bases
            widths = widths[:1] + ([widths[1]] if len(widths) > 1 and rng.randrange(3) == 0 else [])
            bs = [r, rng.choice(bs[1:])]
        for n in widths:                                  # fixed (zero high limbs when n > need)
            kinds = ['dyn'] + (['const'] if (n, m) in consts else [])
            for kind in kinds:
                for ne in ([rng.choice(EXP_WIDTHS[n][:2])] if q else EXP_WIDTHS[n]):
                    if n * ne >= 64:
                        continue
                    eb = 64 * ne
                    for b in bs:
                        e = rng.choice(es) % (1 << eb)
                        yield f'c09.pow {kind} {rng.choice("mt")} {n} {hx(m)} {ne} {hx(b)} {hx(e)}'
                        bits = sorted({max(e.bit_length(), 1), eb, min(eb, e.bit_length() + 1), max(k.bit_length() - 1, 0)})
                        for kb in (rng.sample(bits, 1) if q else bits):
                            yield f'c09.powb {kind} {rng.choice("mt")} {n} {hx(m)} {ne} {hx(b)} {hx(e)} {kb}'
                    # products whose factors multiply to 0 mod m: r^i * r^(k-i), and a nilpotent power times anything
                    i = rng.randrange(1, k) if k > 1 else 1
                    ps = [(pow(r, i, m) or r, 1), (pow(r, k - i, m) or r, 1)]
                    ps2 = [(r, k), (rng.randrange(m), rng.getrandbits(eb)), (m - 1, 1)]
                    mf = [('arr', ps), ('slice', ps), ('arr', ps2), ('slice', ps2 + [(m - r, k + 1)])]
                    for form, pp in (rng.sample(mf, 2) if q else mf):
                        yield f'c09.multi {kind} {form} {n} {hx(m)} {ne} {pairs_tok(pp)}'
                        yield f'c09.multib {kind} {form} {n} {hx(m)} {ne} {max(k.bit_length(), 1)} {pairs_tok(pp)}'
        # boxed: the needed precision and wider ones (zero high limbs)
        for n in sorted({need, min(17, need + rng.randrange(1, 6))} if q else {need, need + 1, min(17, need + rng.randrange(2, 6))}):
            if n > 17:
                continue
            for ne in ([1] if q else [1, 2]):
                eb = 64 * ne
                for b in bs:
                    e = rng.choice(es) % (1 << eb)
                    yield f'c09.pow boxed m {n} {hx(m)} {ne} {hx(b)} {hx(e)}'
                    for kb in ([rng.choice([max(e.bit_length(), 1), eb])] if q else sorted({max(e.bit_length(), 1), eb})):
                        yield f'c09.powb boxed {rng.choice("mt")} {n} {hx(m)} {ne} {hx(b)} {hx(e)} {kb}'
        # lincomb: sums that are exactly 0 and exactly m (as integers: a*b + (m - a*b mod m)*1), and nilpotent products
        a, b = rng.randrange(1, m), rng.randrange(1, m)
        c = (m - a * b % m) % m
        sums = [[(a, b), (c, 1)], [(r, pow(r, k - 1, m) or r)], [(a, b), (c, 1), (r, pow(r, k - 1, m) or r), (m - 1, 1), (1, 1)],
                [(m - r, m - r)] * max(k, 2), [(a, b), (m - a, b)]]
        if q:
            sums = sums[:2] + [rng.choice(sums[2:])]
        for n in widths:
            for t in sums:
                yield f'c09.lincomb dyn {n} {hx(m)} {pairs_tok(t)}'
                if (n, m) in consts:
                    yield f'c09.lincomb const {n} {hx(m)} {pairs_tok(t)}'
        for n in sorted({need, need + 1}):
            if n <= 17:
                for t in sums:
                    yield f'c09.lincomb boxed {n} {hx(m)} {pairs_tok(t)}'


def gen(tier, rng):
    yield from public_lines(tier, rng)
    yield from nilpotent_lines(tier, random.Random(rng.getrandbits(32)))
    # crate-internal functions through crypto_bigint::verif_hooks (emitted last from their own PRNG stream: the
    # public lines above are the same as before the hooks existed)
    yield from hook_lines(tier, random.Random(rng.getrandbits(32)))


def public_lines(tier, rng):
    q = tier == 'quick'
    # ---- panics / empties the documentation names
    yield 'c09.lincomb dyn 1 f1 -'
    yield 'c09.lincomb boxed 1 f1 -'
    yield 'c09.lincomb const 1 f1 -'
    yield 'c09.multi dyn slice 1 f1 1 -'
    yield 'c09.multi const slice 1 f1 1 -'
    yield 'c09.multib const slice 1 f1 1 7 -'
    # ---- exponentiation, fixed widths
    for n in WIDTHS:
        small = n <= 2
        for m in moduli(rng, n, 1 if q else 3):
            for ne in EXP_WIDTHS[n]:
                big = n * ne >= 64
                exhaustive = ne <= 2 and small and (not q or rng.randrange(3) == 0)
                if exhaustive:
                    nb, nexp = 1, 1
                elif q:
                    nb, nexp = (1, 1)
                    if big and rng.randrange(3):
                        continue
                else:
                    nb, nexp = (2, 2) if not big else (1, 1)
                yield from pow_lines(rng, 'dyn', n, m, ne, nb, nexp, exhaustive, ksample=12 if q and n > 2 else None)
                if not big or not q:
                    yield from multi_lines(rng, 'dyn', n, m, ne, 1 if q else 3)
    for n, m in CONST_MODULI:
        for ne in EXP_WIDTHS[n]:
            if q and n * ne >= 64:
                continue
            exhaustive = ne == 1 and n == 1
            yield from pow_lines(rng, 'const', n, m, ne, 1, 1, exhaustive)
            yield from multi_lines(rng, 'const', n, m, ne, 1 if q else 3)
    # ---- exponentiation, boxed 1..=17 limbs, exponent precision independent of the base
    for n in range(1, 18):
        for m in moduli(rng, n, 1 if q else 2):
            nes = [1, 2] if n <= 2 else [rng.choice([1, 2, 3]), n] if n <= 8 or not q else [rng.choice([1, 2])]
            for ne in nes:
                exhaustive = n <= 2 and ne <= 2 and (not q or rng.randrange(3) == 0)
                yield from pow_lines(rng, 'boxed', n, m, ne, 1, 1, exhaustive, ksample=9 if q and n > 2 else None)
    # accumulator >= 2m at loop exit: the second final conditional subtraction is needed (tag final_sub = 2)
    for n in ([1, 2, 4, 9] if q else [1, 2, 3, 4, 6, 9, 17]):
        for (m, x, e) in double_sub_inputs(rng, n, 3 if q else 12):
            yield f'c09.powb boxed m {n} {hx(m)} 1 {hx(x)} {hx(e)} 8'
            yield f'c09.powb boxed t {n} {hx(m)} 2 {hx(x)} {hx(e)} 8'
    # m = 1, k = 0 explicitly for every representation (DESIGN §7-14)
    for kind in ['dyn', 'const', 'boxed']:
        yield f'c09.powb {kind} m 1 1 1 0 5 0'
        yield f'c09.powb {kind} t 1 1 1 0 0 0'
        yield f'c09.powb {kind} m 1 1 1 0 5 3'
    # ---- lincomb: 1..=40 terms, 0..=63+ leading zeros
    def counts_q(lz):
        w = 1 << min(lz, 10)
        cs = {1, 2, 40, rng.randrange(1, 41)}
        if w < 40:
            cs |= {w, w + 1, min(40, 2 * w), min(40, 2 * w + 1), min(40, 3 * w - 1)}
        return sorted(c for c in cs if 1 <= c <= 40)
    def counts_t(lz):
        return list(range(1, 41))
    counts = counts_q if q else counts_t
    for n in WIDTHS:
        yield from lincomb_lines(rng, 'dyn', n, 2 if q else 8, counts)
    for n in ([1, 2, 3, 5, 9, 17] if q else range(1, 18)):
        yield from lincomb_lines(rng, 'boxed', n, 1 if q else 4, counts)
    for n, m in CONST_MODULI:
        for t in ([1, 2, 3, 5, 17, 40] if q else range(1, 41)):
            yield f'c09.lincomb const {n} {hx(m)} {pairs_tok(lincomb_terms(rng, n, m, t))}'
    # ---- seeded structured random over everything
    for _ in range(150 if q else 3000):
        n = rng.choice(WIDTHS[:3] if q else WIDTHS)
        kind = rng.choice(['dyn', 'boxed'])
        if kind == 'boxed':
            n = rng.randrange(1, 8 if q else 18)
        m = value(rng, n) | 1
        ne = rng.choice(EXP_WIDTHS[n]) if kind == 'dyn' else rng.randrange(1, 4)
        if n * ne >= 64:
            continue
        b, e, k = value(rng, n), value(rng, ne), rng.randrange(64 * ne + 1)
        yield f'c09.powb {kind} {rng.choice("mt")} {n} {hx(m)} {ne} {hx(b)} {hx(e)} {k}'
        t = rng.randrange(1, 41)
        yield f'c09.lincomb {kind} {n} {hx(m)} {pairs_tok(lincomb_terms(rng, n, m, t))}'
