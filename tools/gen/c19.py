"""C19 — random sampling: operation lines for the instrumented byte-stream RNG.

Every line carries the complete RNG output as an x-hex byte string; the harness serves it through a
byte-stream `RngCore`/`TryRngCore` fixture and prints `<result> <bytes consumed>`.
"""
from .common import *

RULE = ('operation lines from corpus + directed families (moduli: every significant-limb count, top limb 1, 2^j, 2^j+-1, MAX, '
        'low limbs 0/MAX/random; bit lengths 0..=BITS exhaustive for widths 1,2,3 (+4,8 in thorough) and beyond BITS; streams: '
        'seeded pseudo-random, all zeros, all ones, top word equal to / one above the modulus top limb with garbage above the mask, '
        'candidate = m-1, m, m+1, alternating early-reject / late-reject / accept, truncated at arbitrary byte positions) + seeded '
        'structured random; each line executed on the real crate in two build profiles and on the Lean model (L1) and the '
        'value-level specification (L0); distinct = distinct lines, non-trivial = some token longer than 2 characters')
ASSUMPTIONS = ['the RNG is the byte-stream fixture of harness/src/ops/c19.rs (next_u32/next_u64 = 4/8 bytes little-endian, '
               'fill_bytes = copy, failure consumes nothing)',
               'uniformity itself is a prose corollary of the counting theorems; the chi-square ops are supporting evidence only '
               '(Laurent-Massart 1e-12 upper-tail bound of the limiting chi-square law)']

WIDTHS = [1, 2, 3, 4, 8]


def xb(bs):
    return 'x' + bytes(bs).hex()


def words(ws):
    out = bytearray()
    for w in ws:
        out += (w & WMAX).to_bytes(8, 'little')
    return out


def rbytes(rng, k):
    return bytearray(rng.getrandbits(8) for _ in range(k))


def top_limbs(rng, tier):
    tops = [1, 2, 3, WMAX, WMAX - 1, 1 << 63, (1 << 63) + 1, (1 << 63) - 1, 1 << 32, (1 << 32) - 1, (1 << 32) + 1]
    js = range(1, 64) if tier == 'thorough' else [rng.randrange(1, 64) for _ in range(4)]
    for j in js:
        tops += [1 << j, (1 << j) - 1, (1 << j) + 1]
    tops += [rng.getrandbits(rng.randrange(1, 65)) | 1 for _ in range(3)]
    return sorted(set(t for t in tops if 0 < t <= WMAX))


def low_part(rng, k, kind):
    """k low limbs"""
    if k == 0:
        return 0
    if kind == 0:
        return 0
    if kind == 1:
        return (1 << (64 * k)) - 1
    if kind == 2:
        return rng.getrandbits(64 * k)
    if kind == 3:
        return 1
    return value(rng, k)


def moduli(rng, n, tier):
    """(modulus, significant limbs)"""
    out = []
    tops = top_limbs(rng, tier)
    for nl in range(1, n + 1):
        tsel = tops if (tier == 'thorough' or n <= 2) else rng.sample(tops, min(len(tops), 10))
        for t in tsel:
            kinds = [0, 1, 2] if nl > 1 else [0]
            for kind in kinds:
                out.append(((t << (64 * (nl - 1))) | low_part(rng, nl - 1, kind), nl))
    out.append(((1 << (64 * n)) - 1, n))
    return out


def cand_words(v, nl):
    """the word sequence (top word first, then low limbs in index order) that makes candidate v"""
    hi = (v >> (64 * (nl - 1))) & WMAX
    return [hi] + [(v >> (64 * i)) & WMAX for i in range(nl - 1)]


def mod_streams(rng, m, nl, tier):
    """byte streams for a modulus with nl significant limbs"""
    mhi = m >> (64 * (nl - 1))
    b = mhi.bit_length()
    garbage = lambda w: (w | (rng.getrandbits(64 - b) << b)) if b < 64 else w
    full = 1 << (64 * nl)
    acc = lambda: cand_words(rng.randrange(m), nl)
    tail = lambda: list(words([rng.getrandbits(64) for _ in range(rng.randrange(0, 3))])) + list(rbytes(rng, rng.randrange(0, 8)))
    S = []
    # pseudo-random, long enough to terminate with overwhelming probability
    S.append(rbytes(rng, 8 * nl * 24))
    S.append(rbytes(rng, rng.randrange(0, 8 * nl * 3 + 1)))          # short: may run dry
    S.append(bytearray(8 * nl * 3))                                   # all zeros
    S.append(bytearray([0xff]) * (8 * nl * 3))                        # all ones
    # candidate = m-1, m, m+1 (when representable), each followed by an accepted candidate
    for v in (m - 1, m, m + 1):
        if v < full and (v >> (64 * (nl - 1))) < (1 << b):
            ws = cand_words(v, nl)
            ws[0] = garbage(ws[0])
            S.append(words(ws + acc()) + bytearray(tail()))
    # top word equal to the modulus top limb with low limbs 0 / MAX / random
    for lows in (0, (1 << (64 * (nl - 1))) - 1, rng.getrandbits(64 * (nl - 1)) if nl > 1 else 0):
        v = (mhi << (64 * (nl - 1))) | lows
        ws = cand_words(v, nl)
        ws[0] = garbage(ws[0])
        S.append(words(ws + acc()) + bytearray(tail()))
    # top word one above the modulus top limb (early rejection; only representable below the mask)
    if mhi + 1 < (1 << b):
        S.append(words([garbage(mhi + 1)] + acc()) + bytearray(tail()))
        S.append(words([garbage(mhi + 1)] * 3 + [garbage((1 << b) - 1)] + acc()) + bytearray(tail()))
    # alternating early-reject / late-reject / accept
    reps = 3 if tier == 'quick' else 8
    for _ in range(reps):
        ws = []
        for _ in range(rng.randrange(1, 6)):
            k = rng.randrange(3)
            if k == 0 and mhi + 1 < (1 << b):
                ws.append(garbage(rng.randrange(mhi + 1, 1 << b)))                     # early reject
            elif k == 1 and m < (mhi + 1) << (64 * (nl - 1)):
                v = rng.randrange(m, (mhi + 1) << (64 * (nl - 1)))                     # late reject
                c = cand_words(v, nl)
                c[0] = garbage(c[0])
                ws += c
            else:
                c = acc()
                c[0] = garbage(c[0])
                ws += c
        c = acc()
        c[0] = garbage(c[0])
        S.append(words(ws + c) + bytearray(tail()))
    # truncations of a structured stream at arbitrary byte positions
    base = S[-1]
    for _ in range(2 if tier == 'quick' else 6):
        S.append(base[:rng.randrange(0, len(base) + 1)])
    S.append(bytearray())
    return S


def gen_mod(tier, rng):
    for n in WIDTHS:
        for (m, nl) in moduli(rng, n, tier):
            streams = mod_streams(rng, m, nl, tier)
            for s in streams:
                t = xb(s)
                yield f"c19.u.try_random_mod {n} {hx(m)} {t}"
                yield f"c19.b.try_random_mod {n} {hx(m)} {t}"
            # infallible forms on a subset
            for s in streams[:2] + streams[-3:]:
                t = xb(s)
                yield f"c19.u.random_mod {n} {hx(m)} {t}"
                yield f"c19.b.random_mod {n} {hx(m)} {t}"
    # boxed-only widths
    for n in ([5, 7, 11] if tier == 'quick' else [5, 6, 7, 9, 11, 16, 20]):
        ms = moduli(rng, n, 'quick')
        for (m, nl) in rng.sample(ms, min(len(ms), 12 if tier == 'quick' else 60)):
            for s in mod_streams(rng, m, nl, 'quick'):
                yield f"c19.b.try_random_mod {n} {hx(m)} {xb(s)}"
    # ConstMontyForm: fixed moduli
    CMF = {0: (0xffffffff00000001, 1), 1: (0x1000000000000000d, 2),
           2: (0x73eda753299d7d483339d80809a1d80553bda402fffe5bfeffffffff00000001, 4),
           3: ((1 << 256) - 189, 4), 4: (3, 1)}
    for i, (m, nl) in CMF.items():
        for _ in range(1 if tier == 'quick' else 4):
            for s in mod_streams(rng, m, nl, tier):
                yield f"c19.cmf.try_random {i} {xb(s)}"
                yield f"c19.cmf.random {i} {xb(s)}"


def bit_streams(rng, need):
    S = [bytearray([0xff]) * need, rbytes(rng, need), rbytes(rng, need + rng.randrange(1, 9))]
    if need > 0:
        S.append(rbytes(rng, rng.randrange(0, need)))      # too short
        S.append(rbytes(rng, need - 1))
    return S


def bits_need(bl):
    if bl == 0:
        return 0
    nz = (bl + 63) // 64
    p = bl % 64
    return 8 * (nz - 1) + (4 if 0 < p <= 32 else 8)


def gen_bits(tier, rng):
    for n in WIDTHS:
        bits = 64 * n
        if n <= 3 or tier == 'thorough':
            bls = list(range(0, bits + 1))
        else:
            bls = sorted(set([0, 1, bits] + [x for k in range(0, bits + 1, 32) for x in (k - 1, k, k + 1, k + 2) if 0 <= x <= bits]
                             + [rng.randrange(bits + 1) for _ in range(24)]))
        for bl in bls:
            for s in bit_streams(rng, bits_need(bl)):
                t = xb(s)
                yield f"c19.u.try_random_bits {n} {bl} {t}"
            t = xb(bit_streams(rng, bits_need(bl))[rng.randrange(3)])
            yield f"c19.u.random_bits {n} {bl} {t}"
            yield f"c19.i.try_random_bits {n} {bl} {t}"
            yield f"c19.u.try_random_bits_wp {n} {bl} {bits} {t}"
            yield f"c19.i.try_random_bits_wp {n} {bl} {bits} {t}"
            yield f"c19.u.random_bits_wp {n} {bl} {bits} {t}"
        # errors: too long, precision mismatch (mismatch is reported first)
        for bl in [bits + 1, bits + 2, bits + 63, bits + 64, bits + 65, 2 * bits, 4294967295, 4294967232]:
            t = xb(rbytes(rng, 8 * n + 8))
            yield f"c19.u.try_random_bits {n} {bl} {t}"
            yield f"c19.u.random_bits {n} {bl} {t}"
            yield f"c19.i.try_random_bits {n} {bl} {t}"
            yield f"c19.u.try_random_bits_wp {n} {bl} {bits} {t}"
            yield f"c19.u.try_random_bits_wp {n} {bl} {bl} {t}"
        for bp in [0, 1, bits - 1, bits + 1, bits - 64, bits + 64, 63, 65, 4294967295]:
            for bl in [0, 1, bits, bits + 1, bp, min(bp + 1, 4294967295)]:
                t = xb(rbytes(rng, 8 * n))
                yield f"c19.u.try_random_bits_wp {n} {bl} {bp} {t}"
                yield f"c19.i.try_random_bits_wp {n} {bl} {bp} {t}"
                yield f"c19.u.random_bits_wp {n} {bl} {bp} {t}"
    # boxed: precision = bit_length, and explicit precisions
    top = 330 if tier == 'quick' else 1100
    for bl in range(0, top):
        ss = bit_streams(rng, bits_need(bl))
        for s in (ss if bl <= 200 or tier == 'thorough' else ss[:2]):
            yield f"c19.b.try_random_bits {bl} {xb(s)}"
        t = xb(ss[rng.randrange(3)])
        yield f"c19.b.random_bits {bl} {t}"
        yield f"c19.oddb.random {bl} {t}"
        if bl > 0:
            yield f"c19.oddb.random {bl} {xb(bytearray(bits_need(bl)))}"
            yield f"c19.oddb.random {bl} {xb(ss[3])}"
        for bp in sorted(set([bl, bl + 1, ((bl + 63) // 64) * 64, ((bl + 63) // 64) * 64 + 1, bl + 64, bl + rng.randrange(0, 200)])):
            yield f"c19.b.try_random_bits_wp {bl} {bp} {t}"
        yield f"c19.b.random_bits_wp {bl} {bl + rng.randrange(0, 130)} {t}"
        if bl > 0:
            for bp in sorted(set([bl - 1, 0, max(0, bl - 64), rng.randrange(0, bl)])):
                yield f"c19.b.try_random_bits_wp {bl} {bp} {t}"
            yield f"c19.b.random_bits_wp {bl} {bl - 1} {t}"


def gen_limb(tier, rng):
    ms = [1, 2, 3, 4, 5, 7, 8, 100, 127, 128, 129, 255, 256, 257, 65535, 65536, 65537, WMAX, WMAX - 1, 1 << 63, (1 << 63) + 1, (1 << 63) - 1]
    for j in range(1, 64):
        ms += [1 << j, (1 << j) - 1, (1 << j) + 1]
    ms += [rng.getrandbits(rng.randrange(1, 65)) | 1 for _ in range(20 if tier == 'quick' else 200)]
    for m in sorted(set(ms)):
        nb = (m.bit_length() + 7) // 8
        b = m.bit_length()
        le = lambda v: bytearray(v.to_bytes(nb, 'little'))
        def garb(bs):
            bs = bytearray(bs)
            if b % 8:
                bs[nb - 1] |= (rng.getrandbits(8) << (b % 8)) & 0xff
            return bs
        S = [rbytes(rng, nb * 20), bytearray(nb * 2), bytearray([0xff]) * (nb * 3), rbytes(rng, rng.randrange(0, 2 * nb + 1)), bytearray()]
        for v in (m - 1, m, m + 1):
            if v < (1 << b):
                S.append(garb(le(v)) + garb(le(rng.randrange(m))) + rbytes(rng, rng.randrange(0, 4)))
        for _ in range(3 if tier == 'quick' else 10):
            s = bytearray()
            for _ in range(rng.randrange(0, 5)):
                if m < (1 << b):
                    s += garb(le(rng.randrange(m, 1 << b)))
            s += garb(le(rng.randrange(m))) + rbytes(rng, rng.randrange(0, 4))
            S.append(s)
            S.append(s[:rng.randrange(0, len(s) + 1)])
        for s in S:
            yield f"c19.l.try_random_mod {hx(m)} {xb(s)}"
        for s in S[:2] + S[-2:]:
            yield f"c19.l.random_mod {hx(m)} {xb(s)}"
    for _ in range(20):
        s = rbytes(rng, rng.randrange(0, 20))
        yield f"c19.l.random {xb(s)}"
        yield f"c19.l.try_random {xb(s)}"


def gen_wrappers(tier, rng):
    reps = 12 if tier == 'quick' else 80
    for n in WIDTHS:
        for _ in range(reps):
            # i zero candidates, then a (possibly) non-zero one, then a tail
            i = rng.randrange(0, 4)
            cand = value(rng, n) if rng.randrange(4) else 0
            s = bytearray(8 * n * i) + words([(cand >> (64 * k)) & WMAX for k in range(n)]) + rbytes(rng, rng.randrange(0, 12))
            for t in (xb(s), xb(s[:rng.randrange(0, len(s) + 1)])):
                yield f"c19.nz.random {n} {t}"
                yield f"c19.nz.try_random {n} {t}"
                yield f"c19.odd.random {n} {t}"
                yield f"c19.odd.try_random {n} {t}"
                yield f"c19.u.random {n} {t}"
                yield f"c19.u.try_random {n} {t}"
                yield f"c19.i.random {n} {t}"
                yield f"c19.i.try_random {n} {t}"
                yield f"c19.wrapping.random {n} {t}"
        for s in (bytearray(8 * n * 3), bytearray([0xff]) * (8 * n), bytearray([0xfe]) + bytearray(8 * n), bytearray()):
            yield f"c19.nz.random {n} {xb(s)}"
            yield f"c19.odd.random {n} {xb(s)}"
            yield f"c19.nz.try_random {n} {xb(s)}"
    for _ in range(reps):
        i = rng.randrange(0, 4)
        s = bytearray(8 * i) + words([limb_choice(rng)]) + rbytes(rng, rng.randrange(0, 12))
        yield f"c19.nzl.random {xb(s)}"
        yield f"c19.nzl.random {xb(s[:rng.randrange(0, len(s) + 1)])}"


def gen_chi2(tier, rng):
    if tier == 'quick':
        yield "c19.chi2 u1 7 1 200000"
        yield "c19.chi2 u2hi 5 2 200000"
        yield "c19.chi2 limb 257 3 200000"
        yield "c19.chi2 bits1 32 4 200000"
        return
    draws = 1000000
    for kind in ['u1', 'u2', 'u4', 'b2', 'limb', 'u2hi']:
        for m in [2, 3, 5, 6, 7, 9, 10, 17, 31, 33, 42, 100, 127, 129, 255, 257, 1000]:
            yield f"c19.chi2 {kind} {m} {rng.getrandbits(32)} {draws}"
    for kind in ['bits1', 'bits2']:
        for m in [2, 4, 32, 256, 1024]:
            yield f"c19.chi2 {kind} {m} {rng.getrandbits(32)} {draws}"


def gen(tier, rng):
    yield from gen_mod(tier, rng)
    yield from gen_bits(tier, rng)
    yield from gen_limb(tier, rng)
    yield from gen_wrappers(tier, rng)
    yield from gen_chi2(tier, rng)
