"""
C02 generator — unsigned division and remainder.

Directed families (from the property's quantifier text and the model's branch structure):
  * n = q*d + r with r in {0, 1, d-1}
  * Knuth add-back: the 3-by-2 quotient-digit estimate is one too large (constructed:
    window = (q+1)*Y - eps with 1 <= eps <= (q+1)*low(Y), divisor with large low limbs)
  * q_maxed: top dividend limb equals top (normalised) divisor limb (n = d*B^k - delta)
  * divisor bit length multiple of 64, top limb MAX, second limb 0 / MAX
  * n < d, n = d, d = 1, d = 2^k, single-limb d inside a wide width
  * reciprocal: MAX, B/2, B/2+1, every value of the top 9 bits x low patterns, 2^k +- 1
  * div2by1 corrections (first / second fix-up taken), rem2k for k around limb and width borders
A Python re-evaluation of the branch conditions (`sim`) counts how often each branch of the
algorithms is taken by the emitted lines; the counts go into RULE (evidence `rule` field).
It is used for statistics and candidate selection only, never for the verdict.
"""
from collections import Counter
from .common import *

STATS = Counter()
RULE = 'see tools/gen/c02.py'
ASSUMPTIONS = [
    'Uint::bits / bits_vartime / shl / shr (C05) and ConstChoice::from_u32_* (C06) are taken on values in the model',
    'short_div / reciprocal / div2by1 / div3by2 / Reciprocal fields are also observed directly through crypto_bigint::verif_hooks (c02.hook.*); short_div only for dividend_bits - divisor_bits in 0..=31 (beyond that release masks the shift amount and the overflow-checking build panics)',
]

FIXED_Q = [1, 2, 3, 4, 6, 8, 16, 32, 64]
FIXED_T = [1, 2, 3, 4, 5, 6, 7, 8, 12, 16, 32, 64]
MIXED = [(1, 1), (1, 2), (1, 3), (1, 4), (1, 8), (2, 1), (2, 2), (2, 3), (2, 4), (2, 6), (3, 1), (3, 2), (3, 3), (3, 4), (3, 8),
         (4, 1), (4, 2), (4, 3), (4, 4), (4, 6), (4, 8), (4, 16), (6, 1), (6, 2), (6, 3), (6, 4), (6, 6), (6, 8),
         (8, 1), (8, 2), (8, 3), (8, 4), (8, 6), (8, 8), (8, 16), (16, 1), (16, 2), (16, 4), (16, 8), (16, 16), (16, 32),
         (32, 1), (32, 4), (32, 16), (32, 32), (32, 64), (64, 1), (64, 8), (64, 32), (64, 64)]
REM_MIXED = [(3, 1), (3, 2), (4, 1), (4, 3), (8, 3), (8, 5), (16, 7), (16, 9), (16, 15)]


# ------------------------------------------------------------------ branch re-evaluation (statistics)

def d2by1_ev(u1, u0, d, ev):
    v = (B * B - 1) // d - B
    q = (v * u1 + ((u1 << 64) | u0)) % (B * B)
    q1, q0 = ((q >> 64) + 1) & WMAX, q & WMAX
    r = (u0 - q1 * d) & WMAX
    if r > q0:
        ev['d2by1_fix1'] += 1
        r = (r + d) & WMAX
    if r >= d:
        ev['d2by1_fix2'] += 1


def limb_ev(n, d, L, ev):
    s = 64 - d.bit_length()
    if s == 0:
        ev['limb_shift0'] += 1
    dn, x, r = d << s, n << s, 0
    r = x >> (64 * L)
    for j in range(L - 1, -1, -1):
        u = (x >> (64 * j)) & WMAX
        d2by1_ev(r, u, dn, ev)
        r = ((r << 64) | u) % dn


def sim(n, d, L, ev):
    """branch events of the Knuth division of an L-limb n by d (ct and vartime take the same digits)"""
    dbits = d.bit_length()
    yc = (dbits + 63) // 64
    if yc == 1:
        ev['yc1_limb_tail'] += 1
        limb_ev(n, d, L, ev)
        return
    if yc > L:
        ev['yc_gt'] += 1
        return
    s = (64 - dbits % 64) % 64
    if s == 0:
        ev['shift0'] += 1
    ev['done_iter'] += yc - 2
    Y, R = d << s, n << s
    v1, v0 = Y >> (64 * (yc - 1)), (Y >> (64 * (yc - 2))) & WMAX
    for xi in range(L - 1, yc - 2, -1):
        j = xi + 1 - yc
        W = R >> (64 * j)
        u3 = W >> (64 * (yc - 2))
        u2, u1, u0 = u3 >> 128, (u3 >> 64) & WMAX, u3 & WMAX
        if u2 == v1:
            ev['qmaxed'] += 1
            quo, rem = WMAX, u2 + u1
        else:
            quo, rem = divmod((u2 << 64) | u1, v1)
            d2by1_ev(u2, u1, v1, ev)
        c = 0
        for _ in range(2):
            if rem < B and quo * v0 > rem * B + u0:
                quo -= 1
                rem += v1
                c += 1
        ev['corr%d' % c] += 1
        qt = W // Y
        if quo == qt + 1:
            ev['addback'] += 1
            if qt == 0:
                ev['addback_q0'] += 1
        elif quo != qt:
            ev['QHAT_OFF_BY_MORE'] += 1
        R -= (qt * Y) << (64 * j)


# ------------------------------------------------------------------ value families

def divisors(rng, L, reps):
    """divisors for an L-limb type: structured by limb count, bit length, top/second limb"""
    out = [1, 2, 3, WMAX, 1 << 63, (1 << 63) + 1, (1 << (64 * L)) - 1, 1 << (64 * L - 1)]
    for yc in sorted({1, 2, 3, L // 2, L - 1, L} & set(range(1, L + 1))):
        top = 64 * yc
        lowmax = (1 << (64 * (yc - 1))) - 1
        out += [
            (1 << top) - 1,                                  # all ones: bit length multiple of 64, top limb MAX
            1 << (top - 1),                                  # 2^k, top limb 2^63
            (1 << (top - 1)) | lowmax,                       # (2^63, MAX, MAX, ...)
            (WMAX << (64 * (yc - 1))),                       # (MAX, 0, 0, ...)
            (WMAX << (64 * (yc - 1))) | (lowmax >> 64),      # (MAX, 0, MAX, ...): second limb 0
            ((WMAX << 64 | (WMAX - 1)) << (64 * max(yc - 2, 0))) | (lowmax >> 64) if yc >= 2 else WMAX - 1,  # (MAX, MAX-1, ones)
            (1 << (top - 1)) | (lowmax >> 64),               # (2^63, 0, ones)
            1 << (64 * (yc - 1)),                            # smallest yc-limb value (shift 63)
            (1 << (64 * (yc - 1))) | lowmax,
            (1 << rng.randrange(64 * (yc - 1), top)),
        ]
        for _ in range(reps):
            bits = rng.randrange(64 * (yc - 1) + 1, top + 1)
            v = rng.getrandbits(bits) | (1 << (bits - 1))
            k = rng.randrange(4)
            if k == 0:
                v |= lowmax
            elif k == 1:
                v &= ~lowmax | (1 << (64 * (yc - 1)) >> 1)
            out.append(v)
            out.append(value(rng, yc) | (1 << (64 * (yc - 1))))
    m = 1 << (64 * L)
    return [d % m for d in out if d % m != 0]


def dividends(rng, L, d, reps):
    """dividends for a given divisor: the directed relations of the property text"""
    m = 1 << (64 * L)
    out = [0, 1, m - 1, d, d - 1, d + 1, 2 * d, 2 * d - 1, m - d, m // 2]
    qmax = (m - 1) // d
    for _ in range(reps):
        q = rng.choice([1, 2, qmax, qmax // 2 + 1, rng.randrange(qmax + 1), value(rng, L) % (qmax + 1),
                        WMAX % (qmax + 1), B % (qmax + 1), (B - 1) * B % (qmax + 1)])
        for r in (0, 1, d - 1, rng.randrange(d)):
            out.append(q * d + r)
        out.append(value(rng, L))
    # q_maxed family: n = d*B^k - delta
    yc = (d.bit_length() + 63) // 64
    for k in range(1, L - yc + 1):
        for delta in (1, 2, B, rng.getrandbits(64 * k) + 1):
            out.append(d * (1 << (64 * k)) - delta)
    return [n % m for n in out]


def addback_cases(rng, L, reps):
    """(n, d): the quotient-digit estimate is one too large at a chosen digit"""
    out = []
    m = 1 << (64 * L)
    for yc in range(3, L + 1):
        if yc > 6 and yc not in (L // 2, L - 1, L) and rng.randrange(4):
            continue
        low = (1 << (64 * (yc - 2))) - 1
        tops = [(1 << 63, 0), (WMAX, WMAX - 1), (WMAX, WMAX), (1 << 63, WMAX), ((1 << 63) + 1, 1),
                (rng.getrandbits(64) | (1 << 63), rng.getrandbits(64)), (WMAX, 0), (1 << 63, 1)]
        for (t1, t0) in tops:
            for _ in range(reps):
                s = rng.choice([0, 0, 1, 7, 63, rng.randrange(64)])
                Y = (((t1 << 64) | t0) << (64 * (yc - 2))) | (low if rng.randrange(3) else rng.getrandbits(64 * (yc - 2)) | (low >> 1))
                d = Y >> s
                if d == 0 or (d.bit_length() + 63) // 64 != yc:
                    continue
                dlow = d & ((1 << (64 * (yc - 2))) - 1)
                q = rng.choice([0, 1, 2, WMAX - 1, WMAX - 2, rng.getrandbits(64) % (WMAX - 1), rng.getrandbits(8)])
                bound = min((q + 1) * dlow, d)
                if bound < 1:
                    continue
                eps = rng.choice([1, bound, rng.randrange(1, bound + 1), max(1, bound - 1)])
                w = (q + 1) * d - eps                      # digit q, estimate q + 1
                j = rng.randrange(0, L - yc + 1)
                n = (w << (64 * j)) | (rng.getrandbits(64 * j) if j else 0)
                # optionally put further digits above so the add-back is not the first digit
                if rng.randrange(2) and (L - yc - j) > 0:
                    hiq = rng.getrandbits(64 * (L - yc - j))
                    n += (hiq * d) << (64 * (j + 1))
                if n < m:
                    out.append((n, d))
    return out


def emit_fixed(rng, L, n, d, heavy):
    """lines for one (n, d) in an L-limb fixed type"""
    ev = STATS
    sim(n, d, L, ev)
    yield f"c02.u.div_rem {L} {hx(n)} {hx(d)}"
    yield f"c02.u.div_rem_vartime {L} {hx(n)} {hx(d)}"
    if heavy:
        yield f"c02.u.div_forms {L} {hx(n)} {hx(d)}"
        yield f"c02.u.rem_forms {L} {hx(n)} {hx(d)}"
        yield f"c02.u.op_div_uint {L} {hx(n)} {hx(d)}"
        yield f"c02.u.op_rem_uint {L} {hx(n)} {hx(d)}"
        yield f"c02.u.checked_div {L} {hx(n)} {hx(d)}"
        yield f"c02.u.checked_rem {L} {hx(n)} {hx(d)}"
        yield f"c02.u.wrapping_rem_vartime {L} {hx(n)} {hx(d)}"


def emit_boxed(rng, NL, DL, n, d, heavy):
    if NL == DL:
        yield f"c02.b.div_rem {NL} {DL} {hx(n)} {hx(d)}"
        if heavy:
            yield f"c02.b.div_forms {NL} {DL} {hx(n)} {hx(d)}"
            yield f"c02.b.rem_forms {NL} {DL} {hx(n)} {hx(d)}"
            yield f"c02.b.checked_div {NL} {DL} {hx(n)} {hx(d)}"
    yield f"c02.b.div_rem_vartime {NL} {DL} {hx(n)} {hx(d)}"
    yield f"c02.b.rem_vartime {NL} {DL} {hx(n)} {hx(d)}"


def recip_family(rng, reps):
    ds = [WMAX, 1 << 63, (1 << 63) + 1, WMAX - 1, (1 << 63) - 1, 1, 2, 3]
    for k in range(64):
        ds += [1 << k, (1 << k) + 1, max(1, (1 << k) - 1)]
    for top in range(256, 512):                     # every value of the top 9 bits of a normalised divisor
        base = top << 55
        ds += [base, base | ((1 << 55) - 1), base | rng.getrandbits(55)]
        for _ in range(reps):
            ds.append(base | rng.getrandbits(55))
            ds.append((base | rng.getrandbits(55)) >> rng.randrange(64) or 1)
    for _ in range(reps * 50):
        ds.append(limb_choice(rng) or 1)
    return ds


def norm_mantissas(rng, reps):
    """normalised 64-bit divisors (top bit set): the edge mantissas of the reciprocal"""
    T = 1 << 63
    ms = [T, T + 1, T + 2, WMAX, WMAX - 1, WMAX - 2, T | (1 << 62), T | ((1 << 62) - 1), T | (1 << 55), T | ((1 << 55) - 1),
          (0x1ff << 55), (0x1ff << 55) | ((1 << 55) - 1), (0x100 << 55) | ((1 << 55) - 1), T | (1 << 24), T | ((1 << 24) - 1),
          0xaaaaaaaaaaaaaaaa, 0xd555555555555555, T | 0xffffffff, T | (1 << 32)]
    ms += [T | rng.getrandbits(63) for _ in range(reps)]
    return ms


def hook_family(rng, quick):
    """crate-internal building blocks through verif_hooks, on their own input spaces"""
    out = []
    add = out.append
    # ---- short_div: the call made by `reciprocal` for every 9-bit head, the whole contract grid of bit lengths,
    # and inputs outside the contract (dividend / divisor with more bits than announced, divisor 0, overflowing shift)
    for d9 in range(256, 512):
        add(f"c02.hook.short_div {hx((1 << 19) - 3 * (1 << 8))} 19 {hx(d9)} 9")
    for db in range(1, 33):
        for vb in range(1, db + 1):
            xs = {(1 << db) - 1, rng.getrandbits(db)}
            ys = {rng.choice([1 << (vb - 1), (1 << vb) - 1]), (1 << (vb - 1)) | rng.getrandbits(vb - 1)}
            if not quick:
                xs |= {1 << (db - 1), 0, 1} | {rng.getrandbits(db) for _ in range(4)}
                ys |= {1 << (vb - 1), (1 << vb) - 1} | {(1 << (vb - 1)) | rng.getrandbits(vb - 1) for _ in range(3)}
            for x in sorted(xs):
                for y in sorted(ys):
                    add(f"c02.hook.short_div {hx(x)} {db} {hx(y)} {vb}")
                    STATS['short_div_contract'] += 1
            # exact multiples and their neighbours
            y = (1 << (vb - 1)) | rng.getrandbits(vb - 1)
            q = rng.randrange(((1 << db) - 1) // y + 1)
            for x in ((q * y, q * y + y - 1, max(q * y - 1, 0)) if not quick else (q * y + rng.choice([0, y - 1]),)):
                if x < (1 << db):
                    add(f"c02.hook.short_div {hx(x)} {db} {hx(y)} {vb}")
    for _ in range(300 if quick else 5000):           # outside the contract (mirror only): shift amount 0..=31
        vb = rng.randrange(0, 33)
        db = rng.randrange(vb, min(vb + 32, 64))
        x = rng.choice([rng.getrandbits(32), (1 << 32) - 1, rng.getrandbits(rng.randrange(1, 33)), 1 << 31])
        y = rng.choice([rng.getrandbits(32), (1 << 32) - 1, 0, 1, rng.getrandbits(rng.randrange(1, 33)), 1 << 31])
        add(f"c02.hook.short_div {hx(x)} {db} {hx(y)} {vb}")
        STATS['short_div_outside'] += 1
    # ---- Reciprocal::new fields: all 64 shifts x edge mantissas; raw reciprocal on the mantissas
    ms = norm_mantissas(rng, 6 if quick else 60)
    for s in range(64):
        for m in ms:
            add(f"c02.hook.recip_fields {hx(m >> s)}")
        add(f"c02.hook.recip_fields {hx(1 << (63 - s))}")
        add(f"c02.hook.recip_fields {hx((1 << (64 - s)) - 1)}")
    add("c02.hook.recip_fields 0")
    for m in ms + [(top << 55) | rng.getrandbits(55) for top in range(256, 512)]:
        add(f"c02.hook.reciprocal {hx(m)}")
    # ---- div2by1 with the reciprocal of ANY non-zero divisor (normalised inside Reciprocal::new), u1 < dn
    for d in [1, 2, 3, WMAX, WMAX - 1, 1 << 63, (1 << 63) + 1, (1 << 63) - 1, 1 << 32] + [limb_choice(rng) or 1 for _ in range(30 if quick else 600)]:
        dn = d << (64 - d.bit_length())
        for (u1, u0) in [(0, 0), (dn - 1, WMAX), (dn - 1, 0), (0, WMAX), (dn // 2, dn), (rng.randrange(dn), limb_choice(rng)),
                         (rng.randrange(dn), rng.getrandbits(64))]:
            d2by1_ev(u1, u0, dn, STATS)
            add(f"c02.hook.div2by1 {hx(u1)} {hx(u0)} {hx(d)}")
        for _ in range(4):                              # remainders 0 / dn-1 after each fix-up
            q = rng.choice([WMAX, WMAX - 1, rng.getrandbits(64), 1, 0])
            u = q * dn + rng.choice([0, 1, dn - 1, dn - 2, rng.randrange(dn)])
            if (u >> 64) < dn:
                d2by1_ev(u >> 64, u & WMAX, dn, STATS)
                add(f"c02.hook.div2by1 {hx(u >> 64)} {hx(u & WMAX)} {hx(d)}")
    # ---- div3by2: q_maxed (u2 = v1), estimates one / two too large (v0 large, u0 small), exact quotients
    for v1 in [WMAX, 1 << 63, (1 << 63) + 1, WMAX - 1] + [rng.getrandbits(63) | (1 << 63) for _ in range(40 if quick else 1500)]:
        for v0 in [0, 1, WMAX, WMAX - 1, 1 << 63, rng.getrandbits(64)]:
            v = (v1 << 64) | v0
            cases = [(v1, 0, 0), (v1, WMAX, WMAX), (v1, v0, 0), (v1, rng.getrandbits(64), rng.getrandbits(64)), (0, 0, 0), (0, 0, WMAX),
                     (v1 - 1, WMAX, WMAX), (rng.randrange(v1 + 1), limb_choice(rng), limb_choice(rng)), (rng.randrange(v1), rng.getrandbits(64), 0)]
            for _ in range(3):
                q = rng.choice([WMAX, WMAX - 1, rng.getrandbits(64), 1, 2])
                u = q * v + rng.choice([0, 1, v - 1, rng.randrange(v)]) - rng.choice([0, 0, 1])
                if 0 <= u and (u >> 128) <= v1:
                    cases.append((u >> 128, (u >> 64) & WMAX, u & WMAX))
            for (u2, u1, u0) in cases:
                u = (u2 << 128) | (u1 << 64) | u0
                # correction rounds actually needed on top of the 2-by-1 estimate (statistics only)
                if u2 == v1:
                    STATS['hook_d3by2_qmaxed'] += 1
                else:
                    STATS[f"hook_d3by2_corr{min(((u2 << 64) | u1) // v1, WMAX) - min(u // v, WMAX)}"] += 1
                add(f"c02.hook.div3by2 {hx(u2)} {hx(u1)} {hx(u0)} {hx(v1)} {hx(v0)}")
    # ---- Reciprocal::default / conditional_select, then a division with the selected reciprocal
    for L in ([1, 2, 3, 4, 8, 16] if quick else FIXED_T[:-1]):
        m = 1 << (64 * L)
        for d in [1, WMAX, WMAX - 1, 1 << 63, 3, limb_choice(rng) or 1, rng.getrandbits(64) or 1]:
            for n in [0, m - 1, WMAX % m, (WMAX * WMAX) % m, (m - 1) // WMAX * WMAX, (m - 1) // WMAX * WMAX - 1, value(rng, L), rng.getrandbits(64 * L)]:
                for c in range(4):
                    add(f"c02.u.recip_select {L} {hx(n % m)} {hx(d)} {c}")
        add(f"c02.u.recip_select {L} 1 0 1")
    for NL in ([1, 2, 5, 17] if quick else [1, 2, 3, 5, 9, 17, 33, 70]):
        m = 1 << (64 * NL)
        for d in [1, WMAX, 1 << 63, limb_choice(rng) or 1]:
            for n in [m - 1, (m - 1) // WMAX * WMAX, value(rng, NL), rng.getrandbits(64 * NL)]:
                for c in range(4):
                    add(f"c02.b.recip_select {NL} {hx(n % m)} {hx(d)} {c}")
    STATS['hook_lines'] = len(out)
    return out


def gen(tier, rng):
    global RULE
    STATS.clear()
    quick = tier == 'quick'
    widths = FIXED_Q if quick else FIXED_T
    lines = []
    add = lines.append

    # ---- reciprocal and div2by1
    recs = recip_family(rng, 2 if quick else 40)
    for d in recs:
        add(f"c02.recip {hx(d)}")
    STATS['recip_lines'] = len(recs)
    d2 = [(WMAX - 2, WMAX - 63, WMAX - 1)]          # the crate's regression input
    for d in [WMAX, 1 << 63, (1 << 63) + 1, WMAX - 1] + [rng.getrandbits(64) | (1 << 63) for _ in range(40 if quick else 2000)]:
        us = [(0, 0), (0, WMAX), (d - 1, WMAX), (d - 1, 0), (d - 1, d - 1), (d - 1, d), (1, 0), (d // 2, WMAX)]
        us += [(rng.randrange(d), limb_choice(rng)) for _ in range(8)]
        # remainders near 0 and near d: u = q*d + r
        for _ in range(8):
            q = rng.choice([WMAX, WMAX - 1, rng.getrandbits(64), 1])
            r = rng.choice([0, 1, d - 1, d - 2, rng.randrange(d)])
            u = q * d + r
            if (u >> 64) < d:
                us.append((u >> 64, u & WMAX))
        for (u1, u0) in us:
            d2.append((u1, u0, d))
    for (u1, u0, d) in d2:
        d2by1_ev(u1, u0, d, STATS)
        add(f"c02.div2by1 {hx(u1)} {hx(u0)} {hx(d)}")

    # ---- crate-internal building blocks (verif_hooks) and the default / selected reciprocal
    lines.extend(hook_family(rng, quick))

    # ---- single-limb divisor (fixed and boxed)
    for L in widths:
        m = 1 << (64 * L)
        ds = [1, 2, 3, WMAX, WMAX - 1, 1 << 63, (1 << 63) + 1, (1 << 63) - 1, 1 << 32] + [limb_choice(rng) or 1 for _ in range(6 if quick else 40)]
        for d in ds:
            ns = [0, 1, m - 1, d, d - 1, (m - 1) // d * d, (m - 1) // d * d - 1, m // 2] + [value(rng, L) for _ in range(3 if quick else 12)]
            q = rng.randrange((m - 1) // d + 1)
            ns += [q * d, q * d + 1, q * d + d - 1]
            for n in ns:
                n %= m
                limb_ev(n, d, L, STATS)
                add(f"c02.u.div_rem_limb {L} {hx(n)} {hx(d)}")
    for NL in ([1, 2, 3, 5, 9, 17, 33, 70] if quick else list(range(1, 71))):
        m = 1 << (64 * NL)
        for d in [1, WMAX, 1 << 63, 3] + [limb_choice(rng) or 1 for _ in range(4)]:
            for n in [0, m - 1, d, value(rng, NL), value(rng, NL), rng.randrange((m - 1) // d + 1) * d]:
                add(f"c02.b.div_rem_limb {NL} {hx(n % m)} {hx(d)}")

    # ---- full division, fixed widths
    for L in widths:
        reps = 2 if quick else 10
        if L >= 32:
            reps = 1 if quick else 3
        ds = divisors(rng, L, reps)
        for d in ds:
            ns = dividends(rng, L, d, reps)
            if L >= 16 and quick:
                ns = ns[:10] + rng.sample(ns[10:], min(len(ns) - 10, 6))
            for i, n in enumerate(ns):
                for l in emit_fixed(rng, L, n, d, heavy=(i % 5 == 0)):
                    add(l)
        # zero divisor: checked forms and the documented panics
        for n in [0, 1, value(rng, L)]:
            for op in ("checked_div", "checked_rem", "op_div_uint", "op_rem_uint", "wrapping_rem_vartime"):
                add(f"c02.u.{op} {L} {hx(n)} 0")
        if L >= 3:
            ab = addback_cases(rng, L, 1 if quick or L >= 16 else 3)
            if quick and len(ab) > 120:
                ab = rng.sample(ab, 120)
            for (n, d) in ab:
                for l in emit_fixed(rng, L, n, d, heavy=False):
                    add(l)
        # rem2k
        for k in sorted({0, 1, 2, 63, 64, 65, 127, 128, 64 * L - 1, 64 * L, 64 * L + 1, 64 * L + 63, 64 * L + 64, 65535, 65536, (1 << 32) - 1,
                         rng.randrange(64 * L + 1), rng.randrange(64 * L + 1)}):
            for n in [(1 << (64 * L)) - 1, value(rng, L), rng.getrandbits(64 * L)]:
                add(f"c02.u.rem2k_vartime {L} {hx(n)} {k}")
        # rem_wide_vartime
        if True:
            m = 1 << (64 * L)
            dsw = rng.sample(ds, min(len(ds), 10 if quick else 40)) + [1, WMAX % m or 1, m - 1, m // 2]
            for d in dsw:
                for _ in range(2 if quick else 6):
                    k = rng.randrange(6)
                    if k == 0:
                        w = rng.getrandbits(128 * L)
                    elif k == 1:
                        w = (m * m - 1)
                    elif k == 2:
                        w = rng.randrange(m * m // d + 1) * d
                    elif k == 3:
                        w = max(rng.randrange(m * m // d + 1) * d - 1, 0)
                    elif k == 4:
                        w = value(rng, 2 * L)
                    else:
                        w = d * m - 1 if d * m - 1 < m * m else d - 1
                    w %= m * m
                    add(f"c02.u.rem_wide_vartime {L} {hx(w % m)} {hx(w // m)} {hx(d)}")
            if L >= 3:
                for (n, d) in addback_cases(rng, L, 1)[: (20 if quick else 200)]:
                    w = n * (1 << (64 * rng.randrange(L + 1))) % (m * m)
                    add(f"c02.u.rem_wide_vartime {L} {hx(w % m)} {hx(w // m)} {hx(d)}")

    # ---- mixed widths (vartime)
    for (L, R) in MIXED:
        mL, mR = 1 << (64 * L), 1 << (64 * R)
        reps = 6 if quick else 40
        for _ in range(reps):
            yc = rng.randrange(1, R + 1)
            d = rng.choice([value(rng, yc), rng.getrandbits(64 * yc), (1 << (64 * yc)) - 1, 1 << (64 * yc - 1), 1]) or 1
            n = rng.choice([value(rng, L), rng.getrandbits(64 * L), rng.randrange(mL // min(d, mL) + 1) * d, d, d - 1, mL - 1]) % mL
            sim(n, d, L, STATS)
            add(f"c02.u.div_rem_vartime_mixed {L} {R} {hx(n)} {hx(d % mR or 1)}")
        if L >= 3 and R >= 3:
            for (n, d) in addback_cases(rng, L, 1)[:10]:
                if d < mR:
                    sim(n, d, L, STATS)
                    add(f"c02.u.div_rem_vartime_mixed {L} {R} {hx(n)} {hx(d)}")
    for (L, R) in REM_MIXED:
        mL, mR = 1 << (64 * L), 1 << (64 * R)
        for _ in range(10 if quick else 100):
            d = (value(rng, R) if rng.randrange(2) else rng.getrandbits(64 * R)) or 1
            n = rng.choice([value(rng, L), rng.getrandbits(64 * L), rng.randrange(mL // d + 1) * d]) % mL
            add(f"c02.u.rem_mixed {L} {R} {hx(n)} {hx(d)}")

    # ---- boxed: equal and different widths, 1..=70 limbs
    bw = [1, 2, 3, 4, 5, 8, 9, 16, 17, 31, 33, 40, 64, 65, 70] if quick else list(range(1, 71))
    for NL in bw:
        mN = 1 << (64 * NL)
        dls = {NL, 1, max(1, NL - 1), min(70, NL + 1), rng.choice(bw), 70 if NL < 8 else 2}
        for DL in sorted(dls):
            mD = 1 << (64 * DL)
            for t in range(4 if quick else 12):
                yc = rng.randrange(1, DL + 1)
                d = rng.choice([value(rng, yc), rng.getrandbits(64 * yc), (1 << (64 * yc)) - 1, 1 << (64 * yc - 1), value(rng, DL)]) % mD or 1
                n = rng.choice([value(rng, NL), rng.getrandbits(64 * NL), rng.randrange(mN // min(d, mN) + 1) * d, d, d - 1, mN - 1]) % mN
                for l in emit_boxed(rng, NL, DL, n, d, heavy=(t % 2 == 0)):
                    add(l)
            if NL >= 3 and DL >= 3:
                for (n, d) in addback_cases(rng, NL, 1)[: (6 if quick else 30)]:
                    if d < mD:
                        sim(n, d, NL, STATS)
                        for l in emit_boxed(rng, NL, DL, n, d, heavy=False):
                            add(l)
        add(f"c02.b.checked_div {NL} {NL} {hx(value(rng, NL))} 0")
    # boxed precision mismatch on the constant-time forms (DESIGN §7 #10): a few lines per run
    for (NL, DL) in [(1, 2), (2, 1), (2, 3), (3, 2), (4, 8), (8, 4)]:
        mN, mD = 1 << (64 * NL), 1 << (64 * DL)
        for d in [1, 3, value(rng, DL) or 1, mD - 1, (mN % mD) or 1, (mN + 1) % mD or 1]:
            n = value(rng, NL)
            for op in ("div_rem_mixed", "div_forms_mixed", "rem_forms_mixed", "checked_div_mixed"):
                add(f"c02.b.{op} {NL} {DL} {hx(n)} {hx(d)}")
        add(f"c02.b.checked_div_mixed {NL} {DL} {hx(value(rng, NL))} 0")

    STATS['lines'] = len(lines)
    RULE = ('operation lines from corpus + directed families + seeded structured random; each line runs on the real crate '
            '(release and dbgchk profiles) and on the Lean model (L1 ;; L0). distinct = distinct lines with an operand longer than 2 hex digits. '
            'Branch hits re-evaluated in the generator over the emitted Knuth/limb divisions: '
            + ', '.join(f'{k}={v}' for k, v in sorted(STATS.items())))
    for l in lines:
        yield l
