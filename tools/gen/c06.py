from .common import *

RULE = ('pairs from the property quantifier: equal, differing only in lowest / highest limb / sign bit, 0 vs MIN/MAX, '
        'zero-padded equals (boxed, different precisions), both choice values; plus seeded structured random; '
        'each line run on the crate (2 profiles; all equivalent API routes must agree inside the harness) and on the model '
        '(limb-level L1 and order-of-integers L0); distinct = distinct lines, non-trivial = some operand longer than 2 hex digits')

def pairs_for(rng, n, reps):
    m = 1 << (64 * n)
    half = m >> 1
    top = 1 << (64 * (n - 1))
    ps = [(0, 0), (m - 1, m - 1), (0, m - 1), (m - 1, 0), (0, half), (half, 0), (half, half - 1), (half - 1, half),
          (0, 1), (1, 0), (1, 1), (half, half), (m - 1, half), (half, m - 1), (half - 1, 0), (half + 1, half)]
    for _ in range(reps):
        a = value(rng, n)
        ps.append((a, a))
        ps.append((a, a ^ 1))                       # only lowest limb differs
        ps.append((a, a ^ top))                     # only highest limb differs (lowest bit of it)
        ps.append((a, a ^ half))                    # only the sign bit differs
        ps.append((a, a ^ (1 << rng.randrange(64 * n))))
        ps.append(pair(rng, n))
        b = value(rng, n)
        ps.append((a, b)); ps.append((b, a))
    return ps

def gen(tier, rng):
    widths = FIXED_QUICK if tier == 'quick' else FIXED_THOROUGH
    reps = 25 if tier == 'quick' else 300
    for a in EDGE_WORDS:
        for b in EDGE_WORDS:
            yield f"c06.w.cmp {hx(a)} {hx(b)}"
            for c in (0, 1):
                yield f"c06.w.select {hx(a)} {hx(b)} {c}"
    for _ in range(reps * 20):
        a, b = limb_choice(rng), limb_choice(rng)
        if rng.randrange(4) == 0: b = a ^ (1 << rng.randrange(64))
        yield f"c06.w.cmp {hx(a)} {hx(b)}"
        yield f"c06.w.select {hx(a)} {hx(b)} {rng.randrange(2)}"
    for n in widths:
        for a, b in pairs_for(rng, n, reps):
            yield f"c06.u.cmp {n} {hx(a)} {hx(b)}"
            yield f"c06.i.cmp {n} {hx(a)} {hx(b)}"
            yield f"c06.u.hash {n} {hx(a)} {hx(b)}"
            for c in (0, 1):
                yield f"c06.u.select {n} {hx(a)} {hx(b)} {c}"
                yield f"c06.u.ctoption {n} {hx(a)} {hx(b)} {c}"
            yield f"c06.u.tests {n} {hx(a)}"
            yield f"c06.i.tests {n} {hx(a)}"
    # boxed: equal and different precisions, zero-padded equal values
    blens = list(range(1, 9)) + [16, 17, 33] if tier == 'quick' else list(range(1, 41))
    for na in blens:
        for nb in ([na, max(1, na - 1), na + 1, 1] if tier == 'quick' else blens[::3] + [na]):
            k = min(na, nb)
            for a, b in pairs_for(rng, k, 2 if tier == 'quick' else 4):
                yield f"c06.b.cmp {na} {hx(a)} {nb} {hx(b)}"
                yield f"c06.b.hash {na} {hx(a)} {nb} {hx(b)}"
            # a uses its full precision
            a = value(rng, na); b = value(rng, nb)
            yield f"c06.b.cmp {na} {hx(a)} {nb} {hx(b)}"
            yield f"c06.b.hash {na} {hx(a)} {nb} {hx(b)}"
            yield f"c06.b.hash {na} {hx(a % (1 << (64 * k)))} {nb} {hx(a % (1 << (64 * k)))}"
        for a, b in pairs_for(rng, na, 2):
            yield f"c06.b.cmp_vartime {na} {hx(a)} {hx(b)}"
            for c in (0, 1):
                yield f"c06.b.select {na} {hx(a)} {hx(b)} {c}"

    # ---- coverage round (emitted last, from its own PRNG stream)
    yield from coverage_lines(tier, random.Random(rng.getrandbits(32)))


def coverage_lines(tier, rng):
    """num-traits style zero / one constructors and tests (Limb, Uint, Int, BoxedUint), the provided trait methods
    (one_like, set_zero, zero_like, ConstantTimeSelect::ct_assign / ct_swap), comparisons through Odd / NonZero and
    ConstChoice ==.  Directed: 0, 1, 2, MAX, values whose only set bits lie above limb 0 (a zero / one test must look at
    every limb), -1 and MIN for Int, equal / lowest-limb / highest-limb differences for the wrapped comparisons (odd and
    even right-hand sides), zero-padded equal boxed values of different precisions; both choice values."""
    quick = tier == 'quick'
    widths = FIXED_QUICK if quick else FIXED_THOROUGH
    reps = 25 if quick else 300
    for v in EDGE_WORDS + [limb_choice(rng) for _ in range(reps * 2)]:
        yield f"c06.w.numtests {hx(v)}"
    for p in (0, 1):
        for q in (0, 1):
            yield f"c06.w.choice_eq {p} {q}"
    for n in widths:
        m = 1 << (64 * n)
        half = m >> 1
        hi = 1 << (64 * (n - 1))
        vals = [0, 1, 2, 3, m - 1, m - 2, half, half - 1, half + 1, hi, (hi + 1) % m, (hi << 63) % m, (1 << 64) % m, ((1 << 64) + 1) % m, WMAX % m]
        vals += [value(rng, n) for _ in range(reps)]
        for a in vals:
            yield f"c06.u.numtests {n} {hx(a)} {hx(rng.choice([0, 1, WMAX, limb_choice(rng)]))}"
            yield f"c06.i.numtests {n} {hx(a)}"
        for a, b in pairs_for(rng, n, reps // 4):
            yield f"c06.u.wrapped_cmp {n} {hx(a)} {hx(b)}"
            yield f"c06.u.wrapped_cmp {n} {hx(a)} {hx(b | 1)}"
            yield f"c06.u.wrapped_cmp {n} {hx(a | 1)} {hx(b | 1)}"
    blens = list(range(1, 9)) + [16, 17, 33] if quick else list(range(1, 41))
    for na in blens:
        ma = 1 << (64 * na)
        hi = 1 << (64 * (na - 1))
        for a in [0, 1, 2, ma - 1, hi, (hi + 1) % ma, (1 << 64) % ma, ((1 << 64) + 1) % ma] + [value(rng, na) for _ in range(4 if quick else 20)]:
            yield f"c06.b.numtests {na} {hx(a)} {hx(rng.choice([0, 1, WMAX, limb_choice(rng)]))}"
        for a, b in pairs_for(rng, na, 1):
            for c in (0, 1):
                yield f"c06.b.select_default {na} {hx(a)} {hx(b)} {c}"
        for nb in ([na, max(1, na - 1), na + 1, 1] if quick else sorted({na, max(1, na - 1), na + 1, 1} | set(blens[::8]))):
            k = min(na, nb)
            for a, b in pairs_for(rng, k, 1):
                yield f"c06.b.wrapped_cmp {na} {hx(a)} {nb} {hx(b | 1)}"
                yield f"c06.b.wrapped_cmp {na} {hx(a | 1)} {nb} {hx(b | 1)}"
                yield f"c06.b.wrapped_cmp {na} {hx(a)} {nb} {hx(b)}"
            a, b = value(rng, na), value(rng, nb)
            yield f"c06.b.wrapped_cmp {na} {hx(a)} {nb} {hx(b | 1)}"
            yield f"c06.b.wrapped_cmp {na} {hx(a | 1)} {nb} {hx(b | 1)}"
