from .common import *

RULE = ('pairs from the property quantifier: equal, differing only in lowest / highest limb / sign bit, 0 vs MIN/MAX, '
        'zero-padded equals (boxed, different precisions), both choice values; plus seeded structured random; '
        'each line run on the crate (2 profiles; all equivalent API routes must agree inside the harness) and on the model '
        '(limb-level L1 and order-of-integers L0); distinct = distinct lines, non-trivial = some operand longer than 2 hex digits')

def pairs_for(rng, n, reps):
    m = 1 << (64 * n)
    half = m >> 1
    top = 1 << (64 * (n - 1))
    ps = [(0, 0), (m - 1, m - 1), (0, m - 1), (m - 1, 0), (0, half), (half, 0), (half, half - 1), (half - 1, half),
          (0, 1), (1, 0), (1, 1), (half, half), (m - 1, half), (half, m - 1), (half - 1, 0), (half + 1, half)]
    for _ in range(reps):
        a = value(rng, n)
        ps.append((a, a))
        ps.append((a, a ^ 1))                       # only lowest limb differs
        ps.append((a, a ^ top))                     # only highest limb differs (lowest bit of it)
        ps.append((a, a ^ half))                    # only the sign bit differs
        ps.append((a, a ^ (1 << rng.randrange(64 * n))))
        ps.append(pair(rng, n))
        b = value(rng, n)
        ps.append((a, b)); ps.append((b, a))
    return ps

def gen(tier, rng):
    widths = FIXED_QUICK if tier == 'quick' else FIXED_THOROUGH
    reps = 25 if tier == 'quick' else 300
    for a in EDGE_WORDS:
        for b in EDGE_WORDS:
            yield f"c06.w.cmp {hx(a)} {hx(b)}"
            for c in (0, 1):
                yield f"c06.w.select {hx(a)} {hx(b)} {c}"
    for _ in range(reps * 20):
        a, b = limb_choice(rng), limb_choice(rng)
        if rng.randrange(4) == 0: b = a ^ (1 << rng.randrange(64))
        yield f"c06.w.cmp {hx(a)} {hx(b)}"
        yield f"c06.w.select {hx(a)} {hx(b)} {rng.randrange(2)}"
    for n in widths:
        for a, b in pairs_for(rng, n, reps):
            yield f"c06.u.cmp {n} {hx(a)} {hx(b)}"
            yield f"c06.i.cmp {n} {hx(a)} {hx(b)}"
            yield f"c06.u.hash {n} {hx(a)} {hx(b)}"
            for c in (0, 1):
                yield f"c06.u.select {n} {hx(a)} {hx(b)} {c}"
                yield f"c06.u.ctoption {n} {hx(a)} {hx(b)} {c}"
            yield f"c06.u.tests {n} {hx(a)}"
            yield f"c06.i.tests {n} {hx(a)}"
    # boxed: equal and different precisions, zero-padded equal values
    blens = list(range(1, 9)) + [16, 17, 33] if tier == 'quick' else list(range(1, 41))
    for na in blens:
        for nb in ([na, max(1, na - 1), na + 1, 1] if tier == 'quick' else blens[::3] + [na]):
            k = min(na, nb)
            for a, b in pairs_for(rng, k, 2 if tier == 'quick' else 4):
                yield f"c06.b.cmp {na} {hx(a)} {nb} {hx(b)}"
                yield f"c06.b.hash {na} {hx(a)} {nb} {hx(b)}"
            # a uses its full precision
            a = value(rng, na); b = value(rng, nb)
            yield f"c06.b.cmp {na} {hx(a)} {nb} {hx(b)}"
            yield f"c06.b.hash {na} {hx(a)} {nb} {hx(b)}"
            yield f"c06.b.hash {na} {hx(a % (1 << (64 * k)))} {nb} {hx(a % (1 << (64 * k)))}"
        for a, b in pairs_for(rng, na, 2):
            yield f"c06.b.cmp_vartime {na} {hx(a)} {hx(b)}"
            for c in (0, 1):
                yield f"c06.b.select {na} {hx(a)} {hx(b)} {c}"
