from .common import *

def gen(tier, rng):
    widths = FIXED_QUICK if tier == 'quick' else FIXED_THOROUGH
    reps = 60 if tier == 'quick' else 600
    # word primitives: every carry-in class
    for a in EDGE_WORDS:
        for b in EDGE_WORDS:
            for c in [0, 1, 2, WMAX, 1 << 63, (1 << 63) - 1]:
                yield f"c04.w.adc {hx(a)} {hx(b)} {hx(c)}"
                yield f"c04.w.sbb {hx(a)} {hx(b)} {hx(c)}"
    for _ in range(reps * 10):
        a, b, c, d = (limb_choice(rng) for _ in range(4))
        yield f"c04.w.adc {hx(a)} {hx(b)} {hx(c)}"
        yield f"c04.w.sbb {hx(a)} {hx(b)} {hx(c)}"
        yield f"c04.w.mac {hx(a)} {hx(b)} {hx(c)} {hx(d)}"
    for e in [0, 1, WMAX]:
        for f in [0, 1, WMAX]:
            for g in [0, 1, WMAX]:
                for h in [0, 1, WMAX]:
                    yield f"c04.w.mac {hx(e)} {hx(f)} {hx(g)} {hx(h)}"
    for n in widths:
        m = 1 << (64 * n)
        directed = [(m - 1, 1), (0, 1), (m - 1, m - 1), (0, 0), (m - 1, 0), (1, m - 1), (m // 2, m // 2), (m // 2 - 1, m // 2)]
        alt = sum(WMAX << (128 * i) for i in range((n + 1) // 2)) % m
        directed += [(alt, m - 1 - alt), (alt, (m - alt) % m), (alt, alt)]
        pairs = directed + [pair(rng, n) for _ in range(reps)]
        for a, b in pairs:
            for c in ([0, 1, 2, WMAX] if (a, b) in directed else [rng.choice([0, 1, 2, WMAX, limb_choice(rng)])]):
                yield f"c04.u.adc {n} {hx(a)} {hx(b)} {hx(c)}"
                yield f"c04.u.sbb {n} {hx(a)} {hx(b)} {hx(c)}"
            for op in ["wrapping_add", "wrapping_sub", "saturating_add", "saturating_sub", "checked_add", "checked_sub"]:
                yield f"c04.u.{op} {n} {hx(a)} {hx(b)}"

    # ---- remaining forms: negation, operators, Wrapping / Checked, Limb forms, boxed (any two precisions)
    for n in widths:
        m = 1 << (64 * n)
        vals = [0, 1, m - 1, m // 2, m // 2 - 1, m - 2] + [value(rng, n) for _ in range(reps // 3)]
        for a in vals:
            for c in (0, 1):
                yield f"c04.u.neg {n} {hx(a)} {c}"
        trip = [(m - 1, 1, 0), (m - 1, 0, 1), (0, 0, 1), (m - 1, 1, 1), (m // 2, m // 2, 1), (1, 2, 3), (0, 0, 0)]
        for _ in range(reps // 2):
            a, b = pair(rng, n)
            trip.append((a, b, rng.choice([0, 1, a, b, value(rng, n)])))
        for a, b, c in trip:
            yield f"c04.u.op_add {n} {hx(a)} {hx(b)}"
            yield f"c04.u.op_sub {n} {hx(a)} {hx(b)}"
            yield f"c04.u.wrapping_chain {n} {hx(a)} {hx(b)} {hx(c)}"
            yield f"c04.u.checked_chain {n} {hx(a)} {hx(b)} {hx(c)}"
    for a in EDGE_WORDS:
        for b in EDGE_WORDS:
            yield f"c04.l.forms {hx(a)} {hx(b)}"
            yield f"c04.l.op_add {hx(a)} {hx(b)}"
            yield f"c04.l.op_sub {hx(a)} {hx(b)}"
    for _ in range(reps * 5):
        a, b = limb_choice(rng), limb_choice(rng)
        yield f"c04.l.forms {hx(a)} {hx(b)}"
        yield f"c04.l.op_add {hx(a)} {hx(b)}"
        yield f"c04.l.op_sub {hx(a)} {hx(b)}"
    blens = [1, 2, 3, 4, 5, 8, 16, 17, 40] if tier == 'quick' else list(range(1, 41))
    for na in blens:
        others = sorted({na, 1, 2, max(1, na - 1), na + 1}) if tier == 'quick' else blens[::4] + [na, na + 1]
        for nb in others:
            k = min(na, nb)
            ma, mb = 1 << (64 * na), 1 << (64 * nb)
            ps = [(ma - 1, 1), (ma - 1, mb - 1), (0, 1), (0, 0), (1, mb - 1), (ma - 1, 0), (0, mb - 1),
                  (ma // 2, mb // 2), ((1 << (64 * k)) - 1, 1), (5, 1 << (64 * k) if k < nb else 5), (1 << (64 * k) if k < na else 7, 9)]
            for _ in range(4 if tier == 'quick' else 10):
                ps.append((value(rng, na), value(rng, nb)))
                a, b = pair(rng, k)
                ps.append((a, b))
            for a, b in ps:
                a %= ma; b %= mb
                for c in rng.sample([0, 1, 2, WMAX], 2):
                    yield f"c04.b.adc {na} {hx(a)} {nb} {hx(b)} {hx(c)}"
                    yield f"c04.b.sbb {na} {hx(a)} {nb} {hx(b)} {hx(c)}"
                for op in ("forms", "op_add", "op_sub", "add_assign", "sub_assign", "wrapping_assign"):
                    yield f"c04.b.{op} {na} {hx(a)} {nb} {hx(b)}"


    # ---- coverage round (emitted last, from its own PRNG stream: the families above stay the same lines)
    yield from coverage_lines(tier, random.Random(rng.getrandbits(32)))


def coverage_lines(tier, rng):
    """`Wrapping<Limb>` / `Checked<Limb>` assigning forms and the `WrappingNeg` trait form; the trait forms of
    `Checked<T>` (conditional_select, ct_eq, Default, From conversions) with every combination of `is_some` masks and
    choice; the trait forms of `Wrapping<T>` (conditional_select, ct_eq, zero/is_zero, one/is_one, fmt forwarding).
    Directed: MAX + 1, 0 - 1, equal operands, 0 / 1 / values whose only set bits are above limb 0 (is_zero / is_one
    must look at every limb), zero-padded equal boxed values of different precisions."""
    quick = tier == 'quick'
    widths = FIXED_QUICK if quick else FIXED_THOROUGH
    reps = 60 if quick else 600
    lpairs = [(a, b) for a in EDGE_WORDS for b in EDGE_WORDS] + [(limb_choice(rng), limb_choice(rng)) for _ in range(reps * 3)]
    for a, b in lpairs:
        yield f"c04.l.assign {hx(a)} {hx(b)}"
    for i, (a, b) in enumerate(lpairs[:121 + reps]):
        for sa in (0, 1):
            for sb in (0, 1):
                if i < 121 or (sa, sb) == (i % 2, (i // 2) % 2):
                    yield f"c04.l.checked_assign {hx(a)} {sa} {hx(b)} {sb}"
    ldir = [(0, 0), (1, 1), (0, 1), (1, 0), (WMAX, WMAX), (WMAX, 0), (5, 5), (5, 7), (1 << 63, 1 << 63), (1 << 63, 0)]
    for a, b in ldir + [(limb_choice(rng), limb_choice(rng)) for _ in range(reps)] + [(v, v) for v in (limb_choice(rng) for _ in range(reps // 3))]:
        full = (a, b) in ldir
        for sa in (0, 1):
            for sb in (0, 1):
                for c in (0, 1):
                    if full or rng.randrange(4) == 0:
                        yield f"c04.l.checked_ct {hx(a)} {sa} {hx(b)} {sb} {c}"
        for c in (0, 1):
            yield f"c04.l.wrapping_ct {hx(a)} {hx(b)} {c}"
    for v in EDGE_WORDS + [limb_choice(rng) for _ in range(reps // 3)] + [0xabcdef0123456789, 0x0fedcba987654321]:
        yield f"c04.l.wrapping_fmt {hx(v)}"
        yield f"c04.w.wrapping_octal {hx(v)}"
    for n in widths:
        m = 1 << (64 * n)
        hi = 1 << (64 * (n - 1))                  # only the top limb set (n > 1): invisible to a test of limb 0
        udir = [(0, 0), (1, 1), (0, 1), (1, 0), (m - 1, m - 1), (m - 1, 0), (hi, hi), (hi, 0), (hi % m + 1, 1), (1, (hi + 1) % m),
                (m // 2, m // 2), (m - 1, m - 2)]
        rnd = [pair(rng, n) for _ in range(reps // 2)] + [(v, v) for v in (value(rng, n) for _ in range(reps // 6))]
        for a, b in udir + rnd:
            full = (a, b) in udir
            for sa in (0, 1):
                for sb in (0, 1):
                    for c in (0, 1):
                        if full or rng.randrange(4) == 0:
                            yield f"c04.u.checked_ct {n} {hx(a)} {sa} {hx(b)} {sb} {c}"
                    if full or rng.randrange(2) == 0:
                        yield f"c04.u.checked_forms {n} {hx(a)} {sa} {hx(b)} {sb}"
            for c in (0, 1):
                yield f"c04.u.wrapping_ct {n} {hx(a)} {hx(b)} {c}"
        alt = sum(0xa5a5a5a5a5a5a5a5 << (128 * i) for i in range((n + 1) // 2)) % m
        for v in [0, 1, m - 1, hi, alt, 0xabcdef0123456789 % m] + [value(rng, n) for _ in range(4 if quick else 40)]:
            yield f"c04.u.wrapping_fmt {n} {hx(v)}"
    blens = [1, 2, 3, 4, 5, 8, 16, 17] if quick else list(range(1, 41))
    for na in blens:
        for nb in sorted({na, 1, max(1, na - 1), na + 1}):
            k = min(na, nb)
            mk = 1 << (64 * k)
            vs = [(0, 0), (1, 1), (0, 1), (1, 0), (mk - 1, mk - 1), (1 << (64 * (k - 1)), 1 << (64 * (k - 1))), (1 << (64 * (na - 1)), 1),
                  ((1 << (64 * (na - 1))) + 1 if na > 1 else 1, 1)]
            vs += [pair(rng, k) for _ in range(3 if quick else 10)] + [(value(rng, na), value(rng, nb))]
            v = value(rng, k)
            vs.append((v, v))
            for a, b in vs:
                yield f"c04.b.wrapping_ct {na} {hx(a % (1 << (64 * na)))} {nb} {hx(b % (1 << (64 * nb)))}"
        ma = 1 << (64 * na)
        for v in [0, 1, ma - 1, value(rng, na)]:
            yield f"c04.b.wrapping_fmt {na} {hx(v)}"
