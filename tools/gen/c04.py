from .common import *

def gen(tier, rng):
    widths = FIXED_QUICK if tier == 'quick' else FIXED_THOROUGH
    reps = 60 if tier == 'quick' else 600
    # word primitives: every carry-in class
    for a in EDGE_WORDS:
        for b in EDGE_WORDS:
            for c in [0, 1, 2, WMAX, 1 << 63, (1 << 63) - 1]:
                yield f"c04.w.adc {hx(a)} {hx(b)} {hx(c)}"
                yield f"c04.w.sbb {hx(a)} {hx(b)} {hx(c)}"
    for _ in range(reps * 10):
        a, b, c, d = (limb_choice(rng) for _ in range(4))
        yield f"c04.w.adc {hx(a)} {hx(b)} {hx(c)}"
        yield f"c04.w.sbb {hx(a)} {hx(b)} {hx(c)}"
        yield f"c04.w.mac {hx(a)} {hx(b)} {hx(c)} {hx(d)}"
    for e in [0, 1, WMAX]:
        for f in [0, 1, WMAX]:
            for g in [0, 1, WMAX]:
                for h in [0, 1, WMAX]:
                    yield f"c04.w.mac {hx(e)} {hx(f)} {hx(g)} {hx(h)}"
    for n in widths:
        m = 1 << (64 * n)
        directed = [(m - 1, 1), (0, 1), (m - 1, m - 1), (0, 0), (m - 1, 0), (1, m - 1), (m // 2, m // 2), (m // 2 - 1, m // 2)]
        alt = sum(WMAX << (128 * i) for i in range((n + 1) // 2)) % m
        directed += [(alt, m - 1 - alt), (alt, (m - alt) % m), (alt, alt)]
        pairs = directed + [pair(rng, n) for _ in range(reps)]
        for a, b in pairs:
            for c in ([0, 1, 2, WMAX] if (a, b) in directed else [rng.choice([0, 1, 2, WMAX, limb_choice(rng)])]):
                yield f"c04.u.adc {n} {hx(a)} {hx(b)} {hx(c)}"
                yield f"c04.u.sbb {n} {hx(a)} {hx(b)} {hx(c)}"
            for op in ["wrapping_add", "wrapping_sub", "saturating_add", "saturating_sub", "checked_add", "checked_sub"]:
                yield f"c04.u.{op} {n} {hx(a)} {hx(b)}"
