"""
C18 — DER INTEGER / RLP codecs of Uint<N>: operation lines.

Families (DESIGN.md §6 C18, properties.jsonl quantifier):
  values   0, 1, 2^BITS-1, and at EVERY byte length k the top octet 0x01/0x7f/0x80/0xff with
           zero / all-ones / random tails  -> to_der, len, encode_to_slice, rlp.encode, rlp.list1
  strings  ALL byte strings of length <= 2 (U64), length 3 structured -> from_der, rlp.decode
  mutants  of valid encodings with magnitudes of every length around the capacity (BYTES-2 ..
           BYTES+4): wrong tags, every length-field form (short, 0x81..0x85, indefinite,
           non-minimal, +-1), truncation, trailing bytes, extra / missing 0x00 pad, 0xff pad,
           RLP header forms (single byte, short, long, long-for-short, zero-prefixed length, list)
The python encoders below only BUILD inputs; expected results come from the Lean model.
"""
from .common import *

DER_WIDTHS = [1, 2, 3, 4, 6, 7, 8, 16, 32, 128]     # U64 U128 U192 U256 U384 U448 U512 U1024 U2048 U8192
RLP_DEC_WIDTHS = [1, 2, 3, 4]                         # rlp::Decodable needs [u8; BYTES]: Default (BYTES <= 32)

RULE = ('operation lines from corpus + directed families (boundary values at every byte length, all byte '
        'strings of length <= 2, structured length-3 strings, structured mutations of valid DER / RLP encodings '
        'around the capacity of each width) + seeded random mutations; each line executed on the real crate '
        '(with the real der 0.8.0-rc.1 / rlp 0.6.1 crates in the loop) in two build profiles and on the Lean model; '
        'distinct = distinct lines; non-trivial = a decoder input of at least 3 octets or a value above 0xff')

ASSUMPTIONS = ['to_be_byte_array / from_be_byte_array are exact (property C16)',
               'der 0.8.0-rc.1 and rlp 0.6.1 are modelled by their wire format and exercised, not verified',
               'every decoder error kind is canonicalised to `err`',
               'inputs longer than Length::MAX (256 MiB) are modelled but not exercised']


def nontrivial(line):
    t = line.split()
    last = t[-1]
    if last.startswith('x'):
        return len(last) >= 7
    return any(len(x) > 2 for x in t[2:])


def bx(b):
    return 'x' + bytes(b).hex()


def mag(v):
    """minimal big-endian magnitude (empty for 0)"""
    return v.to_bytes((v.bit_length() + 7) // 8, 'big')


def der_len(n):
    if n < 0x80:
        return bytes([n])
    m = mag(n)
    return bytes([0x80 + len(m)]) + m


def der_content(v):
    m = mag(v) or b'\0'
    return (b'\0' + m) if m[0] >= 0x80 else m


def der(v):
    c = der_content(v)
    return b'\x02' + der_len(len(c)) + c


def rlp_item(p):
    if len(p) == 1 and p[0] < 0x80:
        return bytes(p)
    if len(p) <= 55:
        return bytes([0x80 + len(p)]) + bytes(p)
    m = mag(len(p))
    return bytes([0xb7 + len(m)]) + m + bytes(p)


def boundary_values(rng, nbytes, lengths):
    """values whose magnitude has exactly k octets, for k in lengths"""
    out = [0, 1, (1 << (8 * nbytes)) - 1]
    for k in lengths:
        if k < 1 or k > nbytes:
            continue
        for top in (0x01, 0x7f, 0x80, 0xff):
            base = top << (8 * (k - 1))
            out.append(base)
            if k > 1:
                out.append(base | ((1 << (8 * (k - 1))) - 1))
                out.append(base | rng.getrandbits(8 * (k - 1)))
    return out


def lengths_for(nbytes, tier):
    if tier != 'quick' or nbytes <= 64:
        return list(range(1, nbytes + 1))
    ks = set(range(1, 10)) | {31, 32, 33, 54, 55, 56, 57, 63, 64, 65, 126, 127, 128, 129, 130,
                              254, 255, 256, 257, 258, 511, 512, 513, 1022, 1023, 1024}
    ks |= {nbytes - 2, nbytes - 1, nbytes}
    return sorted(k for k in ks if 1 <= k <= nbytes)


TAGS = [0x00, 0x01, 0x03, 0x04, 0x0a, 0x1f, 0x22, 0x30, 0x42, 0x82, 0xa2, 0xc2, 0xff]


def der_mutants(rng, v):
    """structured mutations of the canonical DER encoding of v"""
    c = der_content(v)
    m = mag(v) or b'\0'
    L = len(c)
    good = der(v)
    yield good
    for t in TAGS:                                           # wrong tag
        yield bytes([t]) + good[1:]
    # every length-field form for the right content
    forms = [bytes([0x80]), bytes([0x81, L & 0xff]), bytes([0x82, (L >> 8) & 0xff, L & 0xff]),
             bytes([0x83, 0, (L >> 8) & 0xff, L & 0xff]), bytes([0x84, 0, 0, (L >> 8) & 0xff, L & 0xff]),
             bytes([0x85, 0, 0, 0, (L >> 8) & 0xff, L & 0xff]), bytes([0x84, 0x10, 0, 0, 0]), bytes([0xff])]
    for f in forms:
        yield b'\x02' + f + c
    for d in (-2, -1, 1, 2):                                 # length off by a little (truncated / overlong field)
        if L + d >= 0:
            yield b'\x02' + der_len(L + d) + c
    for cut in (1, 2, L):                                    # truncated content / header only / tag only
        if cut <= len(good):
            yield good[:len(good) - cut]
    yield good[:1]
    yield good[:2]
    for tail in (b'\0', b'\xff', b'\x02\x01\x00', bytes([rng.randrange(256)])):   # trailing bytes
        yield good + tail
    # pads: superfluous 0x00, 0xff (negative), missing pad (top bit set = negative), double pad
    for pad in (b'\0', b'\0\0', b'\xff', b'\xff\xff', b'\x80'):
        cc = pad + c
        yield b'\x02' + der_len(len(cc)) + cc
    if m[0] >= 0x80:
        yield b'\x02' + der_len(len(m)) + m                  # negative: no pad although the top bit is set
    else:
        cc = b'\0' + m                                       # superfluous pad on a positive
        yield b'\x02' + der_len(len(cc)) + cc
    yield b'\x02\x00'                                        # empty content
    yield b'\x02' + der_len(L) + bytes(L)                    # all-zero content of the same length


def rlp_mutants(rng, v, nbytes):
    p = mag(v)
    good = rlp_item(p)
    L = len(p)
    yield good
    for tail in (b'\0', b'\xff', b'\x80', bytes([rng.randrange(256)]) * 2):   # trailing bytes
        yield good + tail
    for cut in (1, 2):
        if cut < len(good):
            yield good[:len(good) - cut]
    # header forms for the same payload
    if L <= 55:
        yield bytes([0x80 + L]) + p                          # short form (non-canonical for a single byte < 0x80)
    for k in range(1, 9):                                    # long forms 0xb8..0xbf, minimal and zero-prefixed length
        yield bytes([0xb7 + k]) + L.to_bytes(k, 'big') + p
    yield bytes([0xb8, 0]) + p
    for d in (-1, 1):                                        # header length off by one
        if 0 <= L + d <= 55:
            yield bytes([0x80 + L + d]) + p
        if L + d > 0:
            yield bytes([0xb8, (L + d) & 0xff]) + p
    for pad in (b'\0', b'\0\0'):                             # leading zero octets in the payload
        yield rlp_item(pad + p)
    yield bytes([0xc0 + min(L, 55)]) + p                     # a list header
    yield bytes([0xf8, L & 0xff]) + p
    yield bytes([0xbf]) + b'\xff' * 8 + p                    # length near usize::MAX
    yield bytes([0xbf]) + b'\x7f' + b'\xff' * 7 + p


def short_strings(tier):
    yield b''
    for a in range(256):
        yield bytes([a])
    for a in range(256):
        for b in range(256):
            yield bytes([a, b])
    firsts = [0x00, 0x01, 0x02, 0x03, 0x04, 0x1f, 0x22, 0x30, 0x7f, 0x80, 0x81, 0x82, 0x83, 0xb7, 0xb8, 0xb9, 0xbf,
              0xc0, 0xc1, 0xc2, 0xf7, 0xf8, 0xff]
    seconds = [0x00, 0x01, 0x02, 0x03, 0x37, 0x38, 0x7f, 0x80, 0x81, 0x82, 0xff]
    thirds = range(256) if tier != 'quick' else [0, 1, 2, 0x37, 0x38, 0x7e, 0x7f, 0x80, 0x81, 0xfe, 0xff]
    for a in firsts:
        for b in seconds:
            for c in thirds:
                yield bytes([a, b, c])


# every row of the byte-size table of src/uint/array.rs (`impl_uint_array_encoding!`): the DER codec of a width goes through
# `ByteArray<Uint>` = that row; one wrong row (seed C18-m6: U3584 -> typenum::U484) breaks exactly one width
TABLE_WIDTHS = [1, 2, 3, 4, 6, 7, 8, 9, 12, 13, 14, 16, 24, 28, 32, 48, 56, 64, 96, 128]


def gen(tier, rng):
    quick = tier == 'quick'
    # ---- 0. table sweep: a few encodings and decodings at EVERY width that has the codec
    for n in TABLE_WIDTHS:
        nb = 8 * n
        for v in [0, 1, 0x7f, 0x80, (1 << (8 * nb - 1)) - 1, 1 << (8 * nb - 1), (1 << (8 * nb)) - 1, value(rng, n), value(rng, n)]:
            yield f"c18.der.to_der {n} {hx(v)}"
            yield f"c18.der.len {n} {hx(v)}"
            yield f"c18.der.from_der {n} {bx(der(v))}"
        yield f"c18.der.from_der {n} {bx(der(1 << (8 * nb)))}"        # one octet too long
    # ---- 1. encoders on boundary values of every width
    for n in DER_WIDTHS:
        nb = 8 * n
        vals = boundary_values(rng, nb, lengths_for(nb, tier))
        vals += [value(rng, n) for _ in range(20 if quick else 200)]
        for i, v in enumerate(vals):
            yield f"c18.der.to_der {n} {hx(v)}"
            yield f"c18.rlp.encode {n} {hx(v)}"
            if i % 3 == 0 or n <= 4:
                yield f"c18.der.len {n} {hx(v)}"
            if n in RLP_DEC_WIDTHS:
                yield f"c18.rlp.list1 {n} {hx(v)}"
                if i % 2 == 0:
                    # the same value in a three-element list next to zeros / small / large neighbours, zero in every position
                    z = [0, 0x7f, 0x80, (1 << (8 * nb)) - 1, v]
                    for trip in ((0, v, 5), (v, 0, 0), (0, 0, 0), (v, rng.choice(z), rng.choice(z))):
                        yield f"c18.rlp.list3 {n} {hx(trip[0])} {hx(trip[1])} {hx(trip[2])}"
            if i % 7 == 0:
                total = len(der(v))
                for cap in (0, total - 1, total, total + 3):
                    yield f"c18.der.encode_to_slice {n} {hx(v)} {cap}"
            # the canonical encodings must decode back (round trip through the real decoders)
            if n <= 8 or i % 5 == 0:
                yield f"c18.der.from_der {n} {bx(der(v))}"
            if n in RLP_DEC_WIDTHS:
                yield f"c18.rlp.decode {n} {bx(rlp_item(mag(v)))}"

    # ---- 2. all short strings, small width (and the other decode entry points on a sample)
    for i, s in enumerate(short_strings(tier)):
        yield f"c18.der.from_der 1 {bx(s)}"
        yield f"c18.rlp.decode 1 {bx(s)}"
        if len(s) <= 1 or i % 64 == 0 or len(s) == 3:
            yield f"c18.der.any_from_der 1 {bx(s)}"
            yield f"c18.rlp.decode 4 {bx(s)}"
            yield f"c18.der.from_der 2 {bx(s)}"

    # ---- 3. structured mutations of valid encodings, magnitudes around the capacity
    for n in DER_WIDTHS:
        nb = 8 * n
        klist = [1, 2, nb - 2, nb - 1, nb, nb + 1, nb + 2, nb + 3, nb + 4]
        if n >= 16:
            klist += [126, 127, 128, 129] + ([254, 255, 256, 257] if n >= 32 else [])
        reps = 1 if (quick and n >= 16) else 2
        for k in klist:
            for top in (0x01, 0x7f, 0x80, 0xff):
                for _ in range(reps):
                    v = (top << (8 * (k - 1))) | (rng.getrandbits(8 * (k - 1)) if k > 1 else 0)
                    for m in der_mutants(rng, v):
                        yield f"c18.der.from_der {n} {bx(m)}"
                    c = der_content(v)
                    # the other entry points: ANY (hand-made and parsed), UintRef
                    yield f"c18.der.any {n} x02 {bx(c)}"
                    yield f"c18.der.any {n} x02 {bx(mag(v))}"
                    yield f"c18.der.any {n} x02 {bx(bytes(1) + c)}"
                    yield f"c18.der.any {n} x{rng.choice(TAGS):02x} {bx(c)}"
                    yield f"c18.der.any_from_der {n} {bx(der(v))}"
                    yield f"c18.der.any_from_der {n} {bx(der(v) + bytes(1))}"
                    yield f"c18.der.any_from_der {n} {bx(bytes([4]) + der(v)[1:])}"
                    yield f"c18.der.uintref {n} {bx(mag(v))}"
                    yield f"c18.der.uintref {n} {bx(bytes(rng.randrange(1, 4)) + mag(v))}"
                    if n in RLP_DEC_WIDTHS:
                        for m in rlp_mutants(rng, v, nb):
                            yield f"c18.rlp.decode {n} {bx(m)}"
        yield f"c18.der.any {n} x02 x"
        yield f"c18.der.uintref {n} x"
        yield f"c18.der.uintref {n} {bx(bytes(nb + 3))}"
        yield f"c18.der.uintref {n} {bx(bytes(nb))}"
    # RLP: payloads around the short/long header switch (55 / 56 octets) — oversize for every decode width,
    # must be an error, never a panic or a truncated value
    for n in RLP_DEC_WIDTHS:
        for k in (33, 54, 55, 56, 57, 255, 256):
            p = bytes([rng.randrange(1, 256)]) + bytes(rng.getrandbits(8) for _ in range(k - 1))
            yield f"c18.rlp.decode {n} {bx(rlp_item(p))}"
            yield f"c18.rlp.decode {n} {bx(rlp_item(p)[:-1])}"

    # ---- 4. seeded random: random values, random byte-level edits of their encodings
    def edit(b):
        b = bytearray(b)
        k = rng.randrange(5)
        if k == 0 and b:
            b[rng.randrange(len(b))] ^= 1 << rng.randrange(8)
        elif k == 1:
            b.insert(rng.randrange(len(b) + 1), rng.choice([0, 0xff, 0x80, 0x7f, rng.randrange(256)]))
        elif k == 2 and b:
            del b[rng.randrange(len(b))]
        elif k == 3 and b:
            b[rng.randrange(min(3, len(b)))] = rng.choice([0, 1, 2, 0x80, 0x81, 0x82, 0xb7, 0xb8, 0xc0, 0xff])
        else:
            b += bytes([rng.randrange(256)])
        return bytes(b)

    reps = 150 if quick else 3000
    for n in DER_WIDTHS:
        nb = 8 * n
        for _ in range(reps if n <= 8 else reps // 5):
            k = rng.choice([1, 2, rng.randrange(1, nb + 5), nb - 1, nb, nb + 1])
            v = rng.getrandbits(8 * k) if rng.randrange(4) else value(rng, n)
            e = der(v)
            for _ in range(rng.randrange(1, 3)):
                e = edit(e)
            yield f"c18.der.from_der {n} {bx(e)}"
            if rng.randrange(4) == 0:
                yield f"c18.der.any_from_der {n} {bx(e)}"
            if n in RLP_DEC_WIDTHS:
                e = rlp_item(mag(v))
                for _ in range(rng.randrange(1, 3)):
                    e = edit(e)
                yield f"c18.rlp.decode {n} {bx(e)}"
