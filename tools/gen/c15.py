"""C15 — all routes to the same operation agree: operation lines.

One line = one route family `c15.<family> n args…`; the harness runs every route of the family (inherent,
trait, operators by value / reference / assigning, Wrapping / Checked, ct and _vartime, BoxedUint of n limbs,
precomputed vs one-shot, const item vs run time) on the same input.

Inputs are the directed families of the corresponding exactness properties (imported from their generators):
  C04 carry chains (a + b = 2^BITS, 2^BITS - 1, +-1 apart, alternating limbs), C05 shift amounts / bit indices
  (every limb boundary +-2, ladder steps 2^i +-1, BITS +-2, u32::MAX) and values (runs of ones at limb
  boundaries), C06 pairs (equal, lowest / highest limb / sign bit differ), C03 products at the edge of
  fitting, C07 moduli x operand classes and special moduli 2^BITS - c, C20 t^2 -1/0/+1 and every bit length,
  C02 divisors by limb count / bit length and dividends n = q*d + r, Knuth add-back constructions.
Widths: 1, 2, 3, 4, 6, 8, 16 (quick) + 32 (thorough; quick runs 32 for the multiplication / division
families where the code switches algorithm).
"""
from .common import *
from . import c02 as g02, c03 as g03, c05 as g05, c06 as g06, c07 as g07, c10 as g10, c19 as g19, c20 as g20

RULE = ('one line = one route family (2..33 routes of the same operation, listed in harness/src/ops/c15.rs) executed on '
        'one input from the directed families of C02-C07, C20 (see tools/gen/c15.py) + seeded structured random; every '
        'route result is compared with the model function of that route (L1) and with the specification value (L0: '
        'all routes equal, boxed results with the documented precision) in two build profiles; distinct = distinct '
        'lines; non-trivial = some operand token longer than 2 hex digits')
ASSUMPTIONS = ['fixed widths 1,2,3,4,6,8,16,32 limbs and the BoxedUint of the same precision are executed; the route theorems cover all limb counts',
               'modular families are generated inside the documented preconditions (a, b < p; 1 <= c < 2^64; d != 0)',
               'const-context routes are a fixed table of U256 inputs compiled into the harness']

U32MAX = (1 << 32) - 1

WIDTHS_Q = [1, 2, 3, 4, 6, 8, 16]
WIDTHS_T = [1, 2, 3, 4, 6, 8, 16, 32]
MULMOD_W = [1, 2, 3, 4, 8, 16]
C10_W = [1, 2, 3, 4, 6, 8, 16]

# the compile-time table of the harness (harness/src/ops/c15.rs CA / CB_ / CS)
CA = [0, 1, (1 << 256) - 1, 1 << 255,
      0xffffffff00000001000000000000000000000000ffffffffffffffffffffffff,
      0x0123456789abcdeffedcba9876543210f0e1d2c3b4a5968778695a4b3c2d1e0f]
CBT = [1, (1 << 256) - 1, (1 << 256) - 1, (1 << 255) + 1,
       0x00000000ffffffffffffffffffffffffffffffffffffffff0000000000000003,
       0x00000000000000000000000000000000ffffffffffffffffffffffffffffff61]
CS = [0, 1, 63, 64, 129, 255]


def nontrivial(line):
    return any(len(t) > 2 for t in line.split()[2:])


def uniq(xs):
    return list(dict.fromkeys(xs))


def const_lines():
    for k in range(6):
        a, b, s = hx(CA[k]), hx(CBT[k]), CS[k]
        for f in ('add', 'sub', 'mul', 'div', 'cmp'):
            yield f"c15.const.{f} {k} {a} {b}"
        for f in ('neg', 'bits', 'tz', 'sqrt'):
            yield f"c15.const.{f} {k} {a}"
        yield f"c15.const.shl {k} {a} {s}"
        yield f"c15.const.shr {k} {a} {s}"
    lit = "0123456789abcdeffedcba9876543210f0e1d2c3b4a5968778695a4b3c2d1e0f"
    yield "c15.const.hex x" + lit.encode().hex()
    yield "c15.const.u128 123456789abcdeffedcba9876543210"
    yield "c15.const.words 8000000000000000000000000000000300000000000000020000000000000001"


def addsub_pairs(rng, n, reps):
    m = 1 << (64 * n)
    alt = sum(WMAX << (128 * i) for i in range((n + 1) // 2)) % m
    ps = [(m - 1, 1), (0, 1), (m - 1, m - 1), (0, 0), (m - 1, 0), (1, m - 1), (m // 2, m // 2), (m // 2 - 1, m // 2),
          (alt, m - 1 - alt), (alt, (m - alt) % m), (alt, alt), (1, 2), (2, 1)]
    ps += [pair(rng, n) for _ in range(reps)]
    return ps


def gen(tier, rng):
    quick = tier == 'quick'
    widths = WIDTHS_Q if quick else WIDTHS_T
    reps = 10 if quick else 80

    yield from const_lines()

    # ---------------------------------------------------------------- Limb
    for a in EDGE_WORDS:
        for b in EDGE_WORDS:
            for f in ('add', 'sub', 'cadd', 'csub', 'mul', 'cmul', 'cmp'):
                yield f"c15.l.{f} {hx(a)} {hx(b)}"
        yield f"c15.l.bits {hx(a)}"
    for _ in range(reps * 6):
        a, b = limb_choice(rng), limb_choice(rng)
        for f in ('add', 'sub', 'cadd', 'csub', 'mul', 'cmul', 'cmp'):
            yield f"c15.l.{f} {hx(a)} {hx(b)}"
        yield f"c15.l.bits {hx(a)}"

    for n in widths:
        bits = 64 * n
        m = 1 << bits
        # ------------------------------------------------------------ C04 add / sub / neg, C05 bitwise
        for a, b in addsub_pairs(rng, n, reps):
            for f in ('add', 'sub', 'cadd', 'csub'):
                yield f"c15.{f} {n} {hx(a)} {hx(b)}"
        for a, b in addsub_pairs(rng, n, reps // 2)[8:]:
            for f in ('and', 'or', 'xor'):
                yield f"c15.{f} {n} {hx(a)} {hx(b)}"
        for a in uniq([0, 1, m - 1, m // 2, m // 2 - 1, m - 2] + [value(rng, n) for _ in range(reps)]):
            yield f"c15.neg {n} {hx(a)}"
            yield f"c15.not {n} {hx(a)}"
            yield f"c15.is_zero {n} {hx(a)}"
            yield f"c15.is_odd {n} {hx(a)}"
        # ------------------------------------------------------------ C05 shifts and bit queries
        full = bits <= (128 if quick else 256)
        nsamp = 24 if quick else 96
        vals = g05.special_values(n)
        if len(vals) > (14 if quick else 28):
            k0 = 8 if quick else 14
            vals = vals[:k0] + rng.sample(vals[k0:], k0 - 2)
        vals += [value(rng, n) for _ in range(3 if quick else 8)]
        shifts = g05.shifts_for(bits, full)
        shifts = [s for s in shifts if s <= bits + 2 or s >= (1 << 31)]
        for x in vals:
            ss = shifts if full else uniq(shifts[:3] + rng.sample(shifts, min(nsamp, len(shifts))) + shifts[-6:])
            for s in ss:
                fam = ('shl', 'shr', 'oshl', 'oshr', 'wshl', 'wshr')
                for f in (fam if bits <= 64 or (not quick and bits <= 128) else rng.sample(fam, 3)):
                    yield f"c15.{f} {n} {hx(x)} {s}"
        qvals = uniq(g05.special_values(n) + [value(rng, n) for _ in range(reps)])
        if len(qvals) > (40 if quick else 120):
            qvals = qvals[:10] + rng.sample(qvals[10:], 30 if quick else 110)
        sb = g05.single_bits(n)
        if len(sb) > (40 if quick else 256):
            sb = rng.sample(sb, 40 if quick else 256)
        for x in qvals + sb:
            for f in ('bits', 'lz', 'tz', 'to'):
                yield f"c15.{f} {n} {hx(x)}"
        idx = g05.indices_for(bits, full)
        for x in [0, m - 1] + [value(rng, n) for _ in range(2 if quick else 6)]:
            ii = idx if full else uniq(idx[:2] + rng.sample(idx, min(30 if quick else 120, len(idx))) + idx[-4:])
            for i in ii:
                yield f"c15.bit {n} {hx(x)} {i}"
                yield f"c15.set_bit {n} {hx(x)} {i} {rng.randrange(2)}"
        # ------------------------------------------------------------ C06
        for a, b in g06.pairs_for(rng, n, 3 if quick else 30):
            for f in ('cmp', 'eq', 'lt'):
                yield f"c15.{f} {n} {hx(a)} {hx(b)}"
            yield f"c15.select {n} {hx(a)} {hx(b)} {rng.randrange(2)}"
        # ------------------------------------------------------------ C07 general modulus
        for p in g07.moduli(rng, n, 1 if quick else 6):
            pairs = g07.operand_pairs(rng, p, n, 2 if quick else 10)
            if quick and len(pairs) > 14:
                pairs = pairs[:6] + rng.sample(pairs[6:], 8)
            ph = hx(p)
            for a, b in pairs:
                yield f"c15.add_mod {n} {hx(a)} {hx(b)} {ph}"
                yield f"c15.sub_mod {n} {hx(a)} {hx(b)} {ph}"
                if n in MULMOD_W and p & 1 and (not quick or rng.randrange(2) == 0):
                    yield f"c15.mul_mod {n} {hx(a)} {hx(b)} {ph}"
            for a in uniq([a for a, _ in pairs])[: (5 if quick else 20)]:
                yield f"c15.neg_mod {n} {hx(a)} {ph}"
                yield f"c15.double_mod {n} {hx(a)} {ph}"
        # special moduli p = 2^BITS - c
        for c in g07.special_cs(rng, n, 1 if quick else 6):
            p = m - c
            if p < 1:
                continue
            ops = [(0, 0), (p - 1, p - 1), (p - 1, 1), (1, p - 1), (p // 2, p // 2 + 1)]
            for _ in range(3 if quick else 16):
                ops.append((g07.near_p(rng, p, n), g07.near_p(rng, p, n)))
                ops.append((rng.randrange(p), rng.randrange(p)))
                ops.append((g07.near_p(rng, p, n), value(rng, n) % p))
            for a, b in ops:
                a %= p; b %= p
                yield f"c15.mul_mod_special {n} {hx(a)} {hx(b)} {hx(c)}"
                yield f"c15.sub_mod_special {n} {hx(a)} {hx(b)} {hx(c)}"
                yield f"c15.neg_mod_special {n} {hx(a)} {hx(c)}"
        # ------------------------------------------------------------ C20
        sq = uniq(v % m for v in g20.directed(n, rng, tier, bits <= 128 and not quick))
        if quick and len(sq) > 60:
            sq = sq[:20] + rng.sample(sq[20:], 40)
        for v in sq:
            yield f"c15.sqrt {n} {hx(v)}"
            yield f"c15.csqrt {n} {hx(v)}"

    # ---------------------------------------------------------------- C03 (incl. the widths where the code switches algorithm)
    for n in (widths if not quick else WIDTHS_Q + [32]):
        m = 1 << (64 * n)
        ps = [(a, b) for a in g03.edge_values(n)[:6] for b in g03.edge_values(n)[:4]]
        ps += g03.boundary_pairs(rng, n, n)
        ps += [pair(rng, n) for _ in range(4 if quick else 40)]
        ps += [(value(rng, n), value(rng, n)) for _ in range(4 if quick else 40)]
        if quick and n >= 16:
            ps = ps[:8] + rng.sample(ps[8:], 14)
        for a, b in ps:
            a %= m; b %= m
            for f in ('wmul', 'cmul', 'mulwide'):
                yield f"c15.{f} {n} {hx(a)} {hx(b)}"
        for a in uniq(g03.edge_values(n) + [value(rng, n) for _ in range(4 if quick else 40)]
                      + [rng.getrandbits(32 * n + 1), (1 << (32 * n)) - 1, 1 << (32 * n)]):
            a %= m
            yield f"c15.square {n} {hx(a)}"
            yield f"c15.wsquare {n} {hx(a)}"

    # ---------------------------------------------------------------- C02
    for n in (widths if not quick else WIDTHS_Q + [32]):
        m = 1 << (64 * n)
        ds = g02.divisors(rng, n, 1 if quick else 4)
        if quick and len(ds) > 16:
            ds = ds[:8] + rng.sample(ds[8:], 8)
        for d in uniq(ds):
            ns = g02.dividends(rng, n, d, 1 if quick else 4)
            if quick and len(ns) > 8:
                ns = ns[:4] + rng.sample(ns[4:], 4)
            for x in uniq(ns):
                yield f"c15.div {n} {hx(x)} {hx(d)}"
        for x, d in g02.addback_cases(rng, n, 1 if quick else 3)[: (24 if quick else 400)]:
            yield f"c15.div {n} {hx(x)} {hx(d)}"
        for l in uniq([1, 2, 3, WMAX, WMAX - 1, 1 << 63, (1 << 63) + 1, (1 << 63) - 1, 1 << 32]
                      + [limb_choice(rng) or 1 for _ in range(4 if quick else 30)]):
            for x in uniq([0, 1, m - 1, l, l - 1, (l << (64 * (n - 1))) % m, ((l << (64 * (n - 1))) - 1) % m]
                          + [value(rng, n) for _ in range(3 if quick else 12)]):
                yield f"c15.divlimb {n} {hx(x)} {hx(l)}"


    # ---------------------------------------------------------------- C13 / C14: Int<N> routes
    for n in widths:
        bits = 64 * n
        m = 1 << bits
        MIN, MAX = m >> 1, (m >> 1) - 1
        edge = [MIN, MIN + 1, m - 1, 0, 1, MAX, MAX - 1, m - 2, 2]
        ps = [(a, b) for a in edge for b in edge[: (6 if quick else 9)]]
        ps += [pair(rng, n) for _ in range(reps)]
        ps += [(value(rng, n), value(rng, n)) for _ in range(reps)]
        # products at the edge of fitting: |a|*|b| around 2^(BITS-1)
        for _ in range(reps):
            i = rng.randrange(1, bits - 1)
            a, b = 1 << i, 1 << (bits - 1 - i)
            for sa in (a, (m - a) % m):
                for sb in (b, (m - b) % m, b - 1, (m - b + 1) % m):
                    ps.append((sa, sb % m))
        if quick and len(ps) > 90:
            ps = ps[:50] + rng.sample(ps[50:], 40)
        for a, b in ps:
            a %= m; b %= m
            fams = ('add', 'sub', 'cadd', 'csub', 'cmul', 'cmp')
            for f in (fams if not quick or n <= 2 else rng.sample(fams, 3)):
                yield f"c15.i.{f} {n} {hx(a)} {hx(b)}"
            if b != 0:
                yield f"c15.i.div {n} {hx(a)} {hx(b)}"
        for a in uniq(edge + [value(rng, n) for _ in range(reps)]):
            a %= m
            yield f"c15.i.neg {n} {hx(a)}"
            for s in uniq([0, 1, 63, 64, 65, bits - 1, bits, bits + 1, U32MAX] + [rng.randrange(bits) for _ in range(3)]):
                yield f"c15.i.shr {n} {hx(a)} {s}"
                yield f"c15.i.wshr {n} {hx(a)} {s}"

    # ---------------------------------------------------------------- C16 / C17 / C19 (per alias: 1,2,3,4,6,8,16 limbs)
    for n in C10_W:
        bits = 64 * n
        m = 1 << bits
        vals = uniq(g05.special_values(n)[:10] + [value(rng, n) for _ in range(reps)] + [rng.getrandbits(bits) for _ in range(3)])
        for v in vals:
            yield f"c15.enc {n} {hx(v)}"
            yield "c15.dec %d x%s" % (n, v.to_bytes(8 * n, 'big').hex())
        rvals = uniq([0, 1, m - 1, m >> 1] + [value(rng, n) for _ in range(2 if quick else 10)])
        for r in range(2, 37):
            for v in (rvals if not quick or n <= 2 else rng.sample(rvals, 2)):
                yield f"c15.radix {n} {hx(v)} {r}"
            for j in ([1, 2, 13] if quick else range(1, 40)):
                for v in (r ** j, r ** j - 1):
                    if 0 <= v < m and (not quick or rng.randrange(3) == 0):
                        yield f"c15.radix {n} {hx(v)} {r}"
    for n in [1, 2, 3, 4, 8]:
        ms = g19.moduli(rng, n, 'quick')
        for (mod, nl) in (rng.sample(ms, min(len(ms), 12)) if quick else ms):
            for st in g19.mod_streams(rng, mod, nl, 'quick'):
                yield f"c15.rand {n} {hx(mod)} {g19.xb(st)}"

    # ---------------------------------------------------------------- C10: inversion mod 2^k, odd modulus (precomputed vs one-shot), gcd
    lines = []
    for n in C10_W:
        w = 64 * n
        r = g10.reps_for(n, 16 if quick else 120)
        ks = sorted(set([0, 1, 2, 63, 64, 65, w - 1, w] + [rng.randrange(w + 1) for _ in range(r)]))
        for k in ks:
            if k > w:
                continue
            for a in (1, 3, (1 << w) - 1, 2, 0, rng.getrandbits(w) | 1, value(rng, n)):
                lines.append(f"c15.inv_mod2k {n} {hx(a % (1 << w))} {k}")
        for _ in range(r * 2):
            m, fac = g10.odd_modulus(rng, w)
            for _ in range(2):
                a = g10.operand(rng, w, m, fac)
                lines.append(f"c15.inv_odd_mod {n} {hx(a)} {hx(m)}")
        for _ in range(r * 3):
            a, b = g10.gcd_pair(rng, w)
            lines.append(f"c15.gcd {n} {hx(a)} {hx(b)}")
    rng.shuffle(lines)          # the safegcd model costs ~ n^2 per line: balance the runner's chunks
    yield from lines

    # ---------------------------------------------------------------- BoxedUint operands of two different precisions
    blens = [1, 2, 3, 4, 5, 8, 16, 17] if quick else list(range(1, 21)) + [33, 40]
    for na in blens:
        others = sorted({1, 2, max(1, na - 1), na + 1, na}) if quick else sorted(set(blens[::3] + [na, na + 1, max(1, na - 1)]))
        for nb in others:
            k = min(na, nb)
            ma, mb = 1 << (64 * na), 1 << (64 * nb)
            ps = [(ma - 1, 1), (ma - 1, mb - 1), (0, 1), (0, 0), (1, mb - 1), (ma - 1, 0), (0, mb - 1), (ma // 2, mb // 2),
                  ((1 << (64 * k)) - 1, 1), (5, 1 << (64 * k) if k < nb else 5), (1 << (64 * k) if k < na else 7, 9)]
            for _ in range(3 if quick else 10):
                ps.append((value(rng, na), value(rng, nb)))
                ps.append(pair(rng, k))
            for a, b in ps:
                a %= ma; b %= mb
                fams = ('add', 'sub', 'and', 'or', 'xor', 'cmp', 'mul')
                for f in (fams if not quick else rng.sample(fams, 4)):
                    yield f"c15.bm.{f} {na} {hx(a)} {nb} {hx(b)}"
    glines = []
    for na in ([1, 2, 3, 4, 8] if quick else [1, 2, 3, 4, 5, 8, 12, 16]):
        for nb in ([1, 2, 3, 4, 8] if quick else [1, 2, 3, 4, 5, 8, 12, 16]):
            w = 64 * min(na, nb)
            for _ in range(g10.reps_for(max(na, nb), 6 if quick else 40)):
                a, b = g10.gcd_pair(rng, w)
                if rng.randrange(2):
                    a = (a * (rng.getrandbits(64 * (na - min(na, nb))) | 1)) % (1 << (64 * na)) if na > nb else a
                    b = (b * (rng.getrandbits(64 * (nb - min(na, nb))) | 1)) % (1 << (64 * nb)) if nb > na else b
                glines.append(f"c15.bm.gcd {na} {hx(a)} {nb} {hx(b)}")
    rng.shuffle(glines)
    yield from glines
