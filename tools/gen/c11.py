"""
C11 op lines (`c11.*`): probes that no other property's generator emits.  tools/check_c11.py runs these
AND the lines of every other property's generator; only the panic class is compared (plus exact values
where the model prints one: `c11.u.div_rem_limb`, `c11.u.mul_mod_special`).
"""
from .common import value, pair, limb_choice, hx, B, WMAX, EDGE_WORDS

RULE = ('c11.* lines: out-of-domain probes of option/result-returning APIs (zero/even moduli, k > BITS, shifts up to '
        'u32::MAX, wrong-length hex, precision 0), every public method on zero-limb BoxedUint values from three '
        'constructors, Int MIN/-1 forms, and value-carrying twins (div_rem_limb, mul_mod_special near the carry = MAX '
        'boundary); plus all lines of the other properties\' generators')
ASSUMPTIONS = ['c11.* probes stay at limb counts 1, 2, 3, 4, 6, 8']

B0_METHODS = """nlimbs bits_precision bits bits_vartime leading_zeros trailing_zeros trailing_zeros_vartime trailing_ones
trailing_ones_vartime bit bit_vartime is_zero is_odd is_one to_odd nz_new eq_zero ct_eq_self cmp_one to_string_radix_10
to_string_radix_16 display lower_hex to_be_bytes to_le_bytes to_words clone widen shorten sqrt sqrt_vartime checked_sqrt
overflowing_shl overflowing_shr wrapping_shl wrapping_shr shl_vartime shr_vartime wrapping_shl_vartime
wrapping_shr_vartime adc sbb wrapping_add wrapping_sub wrapping_neg checked_add checked_sub add_one one_add mul mul_one
wrapping_mul checked_mul square bitand bitor bitxor not checked_div_self one_checked_div gcd_self gcd_one inv_mod2k
inv_mod2k_vartime""".split()
B0_CTORS = ['slice', 'parse0', 'parse000', 'hex0']
CTOR0 = ['zero_with_precision', 'one_with_precision', 'max', 'from_be_slice', 'from_le_slice', 'from_words', 'from_vec',
         'from_box', 'radix_prec0', 'widen0', 'shorten0']
U32MAX = (1 << 32) - 1
WIDTHS = [1, 2, 3, 4, 6, 8]


def xs(s):
    return 'x' + s.encode().hex()


def special_near_carry(rng, n, c):
    """operands of mul_mod_special whose reduction carry is at / near Word::MAX (the a301fd3 boundary)"""
    K = B ** n
    p = K - c
    a = p - 1 - rng.randrange(3)
    # want (a*b) // K * c + ... to carry B-1: take b close to K * (B-1) / (a*c/K + ...) — search a few candidates
    best = []
    for _ in range(40):
        b = rng.randrange(p - (1 << (64 * (n - 1) + 8)), p)
        prod = a * b
        t1 = prod % K + (prod // K) * c
        best.append((abs(t1 // K - (B - 1)), b))
    best.sort()
    return a, best[0][1]


def gen(tier, rng):
    thorough = tier == 'thorough'
    # ---- zero-limb boxed values through every method
    for c in B0_CTORS:
        for m in B0_METHODS:
            yield f'c11.b0 {c} {m}'
    for c in ['slice', 'parse0', 'hex0']:
        yield f'c11.b.odd_new0 {c}'
    for c in CTOR0:
        yield f'c11.b.ctor0 {c}'
    # ---- inversion, out of domain
    for n in WIDTHS:
        bits = 64 * n
        mods = [0, 1, 2, 4, 6, 1 << (bits - 1), (1 << bits) - 1, (1 << bits) - 2, 1 << 63]
        mods += [value(rng, n) for _ in range(20 if thorough else 6)]
        for m in mods:
            m %= 1 << bits
            for a in [0, 1, 2, 3, (1 << bits) - 1, value(rng, n)]:
                yield f'c11.u.inv_mod {n} {hx(a % (1 << bits))} {hx(m)}'
        for k in [0, 1, 63, 64, 65, bits - 1, bits, bits + 1, bits + 64, 1000, 1 << 31, U32MAX]:
            for a in [0, 1, 2, 3, (1 << bits) - 1, value(rng, n)]:
                yield f'c11.u.inv_mod2k {n} {hx(a)} {k}'
                # variable time in k by contract: keep k small enough for the watchdog (k rounds of a Uint shift)
                if k <= bits + 64 or (k <= 1000 and a in (0, 1, 3)):
                    yield f'c11.u.inv_mod2k_vartime {n} {hx(a)} {k}'
            if k <= 4096:
                yield f'c11.b.inv_mod2k {n} 3 {k}'
                yield f'c11.b.inv_mod2k_vartime {n} 3 {k}'
                yield f'c11.b.inv_mod2k_vartime {n} {hx(value(rng, n))} {k}'
    for na in [1, 2, 3, 4]:
        for nm in [1, 2, 3, 4]:
            for m in [0, 1, 2, 7, 8, (1 << (64 * nm)) - 1, value(rng, nm)]:
                for a in [0, 1, 3, value(rng, na)]:
                    yield f'c11.b.inv_mod {na} {hx(a)} {nm} {hx(m)}'
    # ---- BoxedUint::from_be_hex: any text, any precision
    texts = ['', '0', '00', '0' * 15, '0' * 16, '0' * 15 + '1', '0' * 17, '0' * 32, 'f' * 32, 'zz', '0' * 15 + 'g',
             'F' * 16, ' ' * 16, '0' * 31, '0' * 33, '+' + '0' * 15]
    for t in texts:
        for prec in [0, 1, 4, 63, 64, 65, 127, 128, 129, 192, 256]:
            yield f'c11.b.from_be_hex {xs(t)} {prec}'
    for _ in range(200 if thorough else 40):
        ln = rng.choice([0, 1, 2, 8, 15, 16, 17, 31, 32, 33, 48, 64])
        t = ''.join(rng.choice('0123456789abcdefABCDEFgz_ +') for _ in range(ln))
        yield f'c11.b.from_be_hex {xs(t)} {rng.choice([0, 32, 64, 96, 128, 192, 256])}'
    # ---- random_bits argument checks
    for bl, pr in [(0, 0), (1, 0), (0, 1), (1, 1), (64, 64), (65, 64), (U32MAX, 64), (U32MAX, 0), (63, 63),
                   (64, 63), (128, 65), (129, 128), (0, 4096), (4096, 4096), (4097, 4096), (U32MAX, U32MAX - 1)]:
        yield f'c11.b.try_random_bits {bl} {pr}'
    # ---- total shift forms with any u32 shift; Int extremes
    for n in WIDTHS:
        bits = 64 * n
        shifts = [0, 1, 63, 64, 65, bits - 1, bits, bits + 1, 2 * bits, 1 << 16, 1 << 31, U32MAX - 1, U32MAX]
        for s in shifts:
            for a in [0, 1, (1 << bits) - 1, 1 << (bits - 1), value(rng, n)]:
                yield f'c11.u.shift_all {n} {hx(a)} {s}'
        mn, m1, mx = 1 << (bits - 1), (1 << bits) - 1, (1 << (bits - 1)) - 1
        ext = [mn, m1, mx, 0, 1, mn + 1, 2, m1 - 1]
        for x in ext:
            for y in ext:
                yield f'c11.i.extreme {n} {hx(x)} {hx(y)}'
        for _ in range(40 if thorough else 8):
            yield f'c11.i.extreme {n} {hx(value(rng, n))} {hx(value(rng, n))}'
    # ---- twins with values
    for n in WIDTHS:
        bits = 64 * n
        ds = [1, 2, 3, WMAX, WMAX - 1, 1 << 63, (1 << 63) + 1, (1 << 63) - 1, 1 << 32, 10 ** 19, 0xffffffff00000001]
        ds += [limb_choice(rng) or 1 for _ in range(60 if thorough else 12)]
        for d in ds:
            for a in [0, 1, (1 << bits) - 1, d, d - 1, (d << (bits - 64)) % (1 << bits), value(rng, n), value(rng, n)]:
                yield f'c11.u.div_rem_limb {n} {hx(a % (1 << bits))} {hx(d)}'
        for _ in range(2000 if thorough else 150):
            d = rng.getrandbits(rng.randrange(1, 65)) or 1
            yield f'c11.u.div_rem_limb {n} {hx(value(rng, n))} {hx(d)}'
        if n >= 2:
            for c in [1, 2, WMAX, WMAX - 1, 1 << 63, 0x1000003d1, limb_choice(rng) or 1]:
                K = B ** n
                p = K - c
                for a, b in [(p - 1, p - 1), (0, 0), (1, p - 1), (p - 1, 1), pair(rng, n)]:
                    yield f'c11.u.mul_mod_special {n} {hx(a % p)} {hx(b % p)} {hx(c)}'
                for _ in range(60 if thorough else 6):
                    a, b = special_near_carry(rng, n, c)
                    yield f'c11.u.mul_mod_special {n} {hx(a)} {hx(b)} {hx(c)}'


def nontrivial(line):
    return True
