"""
C07 generator — modular add/sub/neg/double/mul/halve.

Only lines INSIDE the documented preconditions are emitted (a, b < p; p odd for the Montgomery
routes and for halving; 1 <= c < 2^64 for the special-modulus forms), because the driver prints the
canonical residue as L0 on every line.

Directed families (property quantifier text + DESIGN §6 C07):
  moduli   1, 2, 3, 2^BITS-1, 2^BITS-2, 2^(BITS-1), 2^(BITS-1)+-1, zero high limbs (short p),
           2^BITS - c for c in {1, 2, 2^32, MAX-1, MAX}, random, structured random
  operands 0, 1, 2, p-1, p-2, p/2, (p+1)/2, a = b, a + b = p, a + b = p +- 1,
           sums that overflow 2^BITS, random, structured random reduced mod p
  special  c in {1, 2, 3, 2^32, 2^63, MAX-1, MAX, random}; operands near p = 2^BITS - c
           (the `carry + 1` overflow of mul_mod_special needs a, b within 2^(BITS-64) of p, c = MAX)
"""
from .common import *

FIXED = [1, 2, 3, 4, 6, 8, 12, 16]
BOXED = list(range(1, 21))

RULE = ('operation lines from corpus + directed families (moduli x operand classes, see tools/gen/c07.py) '
        '+ seeded structured random; each line executed on the real crate in two build profiles and on the '
        'Lean model (L1 limb level ;; L0 canonical residue); distinct = distinct lines, non-trivial = some '
        'operand token longer than 2 hex digits')
ASSUMPTIONS = ['only lines inside the documented preconditions are generated (a,b < p; p odd for mul_mod / div_by_2; 1 <= c < 2^64)',
               'boxed operands always have the precision of the modulus (the crate debug_asserts it)',
               '`c07.hook.*` lines call crate-internal functions through crypto_bigint::verif_hooks; sub_mod_with_carry and div_by_2 are also run outside their documented precondition (then only the limb model L1 is compared)']


def moduli(rng, n, nrand):
    K = 1 << (64 * n)
    ms = [1, 2, 3, K - 1, K - 2, K >> 1, (K >> 1) + 1, (K >> 1) - 1]
    ms += [K - c for c in (1, 2, 1 << 32, WMAX - 1, WMAX)]
    if n > 1:
        for m in sorted({1, n // 2, n - 1}):
            ms.append((1 << (64 * m)) - 1)            # zero high limbs, all-ones low part
            ms.append(value(rng, m) | 1)              # zero high limbs, odd
            ms.append(rng.getrandbits(64 * m) + 2)
    # bit lengths around HALF the width and around every limb boundary (a `bits(p)`-based shortcut or bound that is off
    # by one shows only there: seed C07-m4, `2*(bits-1) <= BITS` instead of `2*bits <= BITS`)
    half = 32 * n
    for bl in (half, half + 1):
        if 2 <= bl <= 64 * n:
            ms.append((1 << (bl - 1)) + 1)
            ms.append((1 << bl) - 1)
    for _ in range(nrand):
        ms.append(rng.getrandbits(64 * n) | (1 << (64 * n - 1)))    # full length
        ms.append(value(rng, n))
        ms.append(rng.getrandbits(rng.randrange(1, 64 * n + 1)))
    out, seen = [], set()
    for p in ms:
        if 1 <= p < K and p not in seen:
            seen.add(p)
            out.append(p)
    return out


def operand_pairs(rng, p, n, nrand):
    K = 1 << (64 * n)
    base = [x for x in (0, 1, 2, p - 1, p - 2, p // 2, (p + 1) // 2) if 0 <= x < p]
    base = list(dict.fromkeys(base))
    pairs = [(a, b) for a in base for b in base]
    for a in base + [rng.randrange(p) for _ in range(2)]:
        for d in (0, 1, -1):                           # a + b = p, p + 1, p - 1
            b = p - a + d
            if 0 <= b < p:
                pairs.append((a, b))
    if 2 * (p - 1) >= K:                               # sums that overflow 2^BITS
        lo = K - (p - 1)
        for _ in range(3):
            a = rng.randrange(lo, p)
            pairs.append((a, K - a))                   # a + b = 2^BITS exactly
            if K - a + 1 < p:
                pairs.append((a, K - a + 1))
            pairs.append((a, rng.randrange(K - a, p)))
        pairs.append((p - 1, p - 1))
    for _ in range(nrand):
        a = rng.randrange(p)
        pairs.append((a, rng.randrange(p)))
        pairs.append((a, a))
        pairs.append((value(rng, n) % p, value(rng, n) % p))
        x, y = pair(rng, n)
        pairs.append((x % p, y % p))
    return list(dict.fromkeys(pairs))


def special_cs(rng, n, nrand):
    cs = [1, 2, 3, 1 << 32, 1 << 63, WMAX - 1, WMAX] + [rng.getrandbits(64) | 1 for _ in range(nrand)] \
        + [limb_choice(rng) for _ in range(nrand)]
    return [c for c in dict.fromkeys(cs) if 1 <= c <= WMAX]


def near_p(rng, p, n):
    """operand within 2^(64(n-1)) of p (top limb all ones when c is small)"""
    span = min(p, 1 << (64 * max(n - 1, 1)))
    k = rng.randrange(4)
    if k == 0:
        d = rng.randrange(span)
    elif k == 1:
        d = rng.getrandbits(rng.randrange(1, 64 * n)) % span
    elif k == 2:
        d = (1 << rng.randrange(64 * n)) % span
    else:
        d = value(rng, n) % span
    return p - 1 - d


def hook_lines(tier, rng):
    """crate-internal functions through crypto_bigint::verif_hooks (`c07.hook.*`):
    sub_mod_with_carry / sub_assign_mod_with_carry: inside the documented precondition (every boundary of
      -p <= (a + carry*2^BITS) - b < p, both carries) the driver prints L0; a few lines outside it (L1 only, carry <= 1)
    mac_by_limb (fixed + boxed): arbitrary a, b, c, carry incl. all-ones everywhere (largest possible carry out)
    div_by_2 / div_by_2_boxed(_assign): odd p, reduced AND unreduced a (a >= p, a + p >= 2^BITS)"""
    quick = tier == 'quick'
    boxed = [1, 2, 3, 4, 5, 7, 8, 13, 16, 20] if quick else BOXED + [24, 32, 33, 48, 64]
    for kind, widths in (('', FIXED), ('b', boxed)):
        for n in widths:
            K = 1 << (64 * n)
            ones = K - 1
            # ---- sub_mod_with_carry
            ps = [1, 3, ones, K >> 1, (K >> 1) + 1, rng.getrandbits(64 * n) | (K >> 1), value(rng, n) or 1,
                  rng.getrandbits(rng.randrange(1, 64 * n + 1)) or 1]
            if not quick:
                ps += [2, K - 2, (K >> 1) - 1, WMAX % K or 1] + [rng.getrandbits(64 * n) | (K >> 1) for _ in range(4)] + \
                      [value(rng, n) or 1 for _ in range(4)]
            for p in dict.fromkeys(ps):
                ph = hx(p)
                ds = [-p, -1, 0, 1, p - 1, rng.randrange(-p, p)]
                if not quick:
                    ds += [-p + 1, p - 2, -(p // 2), p // 2] + [rng.randrange(-p, p) for _ in range(4)]
                for d in dict.fromkeys(ds):
                    if not (-p <= d < p):
                        continue
                    # carry = 0: a - b = d
                    if d >= 0:
                        cands = [(ones, ones - d), (d + rng.randrange(K - d), None)] + ([] if quick else [(d, 0)])
                    else:
                        cands = [(0, -d), (rng.randrange(K + d), None)] + ([] if quick else [(ones + d, ones)])
                    for a, b in cands:
                        if b is None:
                            b = a - d
                        if 0 <= a < K and 0 <= b < K and a - b == d:
                            yield f"c07.hook.{kind}sub_mod_with_carry {n} {hx(a)} 0 {hx(b)} {ph}"
                    # carry = 1: (a + K) - b = d needs d >= 1, b in [K - d, K)
                    if d >= 1:
                        bs = [ones, rng.randrange(K - d, K)] + ([p] if K - d <= p < K else []) + ([] if quick else [K - d])
                        for b in dict.fromkeys(bs):
                            a = d + b - K
                            if 0 <= a < K:
                                yield f"c07.hook.{kind}sub_mod_with_carry {n} {hx(a)} 1 {hx(b)} {ph}"
                # outside the precondition (driver prints L1 only): difference below -p / at or above p
                outside = [(0, 0, ones), (ones, 1, 0), (value(rng, n), rng.randrange(2), value(rng, n))]
                if not quick:
                    outside += [(ones, 0, 0), (ones, 1, ones), (p % K, 1, 0)]
                for a, c, b in outside:
                    yield f"c07.hook.{kind}sub_mod_with_carry {n} {hx(a)} {c} {hx(b)} {ph}"
            # ---- mac_by_limb
            nr = 2 if quick else 12
            avals = [0, ones, WMAX % K] + [rng.getrandbits(64 * n) for _ in range(nr)] + [value(rng, n) for _ in range(nr)]
            cs = [0, 1, 2, WMAX, WMAX - 1, 1 << 63, 1 << 32] + [limb_choice(rng) for _ in range(2)]
            for a in dict.fromkeys(avals):
                for b in dict.fromkeys([ones, rng.getrandbits(64 * n)] + ([] if quick else [0, value(rng, n)])):
                    for c in ([WMAX, rng.choice(cs), rng.getrandbits(64)] if quick else cs):
                        for carry in dict.fromkeys([0, WMAX] + ([] if quick else [limb_choice(rng)])):
                            yield f"c07.hook.{kind}mac_by_limb {n} {hx(a)} {hx(b)} {hx(c)} {hx(carry)}"
            # ---- div_by_2 on reduced and unreduced operands
            ps = [1, ones, (K >> 1) + 1, rng.getrandbits(64 * n) | 1, value(rng, n) | 1]
            if not quick:
                ps += [3, (K >> 1) - 1, K - 3, rng.getrandbits(64 * n) | (K >> 1) | 1] + [rng.getrandbits(64 * n) | 1 for _ in range(4)]
            for p in dict.fromkeys(x for x in ps if 1 <= x < K):
                avs = [0, p - 1, p, p + 1, ones, K - p, (K - p - 1) % K, rng.randrange(p), rng.getrandbits(64 * n)]
                if not quick:
                    avs += [1, 2, ones - 1, (K - p + 1) % K, K >> 1, value(rng, n)]
                for a in dict.fromkeys(x for x in avs if 0 <= x < K):
                    yield f"c07.hook.{kind}div_by_2 {n} {hx(a)} {hx(p)}"
                    if kind == 'b' and rng.randrange(3) == 0:
                        yield f"c07.hook.bdiv_by_2_assign {n} {hx(a)} {hx(p)}"


def gen(tier, rng):
    quick = tier == 'quick'
    nmod = 2 if quick else 8
    npair = 3 if quick else 16
    for kind, widths in (('u', FIXED), ('b', BOXED)):
        for n in widths:
            K = 1 << (64 * n)
            # ---------------- general modulus
            for p in moduli(rng, n, nmod):
                odd = p & 1 == 1
                pairs = operand_pairs(rng, p, n, npair)
                if quick and len(pairs) > 40:
                    # keep the directed head, sample the rest
                    pairs = pairs[:24] + rng.sample(pairs[24:], 16)
                ph = hx(p)
                singles = list(dict.fromkeys([a for a, _ in pairs]))[: (12 if quick else 40)]
                for a, b in pairs:
                    ah, bh = hx(a), hx(b)
                    yield f"c07.{kind}.add_mod {n} {ah} {bh} {ph}"
                    yield f"c07.{kind}.sub_mod {n} {ah} {bh} {ph}"
                    pick = rng.randrange(4 if quick else 2)
                    if pick == 0:
                        yield f"c07.{kind}.add_mod_tr {n} {ah} {bh} {ph}"
                        yield f"c07.{kind}.sub_mod_tr {n} {ah} {bh} {ph}"
                        if kind == 'b':
                            yield f"c07.b.add_mod_assign {n} {ah} {bh} {ph}"
                    if kind == 'u':
                        if pick == 1 or not quick:
                            yield f"c07.u.mul_mod_tr {n} {ah} {bh} {ph}"      # any non-zero p
                        if odd and (pick >= 1 or not quick):
                            yield f"c07.u.mul_mod_vartime {n} {ah} {bh} {ph}"
                        if odd and (pick <= 1 or not quick):
                            yield f"c07.u.mul_mod {n} {ah} {bh} {ph}"
                    elif odd:
                        if pick <= 1 or not quick:
                            yield f"c07.b.mul_mod {n} {ah} {bh} {ph}"
                        if pick == 2 or not quick:
                            yield f"c07.b.mul_mod_tr {n} {ah} {bh} {ph}"
                for a in singles:
                    ah = hx(a)
                    yield f"c07.{kind}.double_mod {n} {ah} {ph}"
                    yield f"c07.{kind}.neg_mod {n} {ah} {ph}"
                    yield f"c07.{kind}.neg_mod_tr {n} {ah} {ph}"
                    if odd:
                        yield f"c07.{kind}.div_by_2 {n} {ah} {ph}"
                        if kind == 'b':
                            yield f"c07.b.div_by_2_assign {n} {ah} {ph}"
            # ---------------- special modulus p = 2^BITS - c
            for c in special_cs(rng, n, nmod):
                p = K - c
                ch = hx(c)
                pairs = operand_pairs(rng, p, n, npair)
                if quick and len(pairs) > 30:
                    pairs = pairs[:18] + rng.sample(pairs[18:], 12)
                for _ in range(6 if quick else 40):
                    pairs.append((near_p(rng, p, n), near_p(rng, p, n)))
                    a = near_p(rng, p, n)
                    pairs.append((a, a))
                for a, b in pairs:
                    ah, bh = hx(a), hx(b)
                    if kind == 'u':
                        yield f"c07.u.add_mod_special {n} {ah} {bh} {ch}"
                    yield f"c07.{kind}.sub_mod_special {n} {ah} {bh} {ch}"
                    yield f"c07.{kind}.mul_mod_special {n} {ah} {bh} {ch}"
                for a in list(dict.fromkeys([a for a, _ in pairs]))[: (10 if quick else 40)]:
                    yield f"c07.{kind}.neg_mod_special {n} {hx(a)} {ch}"
    # crate-internal functions through the hooks (emitted last from their own PRNG stream: the public families
    # above are the same lines as before the hooks existed)
    yield from hook_lines(tier, random.Random(rng.getrandbits(32)))
