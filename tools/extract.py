#!/usr/bin/env python3
"""
extract.py — regenerate lean/CB/Model/Extracted.lean from /repo's current sources.

Holds the numeric parameters the ∀-proofs depend on (dispatch sizes, thresholds, round counts,
magic constants).  Each entry: (lean name, file, regex with one group, python converter).
If a pattern is no longer found the previous value is kept and the miss is recorded in
lean/extracted_status.json (evidence only; the behavioural correspondence then carries the tie).
The file is rewritten only when its content changes, so unchanged sources cost no rebuild.
"""
import json, os, re, sys
VERIF = os.path.dirname(os.path.dirname(os.path.abspath(__file__)))
REPO = os.environ.get('CB_REPO', '/repo')
OUT = os.path.join(VERIF, 'lean', 'CB', 'Model', 'Extracted.lean')
STATUS = os.path.join(VERIF, 'lean', 'extracted_status.json')

def num(s):
    s = s.replace('_', '')
    return int(s, 16) if s.lower().startswith('0x') else int(s)

# (name, file, regex, converter, doc)
PARAMS = [
    ('sqrtExtraRounds', 'src/uint/sqrt.rs', r'while\s+i\s*<\s*Self::LOG2_BITS\s*\+\s*(\d+)', num,
     'C20: Uint::sqrt runs LOG2_BITS + this many Newton rounds'),
    ('sqrtExtraRoundsBoxed', 'src/uint/boxed/sqrt.rs', r'while\s+i\s*<\s*self\.log2_bits\(\)\s*\+\s*(\d+)', num,
     'C20: BoxedUint::sqrt runs log2_bits() + this many Newton rounds'),
    ('radixEncodingLimbsLarge', 'src/uint/encoding.rs', r'const\s+RADIX_ENCODING_LIMBS_LARGE\s*:\s*usize\s*=\s*(\d+)\s*;', num,
     'C17: limb count of the large radix divisor / threshold of the recursive encoder'),
    ('radixEncodingMin', 'src/uint/encoding.rs', r'const\s+RADIX_ENCODING_MIN\s*:\s*u32\s*=\s*(\d+)\s*;', num,
     'C17: smallest supported radix'),
    ('radixEncodingMax', 'src/uint/encoding.rs', r'const\s+RADIX_ENCODING_MAX\s*:\s*u32\s*=\s*(\d+)\s*;', num,
     'C17: largest supported radix'),
    # ---- C10: safegcd iteration formula and 62-bit limb geometry
    ('safegcdLimbBits', 'src/modular/safegcd.rs', r'pub const LIMB_BITS: usize = (\d+);', num, 'C10: UnsatInt::LIMB_BITS'),
    ('safegcdBoxedLimbBits', 'src/modular/safegcd/boxed.rs', r'pub const LIMB_BITS: usize = (\d+);', num, 'C10: BoxedUnsatInt::LIMB_BITS'),
    ('safegcdIterMul', 'src/modular/safegcd.rs', r'fn iterations\(.*?\(\((\d+) \* d \+ addend\) / \d+\)', num, 'C10: iterations(): multiplier of the bit length'),
    ('safegcdIterDiv', 'src/modular/safegcd.rs', r'fn iterations\(.*?\(\(\d+ \* d \+ addend\) / (\d+)\)', num, 'C10: iterations(): divisor'),
    ('safegcdIterThreshold', 'src/modular/safegcd.rs', r'fn iterations\(.*?from_u32_lt\(d, (\d+)\)\.select_u32\(\d+, \d+\)', num, 'C10: iterations(): bit-length threshold below which the larger addend is used'),
    ('safegcdIterAddGe', 'src/modular/safegcd.rs', r'fn iterations\(.*?from_u32_lt\(d, \d+\)\.select_u32\((\d+), \d+\)', num, 'C10: iterations(): addend when d >= threshold'),
    ('safegcdIterAddLt', 'src/modular/safegcd.rs', r'fn iterations\(.*?from_u32_lt\(d, \d+\)\.select_u32\(\d+, (\d+)\)', num, 'C10: iterations(): addend when d < threshold'),
    ('safegcdJumpSteps', 'src/modular/safegcd.rs', r'let \(mut steps, mut f, mut g\) = \((\d+),', num, 'C10: jump(): divsteps per batch'),
    ('safegcdNlimbsPad', 'src/macros.rs', r'macro_rules! safegcd_nlimbs \{.*?\(\$bits \+ (\d+)\)\.div_ceil\(\d+\)', num, 'C10: safegcd_nlimbs!: extra bits'),
    ('safegcdNlimbsDiv', 'src/macros.rs', r'macro_rules! safegcd_nlimbs \{.*?\(\$bits \+ \d+\)\.div_ceil\((\d+)\)', num, 'C10: safegcd_nlimbs!: bits per unsaturated limb'),
    # --- C03: multiplication dispatch sizes and boxed Karatsuba thresholds
    ('karaMulChain0', 'src/uint/mul/karatsuba.rs', r'impl_uint_karatsuba_multiplication!\(\s*(\d+)\s*,\s*\d+\s*,\s*\d+\s*,\s*\d+\s*,\s*\d+\s*\)', num, 'C03: fixed Karatsuba multiply macro chain, level 0 (largest full size)'),
    ('karaMulChain1', 'src/uint/mul/karatsuba.rs', r'impl_uint_karatsuba_multiplication!\(\s*\d+\s*,\s*(\d+)\s*,\s*\d+\s*,\s*\d+\s*,\s*\d+\s*\)', num, 'C03: fixed Karatsuba multiply macro chain, level 1'),
    ('karaMulChain2', 'src/uint/mul/karatsuba.rs', r'impl_uint_karatsuba_multiplication!\(\s*\d+\s*,\s*\d+\s*,\s*(\d+)\s*,\s*\d+\s*,\s*\d+\s*\)', num, 'C03: fixed Karatsuba multiply macro chain, level 2'),
    ('karaMulChain3', 'src/uint/mul/karatsuba.rs', r'impl_uint_karatsuba_multiplication!\(\s*\d+\s*,\s*\d+\s*,\s*\d+\s*,\s*(\d+)\s*,\s*\d+\s*\)', num, 'C03: fixed Karatsuba multiply macro chain, level 3'),
    ('karaMulChain4', 'src/uint/mul/karatsuba.rs', r'impl_uint_karatsuba_multiplication!\(\s*\d+\s*,\s*\d+\s*,\s*\d+\s*,\s*\d+\s*,\s*(\d+)\s*\)', num, 'C03: fixed Karatsuba multiply macro chain, level 4 (schoolbook base)'),
    ('karaSqChain0', 'src/uint/mul/karatsuba.rs', r'impl_uint_karatsuba_squaring!\(\s*(\d+)\s*,\s*\d+\s*,\s*\d+\s*\)', num, 'C03: fixed Karatsuba squaring macro chain, level 0'),
    ('karaSqChain1', 'src/uint/mul/karatsuba.rs', r'impl_uint_karatsuba_squaring!\(\s*\d+\s*,\s*(\d+)\s*,\s*\d+\s*\)', num, 'C03: fixed Karatsuba squaring macro chain, level 1'),
    ('karaSqChain2', 'src/uint/mul/karatsuba.rs', r'impl_uint_karatsuba_squaring!\(\s*\d+\s*,\s*\d+\s*,\s*(\d+)\s*\)', num, 'C03: fixed Karatsuba squaring macro chain, level 2 (schoolbook base)'),
    ('splitMulDispatch0', 'src/uint/mul.rs', r'fn split_mul<.*?if LIMBS == RHS_LIMBS \{\s*if LIMBS == (\d+) \{', num, 'C03: Uint::split_mul dispatches to UintKaratsubaMul at this limb count (1st test)'),
    ('splitMulDispatch1', 'src/uint/mul.rs', r'fn split_mul<.*?if LIMBS == RHS_LIMBS \{(?:\s*if LIMBS == \d+ \{.*?\}){1}\s*if LIMBS == (\d+) \{', num, 'C03: Uint::split_mul dispatch size (2nd test)'),
    ('splitMulDispatch2', 'src/uint/mul.rs', r'fn split_mul<.*?if LIMBS == RHS_LIMBS \{(?:\s*if LIMBS == \d+ \{.*?\}){2}\s*if LIMBS == (\d+) \{', num, 'C03: Uint::split_mul dispatch size (3rd test)'),
    ('splitMulDispatch3', 'src/uint/mul.rs', r'fn split_mul<.*?if LIMBS == RHS_LIMBS \{(?:\s*if LIMBS == \d+ \{.*?\}){3}\s*if LIMBS == (\d+) \{', num, 'C03: Uint::split_mul dispatch size (4th test)'),
    ('squareWideDispatch0', 'src/uint/mul.rs', r'fn square_wide\(&self\) -> \(Self, Self\) \{\s*if LIMBS == (\d+) \{', num, 'C03: Uint::square_wide dispatches to UintKaratsubaMul::square at this limb count (1st test)'),
    ('squareWideDispatch1', 'src/uint/mul.rs', r'fn square_wide\(&self\) -> \(Self, Self\) \{\s*if LIMBS == \d+ \{.*?\}\s*if LIMBS == (\d+) \{', num, 'C03: Uint::square_wide dispatch size (2nd test)'),
    ('karatsubaMinStartingLimbs', 'src/uint/mul/karatsuba.rs', r'pub const KARATSUBA_MIN_STARTING_LIMBS: usize = (\d+);', num, 'C03: BoxedUint::mul uses karatsuba_mul_limbs when min(nlimbs) >= this; BoxedUint::square when nlimbs >= 2x this'),
    ('karatsubaMaxReduceLimbs', 'src/uint/mul/karatsuba.rs', r'pub const KARATSUBA_MAX_REDUCE_LIMBS: usize = (\d+);', num, 'C03: karatsuba_mul_limbs falls back to adc_mul_limbs when even-floored overlap <= this; karatsuba_square_limbs to schoolbook when size <= 2x this'),
    ('boxedSquareStartFactor', 'src/uint/boxed/mul.rs', r'if self\.nlimbs\(\) >= KARATSUBA_MIN_STARTING_LIMBS \* (\d+) \{', num, 'C03: factor in BoxedUint::square threshold'),
    ('karaSquareReduceFactor', 'src/uint/mul/karatsuba.rs', r'if size <= KARATSUBA_MAX_REDUCE_LIMBS \* (\d+) \|\| \(size & 1\) == 1 \{', num, 'C03: factor in karatsuba_square_limbs fallback threshold'),
    # --- C09: exponentiation window
    ('powWindow', 'src/modular/pow.rs', r'const\s+WINDOW\s*:\s*u32\s*=\s*(\d+)\s*;', num, 'C09: fixed-window size (bits) of pow_montgomery_form / multi_exponentiate_montgomery_form_*'),
    ('boxedPowWindow', 'src/modular/boxed_monty_form/pow.rs', r'const\s+WINDOW\s*:\s*u32\s*=\s*(\d+)\s*;', num, 'C09: fixed-window size (bits) of the boxed pow_montgomery_form'),
    # -- more entries are appended above this line by the integrator
]

def main():
    prev = {}
    if os.path.exists(OUT):
        for m in re.finditer(r'^def (\w+) : Nat := (\d+)', open(OUT).read(), re.M):
            prev[m.group(1)] = int(m.group(2))
    vals, status = {}, {}
    for name, file, rx, conv, doc in PARAMS:
        try:
            src = open(os.path.join(REPO, file)).read()
            m = re.search(rx, src, re.S)
            if not m:
                raise KeyError('pattern not found')
            vals[name] = conv(m.group(1))
            status[name] = 'extracted'
        except Exception as e:
            if name in prev:
                vals[name] = prev[name]
                status[name] = f'parameter not re-extracted ({e}); kept committed value'
            else:
                print(f'extract.py: cannot extract {name}: {e}', file=sys.stderr)
                status[name] = f'missing ({e})'
    lines = ['/- GENERATED by tools/extract.py from /repo on every check run. Do not edit. -/', 'namespace CB.Extracted', '']
    for name, file, rx, conv, doc in PARAMS:
        if name in vals:
            lines.append(f'/-- {doc} ({file}) -/')
            lines.append(f'def {name} : Nat := {vals[name]}')
    lines += ['', 'end CB.Extracted', '']
    text = '\n'.join(lines)
    if not os.path.exists(OUT) or open(OUT).read() != text:
        open(OUT, 'w').write(text)
    json.dump(status, open(STATUS, 'w'), indent=1)

if __name__ == '__main__':
    main()
    # word-level layer: regenerate lean/CB/Gen/Prim.lean (Rust -> Lean translation of primitives.rs / ConstChoice)
    import translate
    translate.main()
