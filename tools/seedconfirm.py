#!/usr/bin/env python3
"""
seedconfirm.py — confirm a seeded breaking change before it is kept under /verif/seeded/<id>/.

  seedconfirm.py <src_dir> <seed_id> [--slot N] [--keep]

<src_dir> holds patch.diff, demo.rs (an integration test file) and optionally meta.json as written by a
mutation sub-agent.  In a private git worktree of /repo's HEAD (/tmp/seedchk/s<N>/repo, never /repo itself):
  1. `git apply patch.diff`                                   -> must apply
  2. `cargo build --offline --all-features`                    -> must compile
  3. the pinned test suite (cargo nextest, default features, as /root/.vp/BASELINE.json runs it)
                                                               -> 378 passed, 0 failed
  4. demo.rs as tests/seed_demo.rs, `cargo test --all-features --test seed_demo` -> must FAIL
  5. patch reverted, same demo                                 -> must PASS
If all five hold, /verif/seeded/<seed_id>/{patch.diff, demo.rs, meta.json} is written (meta.json gets a
"confirmed" block with the commands and outcomes).  Prints one summary line.
"""
import json, os, re, shutil, subprocess, sys, time

V = os.path.dirname(os.path.dirname(os.path.abspath(__file__)))
ENV = dict(os.environ, CARGO_NET_OFFLINE='true', CARGO_TERM_COLOR='never')


def sh(cmd, cwd=None, timeout=3600):
    p = subprocess.run(['bash', '-o', 'pipefail', '-c', cmd], cwd=cwd, env=ENV, text=True, stdout=subprocess.PIPE, stderr=subprocess.STDOUT, timeout=timeout)
    return p.returncode, p.stdout


def main():
    args = [a for a in sys.argv[1:] if not a.startswith('--')]
    src, sid = args[0], args[1]
    slot = '0'
    if '--slot' in sys.argv:
        slot = sys.argv[sys.argv.index('--slot') + 1]
        args = [a for a in args if a != slot] if False else args
    wt = f'/tmp/seedchk/s{slot}/repo'
    os.makedirs(os.path.dirname(wt), exist_ok=True)
    head = sh('git -C /repo rev-parse HEAD')[1].strip()
    if not os.path.exists(f'{wt}/.git'):
        sh(f'git -C /repo worktree prune; git -C /repo worktree add --detach --force {wt} {head}')
    sh(f'git -C {wt} checkout -q --detach {head}; git -C {wt} reset -q --hard {head}; git -C {wt} clean -fdq -e target')
    res = dict(repo_head=head, steps=[])

    def step(name, cmd, want_ok, timeout=3600):
        t = time.time()
        rc, out = sh(cmd, cwd=wt, timeout=timeout)
        ok = (rc == 0) == want_ok
        res['steps'].append(dict(step=name, cmd=cmd, rc=rc, expected='success' if want_ok else 'failure', as_expected=ok, wall_s=round(time.time() - t, 1), tail=out[-1500:]))
        return ok, out

    patch = os.path.abspath(os.path.join(src, 'patch.diff'))
    demo = os.path.abspath(os.path.join(src, 'demo.rs'))
    verdict = 'confirmed'
    try:
        ok, _ = step('apply', f'git apply {patch}', True)
        if not ok:
            raise RuntimeError('patch does not apply')
        ok, _ = step('build-all-features', 'cargo build --offline --all-features 2>&1 | tail -5', True)
        if not ok:
            raise RuntimeError('does not compile')
        ok, out = step('existing-tests', 'cargo nextest run --workspace --no-fail-fast --offline 2>&1 | tail -15', True)
        m = re.search(r'(\d+) tests? run: (\d+) passed', out)
        res['tests_run'] = int(m.group(1)) if m else None
        res['tests_passed'] = int(m.group(2)) if m else None
        if not ok or not m or int(m.group(2)) < 378:
            raise RuntimeError(f'existing tests do not all pass ({m.group(0) if m else "no summary"})')
        demo_sh = os.path.abspath(os.path.join(src, 'demo.sh'))
        if os.path.exists(demo_sh):
            # execution-trace demonstration (C01): demo.rs is an example program, demo.sh compares executed
            # instruction / branch counts under valgrind for different secrets (exit 0 iff identical)
            os.makedirs(f'{wt}/examples', exist_ok=True)
            shutil.copy(demo, f'{wt}/examples/seed_demo.rs')
            shutil.copy(demo_sh, f'{wt}/demo.sh')
            demo_cmd = 'bash demo.sh 2>&1 | tail -30'
        else:
            shutil.copy(demo, f'{wt}/tests/seed_demo.rs')
            demo_cmd = 'cargo test --offline --all-features --test seed_demo 2>&1 | tail -30'
            try:
                if json.load(open(os.path.join(src, 'meta.json'))).get('demo_profile') == 'release':
                    demo_cmd = 'cargo test --offline --release --all-features --test seed_demo 2>&1 | tail -30'
            except Exception:
                pass
        ok, _ = step('demo-with-change', demo_cmd, False)
        if not ok:
            raise RuntimeError('demo does not fail with the change')
        sh(f'git -C {wt} apply -R {patch}')
        ok, _ = step('demo-without-change', demo_cmd, True)
        if not ok:
            raise RuntimeError('demo does not pass without the change')
    except Exception as e:  # noqa
        verdict = f'rejected: {e}'
    finally:
        sh(f'git -C {wt} reset -q --hard {head}; git -C {wt} clean -fdq -e target')
    res['verdict'] = verdict
    if verdict == 'confirmed':
        dst = f'{V}/seeded/{sid}'
        os.makedirs(dst, exist_ok=True)
        shutil.copy(patch, f'{dst}/patch.diff')
        shutil.copy(demo, f'{dst}/demo.rs')
        if os.path.exists(os.path.join(src, 'demo.sh')):
            shutil.copy(os.path.join(src, 'demo.sh'), f'{dst}/demo.sh')
        meta = {}
        mp = os.path.join(src, 'meta.json')
        if os.path.exists(mp):
            try:
                meta = json.load(open(mp))
            except Exception:
                meta = {'agent_meta_unparsed': open(mp).read()}
        old = f'{dst}/meta.json'
        if os.path.exists(old):
            try:
                o = json.load(open(old))
                for k in ('checks_run', 'detected_by'):
                    if k in o:
                        meta[k] = o[k]
            except Exception:
                pass
        meta['confirmed'] = dict(by='integrator (tools/seedconfirm.py)', repo_head=head, tests_passed=res.get('tests_passed'),
                                 steps=[{k: s[k] for k in ('step', 'cmd', 'rc', 'expected', 'as_expected', 'wall_s')} for s in res['steps']])
        json.dump(meta, open(f'{dst}/meta.json', 'w'), indent=1)
    else:
        os.makedirs('/tmp/seedchk/rejected', exist_ok=True)
        json.dump(res, open(f'/tmp/seedchk/rejected/{sid}.json', 'w'), indent=1)
    print(f'{sid}: {verdict}')
    return 0 if verdict == 'confirmed' else 1


if __name__ == '__main__':
    sys.exit(main())
