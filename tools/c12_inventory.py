#!/usr/bin/env python3
"""
c12_inventory.py — producer inventory for property C12 (NonZero / Odd wrappers).

  c12_inventory.py [--mode rustdoc|grep|auto] [--out FILE] [--json FILE]

Regenerates the list of every public function / associated constant / trait-impl item of the
crate (all features on) whose result mentions `NonZero<..>` or `Odd<..>` (or `Self` inside an
impl for them), plus every `&mut self` method of an impl for the wrappers ("mutators"), and
compares it with the list the model covers (tools/c12_producers.json, committed).

 * rustdoc mode: `cargo +nightly rustdoc ... --output-format json` on a SCRATCH COPY of the
   crate (never writes into /repo; CARGO_TARGET_DIR and the copy live under a temp dir that is
   removed afterwards).  ~20-40 s.  Used by the thorough tier.
 * grep mode: source-level fallback (`fn .. -> ..(NonZero|Odd)<` / `-> Self` inside
   `impl .. for (NonZero|Odd)<` / `impl (NonZero|Odd)<` blocks, assoc consts) over src/.  < 1 s.
   Used by the quick tier.  Keys are the same strings, so both modes compare against one list.

`compare(mode)` returns (missing, stale, inventory): `missing` = in the crate, unknown to the
model (a correspondence break: tools/gen/c12.py emits a `c12.inventory <missing…>` line that
harness and model answer differently); `stale` = listed by the model, no longer in the crate
(reported in evidence only).
"""
import json, os, re, shutil, subprocess, sys, tempfile

VERIF = os.path.dirname(os.path.dirname(os.path.abspath(__file__)))
REPO = os.environ.get('CB_REPO', '/repo')
FEATURES = 'alloc,der,rlp,hybrid-array,serde,zeroize,extra-sizes,rand'
PRODUCERS = os.path.join(VERIF, 'tools', 'c12_producers.json')
WRAPPERS = ('NonZero', 'Odd')

# ------------------------------------------------------------------ rustdoc JSON


def build_rustdoc_json():
    """Run rustdoc on a scratch copy of REPO; returns the parsed JSON (nothing is left on disk)."""
    tmp = tempfile.mkdtemp(prefix='c12inv-')
    try:
        src = os.path.join(tmp, 'repo')
        shutil.copytree(REPO, src, ignore=shutil.ignore_patterns('target', '.git'))
        env = dict(os.environ, CARGO_NET_OFFLINE='true', CARGO_TARGET_DIR=os.path.join(tmp, 'target'))
        env.pop('RUSTFLAGS', None)
        p = subprocess.run(['cargo', '+nightly', 'rustdoc', '--offline', '--lib', '--features', FEATURES, '--',
                            '-Z', 'unstable-options', '--output-format', 'json'],
                           cwd=src, env=env, stdout=subprocess.PIPE, stderr=subprocess.STDOUT, text=True, timeout=600)
        path = os.path.join(tmp, 'target', 'doc', 'crypto_bigint.json')
        if p.returncode != 0 or not os.path.exists(path):
            raise RuntimeError('rustdoc json failed:\n' + p.stdout[-3000:])
        return json.load(open(path))
    finally:
        shutil.rmtree(tmp, ignore_errors=True)


def ty(t):
    """rustdoc-json Type -> compact string"""
    if t is None:
        return '()'
    if 'resolved_path' in t:
        r = t['resolved_path']
        return r['path'].split('::')[-1] + gargs(r.get('args'))
    if 'generic' in t:
        return t['generic']
    if 'primitive' in t:
        return t['primitive']
    if 'borrowed_ref' in t:
        b = t['borrowed_ref']
        return '&' + ('mut ' if b['is_mutable'] else '') + ty(b['type'])
    if 'tuple' in t:
        return '(' + ', '.join(ty(x) for x in t['tuple']) + ')'
    if 'slice' in t:
        return '[' + ty(t['slice']) + ']'
    if 'array' in t:
        return '[' + ty(t['array']['type']) + '; ' + str(t['array']['len']) + ']'
    if 'qualified_path' in t:
        q = t['qualified_path']
        tr = q.get('trait')
        s = ty(q['self_type'])
        if tr and tr.get('path'):
            return f"<{s} as {tr['path'].split('::')[-1]}{gargs(tr.get('args'))}>::{q['name']}"
        return f"{s}::{q['name']}"
    if 'impl_trait' in t:
        return 'impl ' + '+'.join(bound(b) for b in t['impl_trait'])
    if 'dyn_trait' in t:
        return 'dyn ' + '+'.join(x['trait']['path'] for x in t['dyn_trait']['traits'])
    if 'raw_pointer' in t:
        return '*' + ty(t['raw_pointer']['type'])
    return '?' + next(iter(t.keys()))


def bound(b):
    if 'trait_bound' in b:
        tr = b['trait_bound']['trait']
        return tr['path'].split('::')[-1] + gargs(tr.get('args'))
    return '?'


def gargs(a):
    if not a:
        return ''
    if 'angle_bracketed' in a:
        xs = []
        for x in a['angle_bracketed']['args']:
            if 'type' in x:
                xs.append(ty(x['type']))
            elif 'const' in x:
                xs.append(x['const'].get('expr', '?'))
            elif 'lifetime' in x:
                continue
        return '<' + ', '.join(xs) + '>' if xs else ''
    return ''


def mentions(s):
    return bool(re.search(r'\b(NonZero|Odd)<', s))


def inventory_rustdoc(doc=None):
    d = doc or build_rustdoc_json()
    idx = d['index']
    out = {}

    def add(key, kind, where, sig):
        out.setdefault(key, dict(kind=kind, where=where, sig=sig))

    def span(it):
        s = it.get('span') or {}
        return f"{s.get('filename', '?')}:{(s.get('begin') or ['?'])[0]}"

    member_ids = set()
    for it in idx.values():
        inner = it['inner']
        if 'impl' in inner:
            member_ids.update(inner['impl']['items'])
        elif 'trait' in inner:
            member_ids.update(inner['trait']['items'])

    def fn_entry(it, owner, selfish, in_trait_impl, assoc):
        f = it['inner']['function']
        sig = f['sig']
        ret = ty(sig['output']) if sig.get('output') else '()'
        # resolve `Self::Assoc` through the impl's associated types (e.g. `Self::Output`)
        ret = re.sub(r'\bSelf::(\w+)', lambda m: assoc.get(m.group(1), 'Self::' + m.group(1)), ret)
        ins = [(n, ty(t)) for n, t in sig['inputs']]
        sigs = f"({', '.join(t for _, t in ins)}) -> {ret}"
        name = it['name']
        if not in_trait_impl and it.get('visibility') != 'public':
            return
        if mentions(ret) or (selfish and re.search(r'\bSelf\b(?!::)', ret)):
            add(f'{owner}::{name}', 'fn', span(it), sigs)
        elif (selfish and ins and ins[0][0] == 'self' and ins[0][1].startswith('&mut ')) or \
                any(re.match(r'&mut (NonZero|Odd)<', t) or (selfish and t == '&mut Self') for _, t in ins):
            add(f'{owner}::{name}', 'mutator', span(it), sigs)

    for it in idx.values():
        if it.get('crate_id') != 0:
            continue
        inner = it['inner']
        if 'impl' in inner:
            im = inner['impl']
            if im.get('blanket_impl') or im.get('is_synthetic'):
                continue
            fort = ty(im['for'])
            selfish = bool(re.match(r'(NonZero|Odd)\b', fort))
            tr = im.get('trait')
            trs = (tr['path'].split('::')[-1] + gargs(tr.get('args'))) if tr else None
            owner = f'{trs} for {fort}' if trs else fort
            assoc = {}
            for iid in im['items']:
                sub = idx.get(str(iid))
                if sub and 'assoc_type' in sub['inner'] and sub['inner']['assoc_type'].get('type'):
                    assoc[sub['name']] = ty(sub['inner']['assoc_type']['type'])
            for iid in im['items']:
                sub = idx.get(str(iid))
                if not sub:
                    continue
                si = sub['inner']
                if 'function' in si:
                    fn_entry(sub, owner, selfish, tr is not None, assoc)
                elif 'assoc_const' in si:
                    t = ty(si['assoc_const']['type'])
                    if (tr is not None or sub.get('visibility') == 'public') and (mentions(t) or (selfish and t == 'Self')):
                        add(f'{owner}::{sub["name"]}', 'const', span(sub), t)
            if selfish and tr is not None:
                for m in im.get('provided_trait_methods', []):
                    add(f'{owner}::{m}', 'provided', span(it), 'provided trait method (signature in the trait)')
        elif 'struct' in inner and it.get('name') in WRAPPERS:
            # a visible field would let anyone build an invalid wrapper (private fields are stripped = null)
            k = inner['struct']['kind']
            fields = k.get('tuple') or (k.get('plain') or {}).get('fields') or []
            for n, fid in enumerate(fields):
                if fid is not None:
                    add(f'{it["name"]}.{n} (visible field)', 'field', span(it), 'public field')
        elif 'function' in inner and it.get('visibility') == 'public' and it['id'] not in member_ids:
            # free functions
            f = inner['function']
            ret = ty(f['sig']['output']) if f['sig'].get('output') else '()'
            if mentions(ret):
                add(f'fn {it["name"]}', 'fn', span(it), ret)
        elif 'trait' in inner:
            for iid in inner['trait']['items']:
                sub = idx.get(str(iid))
                if sub and 'function' in sub['inner']:
                    f = sub['inner']['function']
                    ret = ty(f['sig']['output']) if f['sig'].get('output') else '()'
                    if mentions(ret):
                        add(f'trait {it["name"]}::{sub["name"]}', 'fn', span(sub), ret)
                elif sub and 'assoc_const' in sub['inner']:
                    t = ty(sub['inner']['assoc_const']['type'])
                    if mentions(t):
                        add(f'trait {it["name"]}::{sub["name"]}', 'const', span(sub), t)
    return out


# ------------------------------------------------------------------ source grep fallback

IMPL_RE = re.compile(r'^\s*(?:unsafe\s+)?impl\b(.*?)\{?\s*$')


def inventory_grep():
    """Cheap approximation used in the quick tier: returns {file:line-independent key: ...} keyed by
    `<file>::<impl header>::<fn name>`; compared only through the grep keys recorded in c12_producers.json."""
    out = {}
    srcdir = os.path.join(REPO, 'src')
    for root, _, files in os.walk(srcdir):
        for fn in sorted(files):
            if not fn.endswith('.rs'):
                continue
            path = os.path.join(root, fn)
            rel = os.path.relpath(path, REPO)
            text = open(path).read()
            # cut the test modules
            m = re.search(r'^#\[cfg\((all\()?test', text, re.M)
            if m:
                text = text[:m.start()]
            lines = text.split('\n')
            for dm in re.finditer(r'#\[derive\(([^)]*)\)\]\s*(?:#\[[^\]]*\]\s*)*pub struct (NonZero|Odd)\b', text):
                for tr in [t.strip() for t in dm.group(1).split(',')]:
                    if tr in ('Default', 'Clone'):
                        out[f'{rel}::derive({tr}) for {dm.group(2)}'] = dict(kind='fn', sig='derived -> Self')
                if re.search(r'pub struct ' + dm.group(2) + r'<T>\(\s*pub\s+T', text):
                    out[f'{rel}::{dm.group(2)}.0 (visible field)'] = dict(kind='field', sig='public field')
            header, depth_at = None, None
            depth = 0
            i = 0
            while i < len(lines):
                ln = lines[i]
                code = re.sub(r'//.*', '', ln)
                if depth == 0 and re.match(r'\s*(unsafe\s+)?impl\b', code):
                    h = code
                    j = i
                    while '{' not in h and j + 1 < len(lines):
                        j += 1
                        h += ' ' + re.sub(r'//.*', '', lines[j])
                    header = re.sub(r'\s+', ' ', h.split('{')[0]).strip()
                    header = re.sub(r'\s*where .*', '', header)
                if depth == 0 and re.match(r'\s*(pub\s+)?trait\b', code):
                    header = re.sub(r'\s+', ' ', code.split('{')[0]).strip()
                fm = re.match(r'\s*(pub(\([a-z]+\))?\s+)?(const\s+)?(unsafe\s+)?fn\s+(\w+)', code)
                if fm and depth <= 1:
                    sig = code
                    j = i
                    while not re.search(r'[{;]', sig) and j + 1 < len(lines):
                        j += 1
                        sig += ' ' + re.sub(r'//.*', '', lines[j])
                    sig = re.sub(r'\s+', ' ', sig)
                    vis = fm.group(1) or ''
                    ret = sig.split('->', 1)[1] if '->' in sig else ''
                    ret = re.split(r'\bwhere\b|\{', ret)[0]
                    selfish = bool(header and re.search(r'(for|impl(<[^>]*>)?)\s+(NonZero|Odd)<', header))
                    intrait = bool(header and (' for ' in header or header.startswith(('trait', 'pub trait'))))
                    public = vis.startswith('pub') and '(' not in vis
                    if (public or intrait) and depth == (1 if header else 0):
                        if mentions(ret) or (selfish and re.search(r'\bSelf\b(?!::)', ret)):
                            out[f'{rel}::{header}::{fm.group(5)}'] = dict(kind='fn', sig=ret.strip())
                        elif selfish and re.search(r'\(\s*&mut self', sig):
                            out[f'{rel}::{header}::{fm.group(5)}'] = dict(kind='mutator', sig=sig.strip())
                cm = re.match(r'\s*(pub\s+)?const\s+(\w+)\s*:\s*([^=;]+)', code)
                if cm and depth == 1 and header:
                    selfish = bool(re.search(r'(for|impl(<[^>]*>)?)\s+(NonZero|Odd)<', header))
                    t = cm.group(3).strip()
                    if mentions(t) or (selfish and t == 'Self'):
                        out[f'{rel}::{header}::{cm.group(2)}'] = dict(kind='const', sig=t)
                depth += code.count('{') - code.count('}')
                if depth == 0 and '}' in code:
                    header = None
                i += 1
    return out


# ------------------------------------------------------------------ compare

def load_known():
    return json.load(open(PRODUCERS))


def compare(mode='grep', doc=None):
    known = load_known()
    if mode == 'rustdoc':
        inv = inventory_rustdoc(doc)
        have = set(known['rustdoc'])
    else:
        inv = inventory_grep()
        have = set(known['grep'])
    missing = sorted(k for k in inv if k not in have)
    stale = sorted(k for k in have if k not in inv)
    return missing, stale, inv


def token(keys):
    """a line-protocol token naming the unknown producers (no spaces)"""
    return ';'.join(re.sub(r'\s+', '_', k) for k in keys)


def main():
    import argparse
    ap = argparse.ArgumentParser()
    ap.add_argument('--mode', default='auto')
    ap.add_argument('--out', help='write the inventory (json) here')
    ap.add_argument('--from-json', help='use an existing rustdoc json instead of running rustdoc')
    ap.add_argument('--print', action='store_true')
    a = ap.parse_args()
    mode = a.mode
    doc = json.load(open(a.from_json)) if a.from_json else None
    if mode == 'auto':
        mode = 'rustdoc'
    missing, stale, inv = compare(mode, doc)
    if a.out:
        os.makedirs(os.path.dirname(os.path.abspath(a.out)), exist_ok=True)
        json.dump(dict(mode=mode, inventory=inv, missing=missing, stale=stale), open(a.out, 'w'), indent=1, sort_keys=True)
    if a.print:
        for k in sorted(inv):
            print(f"{inv[k]['kind']:8} {k}    {inv[k].get('sig', '')}")
    print(f'[c12_inventory] mode={mode} items={len(inv)} missing={len(missing)} stale={len(stale)}', file=sys.stderr)
    for k in missing:
        print('MISSING', k)
    for k in stale:
        print('STALE', k)
    sys.exit(1 if missing else 0)


if __name__ == '__main__':
    main()
