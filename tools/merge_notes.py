#!/usr/bin/env python3
"""Integrator helper: pull classifier functions (```python blocks) and known_findings entries (```json blocks,
one object per line or a list / single object) out of notes/Cxx.md into tools/findings.py / known_findings.json."""
import json, re, sys, os
pid = sys.argv[1]
V = os.path.dirname(os.path.dirname(os.path.abspath(__file__)))
notes = open(f'{V}/notes/{pid}.md').read()
mine = open(f'{V}/tools/findings.py').read()
have = set(re.findall(r'^def (\w+)', mine, re.M))
added = []
for blk in re.findall(r'```python\n(.*?)```', notes, re.S):
    for b in re.split(r'\n(?=def \w+)', '\n' + blk):
        m = re.match(r'\s*def (\w+)\((?:f|finding), line', b)
        m2 = re.match(r'\s*def (_\w+)\(', b)
        mm = m or m2
        if mm and mm.group(1) not in have:
            mine = mine.rstrip('\n') + '\n\n\n' + b.strip('\n') + '\n'
            have.add(mm.group(1)); added.append(mm.group(1))
open(f'{V}/tools/findings.py', 'w').write(mine)
k = json.load(open(f'{V}/known_findings.json'))
ids = {f['id']: i for i, f in enumerate(k['findings'])}
n = 0
def take(o):
    global n
    if isinstance(o, dict) and 'id' in o and 'classifier' in o:
        if o['id'] in ids: k['findings'][ids[o['id']]] = o
        else: k['findings'].append(o); ids[o['id']] = len(k['findings']) - 1; n += 1
for blk in re.findall(r'```json\n(.*?)```', notes, re.S):
    try:
        o = json.loads(blk)
        for x in (o if isinstance(o, list) else o.get('findings', [o]) if isinstance(o, dict) else []): take(x)
        continue
    except Exception:
        pass
    try:
        for x in json.loads('[' + blk.strip().rstrip(',') + ']'): take(x)
        continue
    except Exception:
        pass
    for line in blk.split('\n'):
        line = line.strip().rstrip(',')
        if line.startswith('{'):
            try: take(json.loads(line))
            except Exception as e: print('unparsed json line:', line[:80], e)
json.dump(k, open(f'{V}/known_findings.json', 'w'), indent=1)
print('classifiers added:', added, '; findings added:', n)
