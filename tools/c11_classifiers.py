"""
Classifiers of the C11 known findings (used by tools/check_c11.py; owned by C11).

A C11 classifier decides whether ONE panic-class deviation
    (op line, implementation output, profile, documented alternatives, full model output)
is exactly the listed finding.  Anything else on the same operation is still a VIOLATION:
every classifier checks the operation, the failing-input class (a predicate on the op line), the
direction of the deviation (undocumented panic / documented panic missing) and the profile(s).
"""


def _dir(impl, want):
    if impl == 'panic' and 'panic' not in want:
        return 'undocumented-panic'
    if impl not in ('panic', 'crash', 'timeout') and all(w == 'panic' for w in want):
        return 'missing-panic'
    return None


def _hexzero(tok):
    return tok.strip('0') == ''


# ---- failing-input classes (predicates on the tokens of the op line) -------------------------------

def _zero_numeral(text_tok):
    """`x`-hex text that is a numeral of value 0: optional '+', then only '0' and '_' with at least one '0'"""
    if not text_tok.startswith('x'):
        return False
    try:
        s = bytes.fromhex(text_tok[1:]).decode('ascii')
    except Exception:
        return False
    if s.startswith('+'):
        s = s[1:]
    return '0' in s and all(c in '0_' for c in s)


PRED = {
    # `... <modulus>` last token is the modulus, must be zero
    'last_zero': lambda t: _hexzero(t[-1]),
    # c10.u.inv_mod_m0 n x form: the op itself fixes the modulus to ZERO
    'any': lambda t: True,
    # boxed binary ops `op na a nb b ...`: precisions differ
    'prec_differ_1_3': lambda t: t[1] != t[3],
    # c02.b.*_mixed `op nl dl n d`: limb counts are the first two tokens
    'prec_differ_1_2': lambda t: t[1] != t[2],
    # c17.b.parse_bits / roundtrip `op radix xtext`
    'zero_numeral_2': lambda t: _zero_numeral(t[2]),
    # c17.b.fmt `op nlimbs radix value` with zero limbs
    'zero_limbs_1': lambda t: t[1] == '0',
    # c11.u.inv_mod2k_vartime n a k : k > 64 n
    'k_gt_bits': lambda t: int(t[3]) > 64 * int(t[1]),
    # c11.b.from_be_hex xhex prec : len(hex) != 16 * (prec / 64)
    'hex_len_mismatch': lambda t: (len(t[1]) - 1) // 2 != 16 * (int(t[2]) // 64),
}


def _case(c, t, impl, profile, want):
    if t[0] not in c.get('ops', []):
        return False
    if profile not in c.get('profiles', ['release', 'dbgchk']):
        return False
    if _dir(impl, want) != c.get('verdict', 'undocumented-panic'):
        return False
    if 'tok1' in c and (len(t) < 2 or t[1] not in c['tok1']):
        return False
    if 'tok2' in c and (len(t) < 3 or t[2] not in c['tok2']):
        return False
    pred = PRED.get(c.get('pred', 'any'))
    try:
        return bool(pred and pred(t))
    except Exception:
        return False


def c11_panic_class(f, line, impl, profile, want, model_out):
    """generic: some case of f['cases'] matches — a case fixes the op names, the failing-input class
    (`pred`, a predicate on the op line; `tok1` / `tok2`: allowed values of the second / third token), the direction of the
    deviation (`verdict`) and the profile(s) in which it shows"""
    t = line.split()
    return any(_case(c, t, impl, profile, want) for c in f.get('cases', [f]))


def c11_exact(f, line, impl, profile, want, model_out):
    """exact op lines (zero-limb probes): line listed, direction and profile as recorded"""
    ent = f.get('lines', {})
    if line not in ent:
        return False
    profs = ent[line]
    return profile in profs and _dir(impl, want) == f.get('verdict', 'undocumented-panic')


def c11_limb_shift(f, line, impl, profile, want, model_out):
    """Limb::shl/shr and the << >> operators with shift >= 64 are documented to panic; the release build
    shifts by shift mod 64 (C05-limb-shift-overflow seen from C11: the documented panic is missing)"""
    import findings as F
    return profile == 'release' and all(w == 'panic' for w in want) and \
        F.c05_limb_shift_overflow(f, line, impl, 'panic')


def c11_int_from_i128(f, line, impl, profile, want, model_out):
    """Int::<1>::from_i128 outside the i64 range: the refusal its siblings have is missing
    (C16-int-from-i128-truncates seen from C11)"""
    import findings as F
    return F.c16_int_from_i128_truncates(f, line, impl, 'panic') and all(w == 'panic' for w in want)
