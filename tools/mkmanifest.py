#!/usr/bin/env python3
"""Write MANIFEST.json from the table below (kept in one place so it always validates)."""
import json, os
VERIF = os.path.dirname(os.path.dirname(os.path.abspath(__file__)))
props = [json.loads(l) for l in open(os.path.join(VERIF, 'properties.jsonl'))]

# id -> (category, technique, text, note, design_ref)
CLAIMS = {
 'C04': ('proof', 'Lean 4 theorems over a limb-level model (all limb counts, all operands) + differential correspondence of the model against the real crate in two build profiles',
         'Every add/sub/neg primitive and limb chain (adc, sbb, mac, Uint adc/sbb, wrapping/checked/saturating add and sub, carrying_neg, wrapping_neg_if) is modelled as the code computes it and proved equal to the mathematical result with the exact carry/borrow/overflow report, for every limb count and every operand and carry-in. The model is tied to /repo on each run by executing the same operation lines on the crate and on the compiled model.',
         'Trusted: Lean kernel; axioms propext, Classical.choice, Quot.sound and the bv_decide axioms of CB/Lemmas/WordBits.lean; model faithfulness is checked only on the executed lines; only 64-bit limbs modelled.', '§6 C04'),
}

checks = []
for p in props:
    pid = p['id']
    if pid in CLAIMS:
        cat, tech, text, note, ref = CLAIMS[pid]
        checks.append(dict(property_id=pid, quick_cmd=f'./check {pid} --tier quick', thorough_cmd=f'./check {pid} --tier thorough',
                           evidence_file=f'/verif/evidence/{pid}.json', replay_cmd_template=f'./check {pid} --replay {{path}}',
                           engine='lean4-model+harness', level_claimed=dict(category=cat, text=text, design_ref=ref),
                           level_note=note, technique=tech))
na = [dict(property_id=p['id'], reason='not claimed yet: model, theorems and correspondence for this property are still being built (see DESIGN.md §10 order of work)')
      for p in props if p['id'] not in CLAIMS]
m = dict(version=1, setup_cmd='./setup.sh',
         hooks=dict(guard='crypto_bigint_verif', enable='harness/.cargo/config.toml passes --cfg crypto_bigint_verif to rustc for every harness build',
                    baseline_off_cmd='cd /repo && cargo test --workspace --no-fail-fast --offline', source_commits=[], add_only=True),
         engines=[dict(name='lean4-model+harness', path='/verif/tools/runner.py', serves_properties=[c['property_id'] for c in checks],
                       kind_free_text='Lean 4 theorems about a hand-written limb-level model (lean/CB), tied to the code by a differential correspondence run (Rust harness with path dependency on /repo vs compiled Lean driver)')],
         checks=checks, not_applicable=na,
         notes='Single entry point ./check <id> --tier quick|thorough. See DESIGN.md.')
json.dump(m, open(os.path.join(VERIF, 'MANIFEST.json'), 'w'), indent=1)
print('checks:', [c['property_id'] for c in checks])
