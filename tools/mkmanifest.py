#!/usr/bin/env python3
"""Write MANIFEST.json from tools/claims/Cxx.json (one file per claimed property) so it always validates."""
import json, os, glob
VERIF = os.path.dirname(os.path.dirname(os.path.abspath(__file__)))
props = [json.loads(l) for l in open(os.path.join(VERIF, 'properties.jsonl'))]
claims = {}
# a claim file is honoured only once the integrator has seen its check pass in /verif itself
enabled = set(json.load(open(os.path.join(VERIF, 'tools', 'claims', 'enabled.json'))))
for f in sorted(glob.glob(os.path.join(VERIF, 'tools', 'claims', 'C*.json'))):
    c = json.load(open(f))
    if c['property_id'] in enabled:
        claims[c['property_id']] = c
checks = []
for p in props:
    pid = p['id']
    if pid in claims:
        c = claims[pid]
        checks.append(dict(property_id=pid, quick_cmd=f'./check {pid} --tier quick', thorough_cmd=f'./check {pid} --tier thorough',
                           evidence_file=f'/verif/evidence/{pid}.json', replay_cmd_template=f'./check {pid} --replay {{path}}',
                           engine={'C01': 'lean4-leakage-model+lackey-trace', 'C11': 'lean4-checked-twins+two-profile-panic-classes'}.get(pid, 'lean4-model+harness'),
                           level_claimed=dict(category=('proof' if c.get('category', 'proof') == 'partial' else c.get('category', 'proof')),
                                              text=(('PARTIAL (the logic part is proved in Lean for all inputs; the compiled-code/runtime part is observed on the real binary, not proved). ' if c.get('category') == 'partial' else '') + c['text']), design_ref=c.get('design_ref', f'§6 {pid}')),
                           level_note=c['note'], technique=c['technique']))
NA = {}
nap = os.path.join(VERIF, 'tools', 'claims', 'not_applicable.json')
if os.path.exists(nap):
    NA = json.load(open(nap))
na = [dict(property_id=p['id'], reason=NA.get(p['id'], 'not claimed yet: model, theorems and correspondence for this property are still being built (DESIGN.md §10 order of work)'))
      for p in props if p['id'] not in claims]
hooks_commits = []
hp = os.path.join(VERIF, 'tools', 'claims', 'hook_commits.json')
if os.path.exists(hp):
    hooks_commits = json.load(open(hp))
m = dict(version=1, setup_cmd='./setup.sh',
         hooks=dict(guard='crypto_bigint_verif', enable='harness/.cargo/config.toml passes --cfg crypto_bigint_verif to rustc for every harness build',
                    baseline_off_cmd='cd /repo && cargo test --workspace --no-fail-fast --offline', source_commits=hooks_commits, add_only=True),
         engines=[dict(name='lean4-model+harness', path='/verif/tools/runner.py', serves_properties=[c['property_id'] for c in checks if c['property_id'] not in ('C01', 'C11')],
                       kind_free_text='Lean 4 theorems about a hand-written limb-level model (lean/CB) and about definitions regenerated from the source by tools/translate.py (lean/CB/Gen), tied to the code by a differential correspondence run (Rust harness with path dependency on /repo vs compiled Lean driver)'),
                  dict(name='lean4-leakage-model+lackey-trace', path='/verif/tools/check_c01.py', serves_properties=['C01'],
                       kind_free_text='Lean 4 noninterference theorems over a leakage-instrumented model (lean/CB/Model/Leak*.lean), value correspondence of that model through the generic runner, and observation of the opt-level-3 binary under valgrind lackey (instruction-address and data-address traces compared across secret inputs)'),
                  dict(name='lean4-checked-twins+two-profile-panic-classes', path='/verif/tools/check_c11.py', serves_properties=['C11'],
                       kind_free_text='Lean 4 theorems about Except-valued checked twins of the model functions + panic-class comparison of the real crate in two build profiles (release, debug assertions + overflow checks) over the operation lines of every property')],
         checks=checks, not_applicable=na,
         notes='Single entry point ./check <id> --tier quick|thorough. See DESIGN.md.')
json.dump(m, open(os.path.join(VERIF, 'MANIFEST.json'), 'w'), indent=1)
print('checks:', [c['property_id'] for c in checks])
