#!/bin/bash
# covreport.sh — line coverage of /repo/src achieved by the quick-tier correspondence lines of all properties
# (instrumented copy of the harness built with nightly's -C instrument-coverage; scratch under /tmp/cov, removed at the end
# unless KEEP=1). Not part of any registered check: a development tool to find API forms no check executes.
#   tools/covreport.sh [Cxx ...]      -> prints per-file coverage and the list of never-executed functions
set -e
V=$(cd "$(dirname "$0")/.." && pwd)
W=/tmp/cov; mkdir -p $W/prof
T=$(ls -d ~/.rustup/toolchains/nightly-x86_64-unknown-linux-gnu/lib/rustlib/x86_64-unknown-linux-gnu/bin)
PROPS=${@:-C02 C03 C04 C05 C06 C07 C08 C09 C10 C12 C13 C14 C15 C16 C17 C18 C19 C20}
rsync -a --exclude target $V/harness/ $W/harness/
(cd $W/harness && RUSTFLAGS="--cfg crypto_bigint_verif -C instrument-coverage" CARGO_NET_OFFLINE=true cargo +nightly build --offline --release 2>&1 | tail -1)
python3 - $PROPS <<'P'
import sys, os, random, importlib
sys.path.insert(0, os.path.join(os.environ.get('V', '/verif'), 'tools'))
for pid in sys.argv[1:]:
    gmod = importlib.import_module('gen.' + pid.lower()); rng = random.Random(20260929); lines = []
    cpath = f'/verif/corpus/{pid}.txt'
    if os.path.exists(cpath): lines += [l.strip() for l in open(cpath) if l.strip() and not l.startswith('#')]
    lines += list(gmod.gen('quick', rng))
    open(f'/tmp/cov/lines_{pid}.txt', 'w').write('\n'.join(lines) + '\n')
P
for p in $PROPS; do (LLVM_PROFILE_FILE=$W/prof/$p.profraw timeout 1800 $W/harness/target/release/cbh < $W/lines_$p.txt > /dev/null 2>&1) & done; wait
$T/llvm-profdata merge -sparse $W/prof/*.profraw -o $W/all.profdata
$T/llvm-cov report $W/harness/target/release/cbh -instr-profile=$W/all.profdata --ignore-filename-regex='(registry|harness|rustc)' 2>/dev/null | awk 'NR>2 {printf "%-50s fn %5s miss %5s | lines %6s miss %6s %8s\n", $1, $5, $6, $8, $9, $10}'
$T/llvm-cov show $W/harness/target/release/cbh -instr-profile=$W/all.profdata --ignore-filename-regex='(registry|harness|rustc|verif_hooks)' 2>/dev/null > $W/show.txt
python3 - <<'P'
import re
cur=None; unc={}
for l in open('/tmp/cov/show.txt', errors='replace'):
    m=re.match(r'^(/.*\.rs):$', l.strip())
    if m: cur=m.group(1); continue
    m=re.match(r'^\s*(\d+)\|\s*0\|(.*)$', l)
    if m and cur: unc.setdefault(cur,[]).append((int(m.group(1)), m.group(2)))
print('\nnever-executed lines (functions marked):')
for f,ls in sorted(unc.items()):
    print('==',f.replace('/repo/src/',''), len(ls))
    for n,t in ls:
        if re.search(r'\bfn\b', t): print('   fn', n, t.strip()[:130])
P
[ -n "$KEEP" ] || rm -rf $W
