#!/usr/bin/env python3
"""
muteval.py — run checks against a seeded change WITHOUT touching /repo (other work may be building
against it): a private copy of /verif under /tmp/muteval/verif whose harness points at a private git
worktree /tmp/muteval/repo of /repo's HEAD.

  muteval.py <patch.diff> C04 [C11 ...]      apply, run ./check for each property (quick), undo
  muteval.py --clean                          remove the private copies

Prints one line per property: `<pid> rc=<n> <VIOLATION line or ->`.
(For the record in seeded/<id>/meta.json; final confirmation on /repo itself is done separately.)
"""
import os, subprocess, sys, shutil, json
MV = os.environ.get('MUTEVAL_DIR', '/tmp/muteval')
V = os.path.dirname(os.path.dirname(os.path.abspath(__file__)))


def sh(cmd, **kw):
    return subprocess.run(cmd, shell=True, text=True, stdout=subprocess.PIPE, stderr=subprocess.STDOUT, **kw)


def prepare():
    os.makedirs(MV, exist_ok=True)
    if not os.path.exists(f'{MV}/repo/.git'):
        sh(f'git -C /repo worktree prune; git -C /repo worktree add --detach --force {MV}/repo HEAD')
    head = sh('git -C /repo rev-parse HEAD').stdout.strip()
    sh(f'git -C {MV}/repo checkout -q --detach {head}; git -C {MV}/repo reset -q --hard {head}; git -C {MV}/repo clean -fdq -e target')
    sh(f'rsync -a --delete --exclude harness/target --exclude .git --exclude trace/target --exclude replays {V}/ {MV}/verif/')
    p = f'{MV}/verif/harness/Cargo.toml'
    s = open(p).read().replace('path = "/repo"', f'path = "{MV}/repo"')
    open(p, 'w').write(s)
    for extra in ('trace/Cargo.toml',):
        q = f'{MV}/verif/{extra}'
        if os.path.exists(q):
            t = open(q).read().replace('path = "/repo"', f'path = "{MV}/repo"')
            open(q, 'w').write(t)


def main():
    if sys.argv[1] == '--clean':
        sh(f'git -C /repo worktree remove --force {MV}/repo'); shutil.rmtree(MV, ignore_errors=True); return
    patch, props = os.path.abspath(sys.argv[1]), sys.argv[2:]
    prepare()
    r = sh(f'git -C {MV}/repo apply {patch}')
    if r.returncode != 0:
        print('patch does not apply:', r.stdout); sys.exit(2)
    out = {}
    try:
        for pid in props:
            env = dict(os.environ, CB_REPO=f'{MV}/repo')
            r = subprocess.run(['./check', pid, '--tier', 'quick'], cwd=f'{MV}/verif', env=env, text=True,
                               stdout=subprocess.PIPE, stderr=subprocess.DEVNULL)
            vl = [l for l in r.stdout.split('\n') if l.startswith('VIOLATION') or l.startswith('ERROR')]
            print(pid, f'rc={r.returncode}', vl[0] if vl else '-', flush=True)
            out[pid] = dict(rc=r.returncode, line=vl[0] if vl else None)
            if vl and 'replay=' in vl[0]:
                rp = vl[0].split('replay=')[1].split()[0]
                try:
                    j = json.load(open(rp))
                    print("   replay:", str(j.get("line") or j.get("what"))[:200], "| impl", str(j.get("impl"))[:120], "| model", str(j.get("model"))[:120], "| spec", str(j.get("spec"))[:120])
                except Exception:
                    pass
    finally:
        sh(f'git -C {MV}/repo checkout -- . ; git -C {MV}/repo clean -fdq -e target')
    return out


if __name__ == '__main__':
    main()
