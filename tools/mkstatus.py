#!/usr/bin/env python3
"""Regenerate the machine-written blocks of DESIGN.md (between <!-- X-BEGIN --> / <!-- X-END --> markers) from
tools/claims, evidence/, known_findings.json and seeded/*/meta.json, so the document cannot drift from the tree."""
import json, os, re, glob
V = os.path.dirname(os.path.dirname(os.path.abspath(__file__)))


def load(p, d=None):
    try:
        return json.load(open(p))
    except Exception:
        return d


def block_status():
    enabled = set(load(f'{V}/tools/claims/enabled.json', []))
    props = [json.loads(l) for l in open(f'{V}/properties.jsonl')]
    rows = ['| id | claimed | level | theorems (all audited) | `_partial` theorems / hypotheses carried | quick-tier op lines | open findings hit |',
            '|---|---|---|---|---|---|---|']
    for p in props:
        pid = p['id']
        c = load(f'{V}/tools/claims/{pid}.json', {})
        ev = load(f'{V}/evidence/{pid}.json', {})
        cov = ev.get('coverage', {})
        part = cov.get('partial_theorems') or []
        rows.append(f"| {pid} | {'yes' if pid in enabled else 'no'} | {c.get('category', '-') if pid in enabled else '-'} | "
                    f"{cov.get('discharged', '-')}/{cov.get('obligations', '-')} | {', '.join(t.split('.')[-1] for t in part) or '—'} | "
                    f"{cov.get('traces_validated_against_impl', '-')} | {', '.join(sorted((cov.get('known_findings_hit') or {}).keys())) or '—'} |")
    return '\n'.join(rows)


def block_findings():
    k = load(f'{V}/known_findings.json', {})
    out = ['**Repaired in /repo (one `fix:` commit each; the check reports the violation again if the defect returns):**', '']
    seen = set()
    for f in k.get('fixed', []):
        key = (f['commit'], f['what'])
        if f['commit'] in seen and any(f['id'].startswith(x) for x in ('C16-odd', 'C16-nz')):
            continue
        seen.add(f['commit'])
        out.append(f"* `{f['commit']}` ({', '.join(f['properties'])}) {f['what']}")
    out += ['', '**Recorded, not repaired (`known_findings.json` → `findings`; each check prints `KNOWN-FINDING:` for exactly this class and still reports any other disagreement):**', '']
    for f in k.get('findings', []):
        out.append(f"* `{f['id']}` ({', '.join(f['properties'])}) {f['what'][:420]}" + (f" — *why not repaired:* {f['why_not_fixed']}" if f.get('why_not_fixed') else ''))
    return '\n'.join(out)


def block_seeds():
    rows = ['| seed | property | what the change does | needs to manifest | quick checks run → outcome |', '|---|---|---|---|---|']
    n = caught = 0
    for d in sorted(glob.glob(f'{V}/seeded/*/')):
        sid = os.path.basename(d.rstrip('/'))
        m = load(d + 'meta.json', {})
        cr = m.get('checks_run', {})
        if cr:
            n += 1
            caught += 1 if m.get('detected_by') else 0
        def cell(s, k):
            return re.sub(r'\s+', ' ', str(s or '')).replace('|', '/')[:k]
        rows.append(f"| {sid} | {m.get('property', sid.split('-')[0])} | {cell(m.get('title') or m.get('what_it_breaks'), 160)} | {cell(m.get('needs_to_manifest'), 200)} | "
                    + (', '.join(f"{p}: {'VIOLATION' + (' (no-failing-input-found)' if r.get('line') and 'no-failing-input-found' in r['line'] else '') if r['rc'] == 1 else 'missed' if r['rc'] == 0 else 'error'}" for p, r in sorted(cr.items())) or 'not yet run') + ' |')
    return f'{caught} of {n} evaluated seeded changes are reported as VIOLATION by the quick tier of a registered check.\n\n' + '\n'.join(rows)


def main():
    p = f'{V}/DESIGN.md'
    s = open(p).read()
    for name, fn in (('STATUS', block_status), ('FINDINGS', block_findings), ('SEEDS', block_seeds)):
        b, e = f'<!-- {name}-BEGIN -->', f'<!-- {name}-END -->'
        if b in s and e in s:
            s = s[:s.index(b) + len(b)] + '\n' + fn() + '\n' + s[s.index(e):]
    open(p, 'w').write(s)


if __name__ == '__main__':
    main()
