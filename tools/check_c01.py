#!/usr/bin/env python3
"""
check_c01.py — the check of property C01 (secret-independent execution of every operation not
marked vartime).  Same CLI and contract as tools/runner.py:

    check_c01.py C01 --tier quick|thorough [--replay FILE]

Two halves (DESIGN.md §6 C01, notes/C01.md):

 A. proof obligations: `lake build CB.Props.C01` + `#print axioms` audit of every theorem in it
    (noninterference of the leakage model CB.Leak for all limb counts).
 B. binary observation: /verif/trace (crate `cbtrace`) is built UNINSTRUMENTED at opt-level 3 against
    the current /repo tree and run under `valgrind --tool=lackey --trace-mem=yes`.  For every
    (operation, width, assignment of the documented-public parameters) a list of secret operand
    values is executed; the instruction-address sequence (= every control-flow edge) and every
    load/store address between the two marker calls must be identical for all of them.  Hardware
    division: the executed instruction addresses are intersected with the div/idiv instructions of
    the disassembly (see notes/C01.md, "division operands").

A pair of secrets with different traces is a VIOLATION; the replay file names the operation, the two
inputs and the first differing event with its symbolised source location (when the traces part inside libc's
mem* routines: the call site).  `--replay FILE` re-runs exactly that pair in one process.

Known findings (known_findings.json, properties: ["C01"]):
  classifier c01_phi       ops = ["operation" | "operation/limb counts"], phi = abstraction of the secret operands the
                           trace of these operations is known to depend on (atoms: see phi_eval).  The check demands
                           equal traces for all jobs with equal phi — any NEW dependence is still a violation — adds
                           fresh secrets with the same phi to every such group, and prints `KNOWN-FINDING:` when two
                           phi classes really differ.
  classifier c01_div_site  ops + site_re: a hardware div/idiv site (matched on its inlined source frames) that these
                           non-vartime operations are known to execute.  Any other executed division is a violation.
Observer artefacts (valgrind translates `bt reg,reg` through a byte of stack) are filtered by instruction address
before a difference counts (artefact_sites / confirm).

Exit codes: 0 no unlisted violation · 1 VIOLATION line(s) printed · 2 the trace crate does not build against the
tree · 3 machinery error (incomplete lackey run, unknown operation, insensitive observer).
Maintenance switches: --only REGEX, --skip-lean (development), --measure-costs (rewrite trace/costs.json),
C01_IGNORE_FINDINGS=1 (treat every recorded leak as a violation again), C01_MAX_REPLAYS=N.
"""
import argparse, concurrent.futures as cf, hashlib, json, os, random, re, subprocess, sys, time

VERIF = os.path.dirname(os.path.dirname(os.path.abspath(__file__)))
TRACE = os.path.join(VERIF, 'trace')
BIN = os.path.join(TRACE, 'target', 'release', 'cbtrace')
sys.path.insert(0, os.path.join(VERIF, 'tools'))
ENV = dict(os.environ, CARGO_NET_OFFLINE='true')
# every traced process gets the same small environment and argv of fixed length: under valgrind the
# client's initial stack pointer depends on the size of envp/argv, and stack addresses are part of the trace
VG_ENV = {'PATH': '/usr/local/bin:/usr/bin:/bin', 'LC_ALL': 'C', 'RUST_BACKTRACE': '0'}
for _k in ('VALGRIND_LIB', 'LD_LIBRARY_PATH'):
    if _k in os.environ:
        VG_ENV[_k] = os.environ[_k]
PID = 'C01'
NPROC = 16


def log(*a):
    print('[check]', *a, file=sys.stderr, flush=True)


# =========================================================================================
# operation table
# =========================================================================================
# slot kinds (S = secret, P = public = part of the group key)
#   u    S  any value of the width           nz   S  non-zero value
#   l    S  one limb                          nzl  S  non-zero limb
#   bit  S  0/1                               sh   S  shift amount < BITS
#   sha  S  any 32-bit shift amount           k    S  0..=BITS (inv_mod2k)
#   ltm  S  value < modulus (modulus = slot 2)
#   ltc  S  value < fixed constant modulus (ConstMontyForm, P-256 prime)
#   mod  S  modulus operand of add_mod/sub_mod/neg_mod (non-zero; not documented public => secret)
#   omod S  odd modulus treated as secret (inv_odd_mod / MontyParams::new)
#   pmod P  odd modulus, public (Montgomery parameters / vartime)
#   pdiv P  non-zero divisor, public (vartime division)
#   pu   P  any value, public (both operands of a fully vartime comparison)
#   -    unused slot
# public parameter kinds (P[..]):  shift | bitidx | expbits | k
# kind: ct (trace must not depend on S) | vt (same rule; the documented-public operand is P) |
#       control (documented variable-time in a SECRET-typed operand: a difference MUST be seen,
#       it proves the observer is sensitive; never a violation) | free (documented variable-time in a
#       secret-typed operand, but the optimizer may well emit branch-free code: nothing is demanded)

P256 = 0xffffffff00000001000000000000000000000000ffffffffffffffffffffffff

W_SMALL = [1, 2, 4, 8]


def O(name, slots, pubs=(), wq=None, wt=None, kind='ct', lean=None, heavy=1):
    return dict(name=name, slots=list(slots), pubs=list(pubs), wq=wq, wt=wt, kind=kind, lean=lean, heavy=heavy)


OPS = [
    # ---- Limb
    O('limb.ct_eq', 'll', wq=[1], lean='limb_eq_ni'), O('limb.ct_lt', 'll', wq=[1], lean='limb_lt_ni'),
    O('limb.ct_gt', 'll', wq=[1], lean='limb_lt_ni'), O('limb.cmp', 'll', wq=[1]),
    O('limb.cmp_vartime', 'll', wq=[1], kind='free'),
    O('limb.ct_select', ['l', 'l', 'bit'], wq=[1], lean='limb_select_ni'),
    O('limb.adc', ['l', 'l', 'bit'], wq=[1], lean='limb_adc_ni'), O('limb.sbb', ['l', 'l', 'bit'], wq=[1], lean='limb_sbb_ni'),
    O('limb.mac', 'llll', wq=[1], lean='limb_mac_ni'),
    O('limb.wrapping_add', 'll', wq=[1]), O('limb.wrapping_sub', 'll', wq=[1]), O('limb.wrapping_mul', 'll', wq=[1]),
    O('limb.wrapping_neg', 'l', wq=[1]), O('limb.saturating_add', 'll', wq=[1]),
    O('limb.bits', 'l', wq=[1], lean='limb_bits_ni'), O('limb.leading_zeros', 'l', wq=[1], lean='limb_bits_ni'),
    O('limb.trailing_zeros', 'l', wq=[1]), O('limb.trailing_ones', 'l', wq=[1]),
    O('limb.shl', 'l', ['limbshift'], wq=[1]), O('limb.shr', 'l', ['limbshift'], wq=[1]), O('limb.is_odd', 'l', wq=[1]),
    # ---- Uint
    O('uint.ct_eq', 'uu', lean='uint_eq_ni'), O('uint.ct_lt', 'uu', lean='uint_lt_ni'), O('uint.ct_gt', 'uu', lean='uint_gt_ni'),
    O('uint.cmp', 'uu', lean='uint_cmp_ni'), O('uint.eq', 'uu', lean='uint_eq_ni'),
    O('uint.cmp_vartime', 'uu', kind='control', lean='cmp_vartime_leaks'),
    O('uint.ct_select', ['u', 'u', 'bit'], lean='uint_select_ni'), O('uint.is_zero', 'u', lean='uint_is_nonzero_ni'),
    O('uint.adc', ['u', 'u', 'bit'], lean='uint_adc_ni'), O('uint.sbb', ['u', 'u', 'bit'], lean='uint_sbb_ni'),
    O('uint.wrapping_add', 'uu', lean='uint_adc_ni'), O('uint.wrapping_sub', 'uu', lean='uint_sbb_ni'),
    O('uint.saturating_add', 'uu'), O('uint.saturating_sub', 'uu'), O('uint.checked_add', 'uu'), O('uint.checked_sub', 'uu'),
    O('uint.wrapping_neg', 'u', lean='uint_neg_ni'), O('uint.carrying_neg', 'u', lean='uint_neg_ni'),
    O('uint.shl', ['u', 'sh'], wq=[1, 2, 4, 8], lean='uint_shl_ni'), O('uint.shr', ['u', 'sh'], wq=[1, 2, 4, 8], lean='uint_shr_ni'),
    O('uint.wrapping_shl', ['u', 'sha'], lean='uint_shl_ni'), O('uint.wrapping_shr', ['u', 'sha'], lean='uint_shr_ni'),
    O('uint.overflowing_shl', ['u', 'sha'], lean='uint_shl_ni'), O('uint.overflowing_shr', ['u', 'sha'], lean='uint_shr_ni'),
    O('uint.shl_vartime', 'u', ['shift'], kind='vt', lean='shl_vartime_trace_pub'),
    O('uint.shr_vartime', 'u', ['shift'], kind='vt', lean='shr_vartime_trace_pub'),
    O('uint.bits', 'u', lean='uint_bits_ni'), O('uint.bits_vartime', 'u', kind='control', lean='bits_vartime_leaks'),
    O('uint.checked_chain', ['u', 'u', 'u'], wq=[1, 2, 4]),
    O('uint.bits_trait', 'u', wq=[1, 2, 4, 16], lean='uint_bits_ni'), O('uint.cmp_odd', ['u', 'omod'], wq=[1, 2, 4, 16], lean='uint_cmp_ni'),
    O('uint.leading_zeros', 'u', lean='uint_leading_zeros_ni'), O('uint.trailing_zeros', 'u', lean='uint_trailing_zeros_ni'),
    O('uint.trailing_ones', 'u', lean='uint_trailing_zeros_ni'),
    O('uint.bit', ['u', 'sha'], lean='uint_bit_ni'), O('uint.bit_vartime', 'u', ['bitidx'], kind='vt', lean='bit_vartime_trace_pub'),
    O('uint.split_mul', 'uu', wq=[1, 2, 4, 8, 16], lean='uint_mul_ni'), O('uint.wrapping_mul', 'uu', lean='uint_mul_ni'),
    O('uint.checked_mul', 'uu', lean='uint_mul_ni'), O('uint.square_wide', 'u', wq=[1, 2, 4, 8, 16], lean='uint_square_wide_ni'),
    O('uint.div_rem', ['u', 'nz'], wq=[1, 2, 4, 8], lean='uint_div_rem_ni', heavy=4), O('uint.rem', ['u', 'nz'], lean='uint_div_rem_ni', heavy=4),
    O('uint.wrapping_div', ['u', 'nz'], wq=[2, 4], lean='uint_div_rem_ni', heavy=4), O('uint.checked_div', ['u', 'nz'], wq=[2, 4], lean='uint_div_rem_ni', heavy=4),
    O('uint.div_rem_limb', ['u', 'nzl'], lean='uint_div_rem_limb_ni'), O('uint.rem_limb', ['u', 'nzl'], lean='uint_div_rem_limb_ni'),
    O('uint.div_rem_vartime', ['u', 'pdiv'], kind='vt', heavy=2, lean='div_rem_vartime_trace_pub'), O('uint.rem_vartime', ['u', 'pdiv'], kind='vt', heavy=2, lean='div_rem_vartime_trace_pub'),
    O('uint.add_mod', ['ltm', 'ltm', 'mod'], lean='uint_add_mod_ni'), O('uint.sub_mod', ['ltm', 'ltm', 'mod'], lean='uint_sub_mod_ni'),
    O('uint.neg_mod', ['ltm', '-', 'mod'], lean='uint_neg_mod_ni'), O('uint.double_mod', ['ltm', '-', 'mod'], lean='uint_add_mod_ni'),
    O('uint.add_mod_special', ['u', 'u', 'l'], lean='uint_add_mod_special_ni'), O('uint.sub_mod_special', ['u', 'u', 'l'], lean='uint_sub_mod_special_ni'), O('uint.mul_mod_special', ['u', 'u', 'nzl'], lean='uint_mul_mod_special_ni'),
    O('uint.mul_mod', ['u', 'u', 'omod'], wq=[1, 2, 4], heavy=6, lean='uint_mul_mod_ni'),
    O('uint.mul_mod_trait', ['u', 'u', 'nz'], wq=[1, 2, 4], lean='mul_mod_trait_leaks_modulus', heavy=4),
    O('boxed.rem_mixed', ['u', 'nz'], wq=[1, 2, 4], heavy=2),
    O('uint.inv_mod2k', ['u', 'k'], wq=[1, 2, 4], lean='uint_inv_mod2k_ni', heavy=8), O('uint.inv_mod2k_vartime', 'u', ['k'], wq=[1, 2, 4], kind='vt', lean='inv_mod2k_vartime_trace_pub', heavy=4),
    O('uint.inv_odd_mod', ['u', '-', 'omod'], wq=[1, 2, 4], lean='jump_leaks', heavy=8), O('uint.inv_mod', ['u', '-', 'nz'], wq=[1, 2, 4], lean='jump_leaks', heavy=16),
    O('uint.gcd', ['u', 'u'], wq=[1, 2, 4], lean='jump_leaks', heavy=8),
    O('uint.sqrt', 'u', wq=[1, 2, 4], lean='uint_sqrt_ni', heavy=16), O('uint.checked_sqrt', 'u', wq=[1, 2], lean='uint_sqrt_ni', heavy=16),
    O('uint.sqrt_vartime', 'u', wq=[2], wt=[1, 2, 4], kind='control', heavy=4),
    # ---- Montgomery forms (modulus public through the parameters)
    O('monty.params_new', ['-', '-', 'omod'], wq=[1, 2, 4], heavy=8, lean='monty_params_new_ni'),
    O('monty.new', ['u', '-', 'pmod'], wq=[1, 2, 4, 8], lean='monty_mul_ni'), O('monty.retrieve', ['ltm', '-', 'pmod'], lean='montgomery_reduction_ni'),
    O('monty.mul', ['ltm', 'ltm', 'pmod'], wq=[1, 2, 4, 8, 16], lean='monty_mul_ni'), O('monty.square', ['ltm', '-', 'pmod'], wq=[1, 2, 4, 8, 16], lean='monty_square_ni'),
    O('monty.add', ['ltm', 'ltm', 'pmod'], lean='uint_add_mod_ni'), O('monty.sub', ['ltm', 'ltm', 'pmod'], lean='uint_sub_mod_ni'), O('monty.neg', ['ltm', '-', 'pmod'], lean='uint_neg_mod_ni'),
    O('monty.double', ['ltm', '-', 'pmod']), O('monty.div_by_2', ['ltm', '-', 'pmod'], lean='div_by_2_ni'),
    O('monty.pow', ['ltm', 'u', 'pmod'], wq=[1, 2], wt=[1, 2, 4], heavy=30, lean='pow_ni'),
    O('monty.pow_bounded', ['ltm', 'u', 'pmod'], ['expbits'], wq=[2, 4, 8], heavy=10, lean='pow_bounded_exp_trace_pub'),
    O('monty.inv', ['ltm', '-', 'pmod'], wq=[1, 2, 4], lean='jump_leaks', heavy=16),
    O('cmonty.new', ['u'], wq=[4], lean='monty_mul_ni'), O('cmonty.retrieve', ['ltc'], wq=[4], lean='montgomery_reduction_ni'), O('cmonty.mul', ['ltc', 'ltc'], wq=[4], lean='monty_mul_ni'),
    O('cmonty.square', ['ltc'], wq=[4], lean='monty_square_ni'), O('cmonty.add', ['ltc', 'ltc'], wq=[4], lean='uint_add_mod_ni'), O('cmonty.sub', ['ltc', 'ltc'], wq=[4], lean='uint_sub_mod_ni'),
    O('cmonty.neg', ['ltc'], wq=[4], lean='uint_neg_mod_ni'), O('cmonty.pow', ['ltc', 'u'], wq=[4], heavy=30, lean='pow_ni'), O('cmonty.inv', ['ltc'], wq=[4], lean='jump_leaks', heavy=16),
    # ---- Int
    O('int.ct_eq', 'uu'), O('int.ct_lt', 'uu', lean='int_lt_ni'), O('int.ct_gt', 'uu', lean='int_gt_ni'), O('int.cmp', 'uu', lean='int_cmp_ni'), O('int.ct_select', ['u', 'u', 'bit']),
    O('int.wrapping_add', 'uu'), O('int.wrapping_sub', 'uu'), O('int.checked_add', 'uu', lean='int_checked_add_ni'), O('int.checked_sub', 'uu', lean='int_checked_sub_ni'),
    O('int.wrapping_neg', 'u', lean='int_overflowing_neg_ni'), O('int.checked_neg', 'u', lean='int_checked_neg_ni'), O('int.abs_sign', 'u', lean='int_abs_sign_ni'), O('int.is_negative', 'u', lean='int_is_negative_ni'),
    O('int.split_mul', 'uu', lean='int_split_mul_ni'), O('int.checked_mul', 'uu', lean='int_checked_mul_ni'),
    O('int.checked_div_rem', ['u', 'nz'], wq=[1, 2, 4], heavy=4, lean='int_checked_div_rem_ni'), O('int.rem', ['u', 'nz'], wq=[2, 4], heavy=4, lean='int_checked_div_rem_ni'),
    O('int.checked_div_rem_floor', ['u', 'nz'], wq=[2, 4], heavy=4, lean='int_checked_div_rem_floor_ni'), O('int.div_rem_uint', ['u', 'nz'], wq=[2, 4], heavy=4, lean='int_div_rem_uint_ni'),
    O('int.shr', ['u', 'sh'], lean='int_shr_ni'), O('int.shl', ['u', 'sh'], lean='uint_shl_ni'), O('int.shr_vartime', 'u', ['shift'], kind='vt', lean='int_shr_vartime_trace_pub'),
    # ---- BoxedUint
    # mixed precision: the right operand has twice the limb count (public); both VALUES are secret (seed C01-m5: a short-circuit
    # over the excess limbs of the wider operand)
    O('boxed.ct_eq_mixed', ['u', 'uw'], wq=[1, 2, 4]), O('boxed.ct_lt_mixed', ['u', 'uw'], wq=[1, 2, 4]), O('boxed.cmp_mixed', ['u', 'uw'], wq=[1, 2]),
    O('boxed.wrapping_add_mixed', ['u', 'uw'], wq=[1, 2, 4]), O('boxed.wrapping_sub_mixed', ['u', 'uw'], wq=[1, 2]), O('boxed.bitand_mixed', ['u', 'uw'], wq=[1, 2]),
    O('boxed.ct_eq', 'uu', wq=[1, 2, 4, 8], lean='boxed_ct_eq_ni'), O('boxed.ct_lt', 'uu', lean='boxed_ct_lt_ni'), O('boxed.ct_gt', 'uu', lean='boxed_ct_gt_ni'), O('boxed.cmp', 'uu', lean='boxed_cmp_ni'),
    O('boxed.cmp_vartime', 'uu', wq=[4], kind='control'), O('boxed.is_zero', 'u', lean='boxed_is_zero_ni'),
    O('boxed.ct_select', ['u', 'u', 'bit'], lean='boxed_select_ni'), O('boxed.ct_assign', ['u', 'u', 'bit'], lean='boxed_assign_ni'),
    O('boxed.ct_swap', ['u', 'u', 'bit'], lean='boxed_swap_ni'),
    O('boxed.adc', ['u', 'u', 'bit'], lean='uint_adc_ni'), O('boxed.sbb', ['u', 'u', 'bit'], lean='uint_sbb_ni'),
    O('boxed.wrapping_add', 'uu', lean='boxed_adc_ni'), O('boxed.wrapping_sub', 'uu', lean='boxed_sbb_ni'), O('boxed.wrapping_neg', 'u', lean='boxed_wrapping_neg_ni'),
    O('boxed.mul', 'uu', wq=[1, 2, 4, 8, 16], lean='boxed_mul_ni'), O('boxed.wrapping_mul', 'uu', lean='boxed_wrapping_mul_ni'), O('boxed.square', 'u', wq=[1, 2, 4, 8, 16], lean='boxed_square_ni'),
    O('boxed.shl', ['u', 'sh'], lean='boxed_shl_feeds_secret_to_div'), O('boxed.shr', ['u', 'sh'], lean='boxed_shl_feeds_secret_to_div'), O('boxed.overflowing_shl', ['u', 'sha'], lean='boxed_shl_feeds_secret_to_div'),
    O('boxed.shl_vartime', 'u', ['shift'], kind='vt'), O('boxed.shr_vartime', 'u', ['shift'], kind='vt', lean='boxed_shr_vartime_trace_pub'),
    O('boxed.bits', 'u', lean='boxed_bits_ni'), O('boxed.bits_vartime', 'u', wq=[4], kind='control'), O('boxed.leading_zeros', 'u', lean='boxed_leading_zeros_ni'), O('boxed.trailing_zeros', 'u', lean='boxed_trailing_zeros_ni'),
    O('boxed.bit', ['u', 'sha'], lean='boxed_bit_ni'),
    O('boxed.div_rem', ['u', 'nz'], wq=[1, 2, 4, 8], heavy=4), O('boxed.rem', ['u', 'nz'], wq=[2, 4], heavy=4),
    O('boxed.div_rem_vartime', ['u', 'pdiv'], wq=[2, 4], kind='vt', heavy=2), O('boxed.div_rem_limb', ['u', 'nzl']),
    O('boxed.add_mod', ['ltm', 'ltm', 'mod'], lean='boxed_add_mod_ni'), O('boxed.sub_mod', ['ltm', 'ltm', 'mod'], lean='boxed_sub_mod_ni'), O('boxed.neg_mod', ['ltm', '-', 'mod'], lean='boxed_neg_mod_ni'),
    O('boxed.mul_mod', ['u', 'u', 'omod'], wq=[1, 2, 4], heavy=6),
    O('boxed.inv_mod2k', ['u', 'k'], wq=[1, 2], wt=[1, 2, 4], heavy=8, lean='boxed_inv_mod2k_ni'),
    O('boxed.inv_odd_mod', ['u', '-', 'omod'], wq=[1, 2, 4], heavy=8), O('boxed.inv_mod', ['u', '-', 'nz'], wq=[1, 2], wt=[1, 2, 4], heavy=16),
    O('boxed.sqrt', 'u', wq=[1, 2, 4], heavy=16), O('boxed.gcd', 'uu', wq=[1, 2, 4], heavy=8),
    # ---- BoxedMontyForm
    O('bmonty.new', ['u', '-', 'pmod'], wq=[1, 2, 4, 8]), O('bmonty.retrieve', ['ltm', '-', 'pmod'], wq=[1, 2, 4, 8]),
    O('bmonty.mul', ['ltm', 'ltm', 'pmod'], wq=[1, 2, 4, 8, 16]), O('bmonty.square', ['ltm', '-', 'pmod'], wq=[1, 2, 4, 8, 16]),
    O('bmonty.add', ['ltm', 'ltm', 'pmod']), O('bmonty.sub', ['ltm', 'ltm', 'pmod']), O('bmonty.neg', ['ltm', '-', 'pmod']),
    O('bmonty.pow', ['ltm', 'u', 'pmod'], wq=[1, 2], wt=[1, 2, 4], heavy=30, lean='pow_ni'),
    O('bmonty.pow_bounded', ['ltm', 'u', 'pmod'], ['expbits'], wq=[2, 4, 8], heavy=10, lean='pow_bounded_exp_trace_pub'),
    O('bmonty.invert', ['ltm', '-', 'pmod'], wq=[1, 2, 4], heavy=16),
]
OPS_BY_NAME = {o['name']: o for o in OPS}
SECRET_KINDS = {'u', 'uw', 'nz', 'l', 'nzl', 'bit', 'sh', 'sha', 'k', 'ltm', 'ltc', 'mod', 'omod'}
PUBLIC_KINDS = {'pmod', 'pdiv', 'pu'}


def binop(name):
    """name of the wrapper in the trace binary ("x/pub" variants share the wrapper of "x")"""
    return name.split('/')[0]


# =========================================================================================
# secret / public value families (the property's list)
# =========================================================================================

def specials(kind, w, mod=None):
    if kind == 'uw':          # an operand of TWICE the limb count (mixed-precision boxed forms)
        return specials('u', 2 * w)
    bits = 64 * w
    mx = (1 << bits) - 1
    if kind in ('u', 'nz', 'pu', 'pdiv'):
        v = [0, mx, 1, 1 << (bits - 1), (1 << 63), (1 << 64) - 1 if w > 1 else (1 << 32) - 1,
             1 << (64 * (w // 2)) if w > 1 else 1 << 32, (1 << (64 * ((w + 1) // 2))) - 1, mx - 1, 2,
             (1 << (bits - 1)) - 1, 1 << (bits - 64) if w > 1 else 1 << 16, 0x5555555555555555 * (((1 << bits) - 1) // ((1 << 64) - 1))]
        v = [x & mx for x in v]
        if kind in ('nz', 'pdiv'):
            v = [x if x else 3 for x in v]
        return v
    if kind in ('l', 'nzl'):
        v = [0, (1 << 64) - 1, 1, 1 << 63, 1 << 32, (1 << 32) - 1, 2, (1 << 63) - 1, 0xaaaaaaaaaaaaaaaa]
        return [x if x or kind == 'l' else 5 for x in v]
    if kind == 'bit':
        return [0, 1]
    if kind == 'sh':
        return sorted({0, 1, 63 % bits, 64 % bits, bits - 1, bits // 2, (bits - 64) % bits, 65 % bits, 7})
    if kind == 'sha':
        return [0, 1, 63, 64, bits - 1, bits, bits + 1, 2 * bits, (1 << 32) - 1, 1 << 31, bits // 2]
    if kind == 'k':
        return [0, 1, 63, 64, bits, bits - 1, bits // 2, 2, 65 if bits > 64 else 33]
    if kind in ('mod', 'omod', 'pmod'):
        v = [mx, (1 << (bits - 1)) + 1, 3, (1 << 64) + 1 if w > 1 else (1 << 32) + 1, mx - 2, (1 << (bits - 1)) - 1, 0xd, (1 << (bits - 1)) + 3]
        if kind == 'mod':
            v += [2, 1 << (bits - 1), mx - 1]
        return [x & mx for x in v]
    if kind in ('ltm', 'ltc'):
        m = mod
        return [0, m - 1, 1 % m, m >> 1, (m >> 1) + 1, (m - 2) % m, (1 << 64) % m, ((1 << 64) - 1) % m]
    raise KeyError(kind)


def rnd(kind, w, rng, mod=None):
    if kind == 'uw':
        return rnd('u', 2 * w, rng)
    bits = 64 * w
    if kind in ('u', 'pu'):
        return rng.getrandbits(bits) >> rng.choice([0, 0, 0, rng.randrange(bits)])
    if kind in ('nz', 'pdiv'):
        return (rng.getrandbits(bits) >> rng.choice([0, 0, rng.randrange(bits)])) or 1
    if kind == 'l':
        return rng.getrandbits(64)
    if kind == 'nzl':
        return (rng.getrandbits(64) >> rng.choice([0, 0, rng.randrange(64)])) or 1
    if kind == 'bit':
        return rng.getrandbits(1)
    if kind == 'sh':
        return rng.randrange(bits)
    if kind == 'sha':
        return rng.randrange(2 * bits)
    if kind == 'k':
        return rng.randrange(bits + 1)
    if kind == 'mod':
        return (rng.getrandbits(bits) >> rng.choice([0, 0, rng.randrange(bits - 1)])) | 2
    if kind in ('omod', 'pmod'):
        return (rng.getrandbits(bits) >> rng.choice([0, 0, rng.randrange(bits - 1)])) | 3
    if kind in ('ltm', 'ltc'):
        return rng.getrandbits(bits + 8) % mod
    raise KeyError(kind)


def pub_values(kind, w, tier, rng):
    bits = 64 * w
    if kind == 'limbshift':
        return [0, 1, 63] if tier == 'quick' else [0, 1, 31, 32, 63]
    if kind == 'shift':
        q = sorted({0, 1, 64 % bits, bits - 1})
        return q if tier == 'quick' else sorted(set(q) | {63 % bits, 65 % bits, bits // 2, rng.randrange(bits)})
    if kind == 'bitidx':
        return sorted({0, bits - 1}) if tier == 'quick' else sorted({0, 63, 64 % bits, bits - 1, rng.randrange(bits)})
    if kind == 'expbits':
        return [5, 16] if tier == 'quick' else [0, 1, 4, 5, 16, 64, min(bits, 130)]
    if kind == 'k':
        return sorted({0, 1, 64 % (bits + 1), bits}) if tier == 'quick' else sorted({0, 1, 63, 64 % (bits + 1), bits // 2, bits})
    raise KeyError(kind)


def public_slot_values(kind, w, tier, rng):
    sp = specials(kind, w)
    if kind == 'pmod':
        base = [sp[0], sp[1]] + [rnd('pmod', w, rng) | (1 << (64 * w - 1))]
        if tier != 'quick':
            base += [sp[2], sp[3], sp[5], rnd('pmod', w, rng)]
        return list(dict.fromkeys(base))
    if kind == 'pdiv':
        base = [sp[1], sp[5] or 3, rnd('pdiv', w, rng)]
        if tier != 'quick':
            base += [3, sp[3], rnd('pdiv', w, rng), rnd('pdiv', w, rng)]
        return list(dict.fromkeys(base))
    if kind == 'pu':
        return [sp[1], rnd('pu', w, rng)] if tier == 'quick' else [sp[0], sp[1], sp[3], rnd('pu', w, rng), rnd('pu', w, rng)]
    raise KeyError(kind)


def gen_groups(tier, rng, only=None, registry=None, findings=()):
    """-> list of groups: dict(op, width, pubs(tuple), pslots{idx:val}, jobs=[slot value lists])"""
    nsec = 8 if tier == 'quick' else 64
    groups = []
    for op in OPS:
        if only and not any(re.fullmatch(x, op['name']) for x in only):
            continue
        widths = op['wq'] or W_SMALL
        if tier != 'quick':
            widths = op['wt'] or sorted(set(widths) | {w for (n, w) in registry if n == binop(op['name'])})
        widths = [w for w in widths if (binop(op['name']), w) in registry]
        for w in widths:
            # public parameter assignments
            plists = [pub_values(k, w, tier, rng) for k in op['pubs']]
            passign = [()]
            for pl in plists:
                passign = [a + (v,) for a in passign for v in pl]
            pslot_idx = [i for i, k in enumerate(op['slots']) if k in PUBLIC_KINDS]
            pslot_assign = [{}]
            for i in pslot_idx:
                vals = public_slot_values(op['slots'][i], w, tier, rng)
                pslot_assign = [{**a, i: v} for a in pslot_assign for v in vals]
            n = nsec if op['heavy'] < 16 or tier == 'quick' else max(16, nsec // 2)
            if is_total(finding_for(findings, op['name'], w), op):
                n = 3 if tier == 'quick' else 6      # the recorded dependence is on the whole value: only witness it
            for pa in passign:
                for ps in pslot_assign:
                    jobs = gen_secrets(op, w, ps, n, rng)
                    groups.append(dict(op=op['name'], width=w, pubs=pa, pslots=ps, jobs=jobs))
    return groups


def addback_dividend(d, w, rng, tries=400):
    """A dividend whose Knuth division by `d` (w limbs) takes the rare masked add-back (quotient estimate one too large
    after both div3by2 corrections): n = q * (d with its low limbs zeroed) * B^j + small.  None if none is found."""
    W = (1 << 64) - 1
    dl = (d.bit_length() + 63) // 64
    if w < 3 or dl < 3:
        return None
    top = (d >> (64 * (dl - 2))) << (64 * (dl - 2))
    for _ in range(tries):
        q = rng.choice([W, rng.getrandbits(64), (1 << 63) + rng.getrandbits(8), 1 + rng.getrandbits(3)])
        j = rng.randrange(0, w - dl + 1)
        n = ((q * top << (64 * j)) + rng.getrandbits(rng.choice([1, 8, 64, 120]))) & ((1 << (64 * w)) - 1)
        tr = div_transcript(n, d, w, with_addback=True)
        if any(isinstance(t, tuple) and t[-1] for t in tr[1:]):
            return n
    return None


def addback_job(op, w, pslots, rng):
    """[dividend, divisor] with an add-back digit, for the operations that run the Knuth loop on two operands."""
    kinds = op['slots']
    if len(kinds) != 2 or kinds[0] != 'u' or kinds[1] not in ('nz', 'pdiv') or w < 3:
        return None
    W = (1 << 64) - 1
    if kinds[1] == 'pdiv':
        d = pslots[1]
    else:
        hi = rng.choice([(1 << 63, 0), (W, W - 1), (rng.getrandbits(64) | (1 << 63), 0)])
        d = (hi[0] << 128) | (hi[1] << 64) | W          # three significant limbs, all-ones below the two top limbs
        if op['name'].startswith('int.'):
            d >>= 1                                      # keep the divisor a positive Int
    n = addback_dividend(d, w, rng)
    if n is None:
        return None
    if op['name'].startswith('int.') and n >> (64 * w - 1):
        n >>= 1
        if not any(isinstance(t, tuple) and t[-1] for t in div_transcript(n, d, w, with_addback=True)[1:]):
            return None
    return [n, d]


def gen_secrets(op, w, pslots, n, rng):
    kinds = op['slots']
    jobs = []
    seen = set()
    ab = addback_job(op, w, pslots, rng)
    if ab is not None:
        # directed: the masked add-back of the Knuth loop must not show in the trace (phi-equal partners of this job are
        # added by the fresh-secret sampling of the finding's abstraction class)
        jobs.append(ab)
        seen.add(tuple(ab))
    nspec = max(n * 3 // 4, 6)
    i = 0
    guard = 0
    any_secret = any(k in SECRET_KINDS for k in kinds)
    while len(jobs) < (n if any_secret else 1) and guard < 50 * n:
        guard += 1
        vals = [0] * len(kinds)
        # moduli / public slots first (ltm depends on them)
        for j, k in enumerate(kinds):
            if k in PUBLIC_KINDS:
                vals[j] = pslots[j]
            elif k in ('mod', 'omod'):
                sp = specials(k, w)
                vals[j] = sp[(i // 2) % len(sp)] if i < nspec else rnd(k, w, rng)
        for j, k in enumerate(kinds):
            if k in PUBLIC_KINDS or k in ('mod', 'omod', '-'):
                continue
            mod = None
            if k == 'ltm':
                mod = vals[2]
            elif k == 'ltc':
                mod = P256
            sp = specials(k, w, mod)
            if i < nspec:
                vals[j] = sp[(i + 3 * j + (i // len(sp)) * (j + 1)) % len(sp)]
            else:
                vals[j] = rnd(k, w, rng, mod)
        # equal operands every fourth assignment (when two like-kinded secret operands exist)
        if i % 4 == 3 and len(kinds) >= 2 and kinds[0] == kinds[1] and kinds[0] in ('u', 'l', 'ltm', 'ltc'):
            vals[1] = vals[0]
        i += 1
        key = tuple(vals)
        if key in seen:
            continue
        seen.add(key)
        jobs.append(vals)
    return jobs


# =========================================================================================
# known findings (phi abstractions)
# =========================================================================================

def bitlen(x):
    return x.bit_length()


def phi_eval(spec, vals, width):
    """spec: comma separated atoms; atom = bitlen:<slot> | limbs:<slot> | value:<slot> | iszero:<slot> |
    sub64:<slot> (bit length mod 64 is zero?) | tz:<slot> (trailing zeros)"""
    out = []
    for atom in spec.split(','):
        atom = atom.strip()
        if not atom:
            continue
        f, s, *more = atom.split(':')
        if int(s) >= len(vals):
            continue            # the operation has no such operand (one finding may name several operations)
        v = vals[int(s)]
        if f == 'divtr':        # decisions of the Knuth division  vals[s] / vals[more[0]]  (see div_transcript)
            out.append(div_transcript(v, vals[int(more[0])], width))
        elif f == 'idivtr':     # the same on the magnitudes of two's complement operands
            out.append(div_transcript(int_abs(v, width), int_abs(vals[int(more[0])], width), width))
        elif f == 'idivtru':    # signed dividend, unsigned divisor
            out.append(div_transcript(int_abs(v, width), vals[int(more[0])], width))
        elif f == 'bitlen':
            out.append(bitlen(v))
        elif f == 'limbs':
            out.append((bitlen(v) + 63) // 64)
        elif f == 'value':
            out.append(v)
        elif f == 'iszero':
            out.append(v == 0)
        elif f == 'aligned':
            out.append(bitlen(v) % 64 == 0)
        elif f == 'tz':
            out.append((v & -v).bit_length() - 1 if v else 64 * width)
        elif f == 'absbitlen':   # two's complement magnitude bit length (Int operands)
            bits = 64 * width
            a = v if v < (1 << (bits - 1)) else (1 << bits) - v
            out.append(bitlen(a))
        elif f == 'sqrttr':      # division transcripts of the fixed-round Newton iteration of Uint::sqrt
            out.append(sqrt_transcript(v, width))
        else:
            raise KeyError(atom)
    return tuple(out)


def int_abs(v, width):
    bits = 64 * width
    return v if v < (1 << (bits - 1)) else (1 << bits) - v


W64 = (1 << 64) - 1


def div_transcript(n, d, width, with_addback=False):
    """Mirror of Uint::div_rem / BoxedUint::div_rem_unchecked (src/uint/div.rs:42-130, src/uint/boxed/div.rs:134-235)
    on exact integers, recording every decision that the opt-level-3 build was seen to turn from a mask into a
    conditional jump: the bit length of the divisor (dwords, lshift = 0?), and per quotient digit the flags of
    div3by2 (src/uint/div_limb.rs:154-189): q_maxed, and for both correction rounds `rem_hi != 0`, `qy <= rx`.
    The borrow that triggers the masked add-back (`ct_borrow`, about 2/2^64 per digit) is NOT part of the abstraction:
    the optimized build of the unchanged tree keeps it a mask (checked with directed add-back dividends, see
    `addback_dividend`), so a trace that depends on it is a violation (seeded change C01-m2).  `with_addback=True`
    appends it to each digit's flags — used only to CONSTRUCT add-back inputs.
    (div2by1 is exact floor division given a correct reciprocal.)"""
    if width == 1 or d == 0:
        return ('limb', d.bit_length() == 64)
    L = width
    dbits = d.bit_length()
    dwords = (dbits + 63) // 64
    lshift = (64 - dbits % 64) % 64
    yv = (d << (64 * L - dbits)) & ((1 << (64 * L)) - 1)
    y = [(yv >> (64 * i)) & W64 for i in range(L)]
    xs = n << lshift
    x = [(xs >> (64 * i)) & W64 for i in range(L)]
    x_hi = xs >> (64 * L)
    x_lo = x[L - 1]
    d1, v0 = y[L - 1], y[L - 2]
    tr = [dbits]
    xi = L - 1
    while xi > 0:
        u2, u1, u0 = x_hi, x_lo, x[xi - 1]
        maxed = u2 == d1
        quo, rem = divmod(((0 if maxed else u2) << 64) | u1, d1)
        if maxed:
            quo, rem = W64, u2 + u1
        flags = [maxed]
        for _ in range(2):
            qy = quo * v0
            rx = ((rem << 64) & ((1 << 128) - 1)) | u0
            hi = (rem >> 64) != 0
            le = qy <= rx
            flags += [hi, le]
            if not (hi or le):
                quo = (quo - 1) & W64
                rem += d1
        done = xi < dwords - 1
        if done:
            quo = 0
        # subtract quo * y[L-xi-1 ..] from x[0..=xi], x_hi
        carry = borrow = 0
        for i in range(xi + 1):
            t = y[L - xi + i - 1] * quo + carry
            tmp, carry = t & W64, t >> 64
            r = x[i] - tmp - borrow
            x[i], borrow = r & W64, 1 if r < 0 else 0
        r = x_hi - carry - borrow
        borrow = 1 if r < 0 else 0
        if with_addback:
            flags.append(bool(borrow))
        if borrow:
            carry = 0
            for i in range(xi + 1):
                t = x[i] + y[L - xi + i - 1] + carry
                x[i], carry = t & W64, t >> 64
            quo = max(quo - 1, 0)
        if not done:
            x_hi, x[xi], x_lo = x[xi], quo, x[xi - 1]
        tr.append(tuple(flags))
        xi -= 1
    return tuple(tr)


def sqrt_transcript(n, width):
    """Uint::sqrt / BoxedUint::sqrt (src/uint/sqrt.rs): x0 = 1 << ((bits(n)+1)>>1); LOG2_BITS+2 rounds of
    q = n / (x or 1); x = (x + q) >> 1 (0 stays 0).  Every round is one constant-time division by the current
    iterate: the trace is a function of the division transcripts."""
    bits = 64 * width
    mask = (1 << bits) - 1
    x = (1 << ((n.bit_length() + 1) >> 1)) & mask
    out = []
    for _ in range(bits.bit_length() - 1 + 2):
        d = x if x else 1
        out.append(div_transcript(n, d, width))
        q = n // d
        x = (((x + q) & mask) >> 1) if x else 0
    return tuple(out)


def is_total(f, op):
    """the recorded abstraction names the complete value of every secret operand: nothing is left to compare"""
    if not f:
        return False
    named = {int(a.split(':')[1]) for a in f['phi'].split(',') if a.strip().startswith('value:')}
    return all(j in named for j, k in enumerate(op['slots']) if k in SECRET_KINDS)


ESCAPE = re.compile(r'Sec\.(rec|recOn|casesOn|mk|reveal|v|noConfusion|sizeOf)\b|\.reveal\b|\bcasesOn\b|\brecOn\b|\.rec\b|\bnoConfusion\b|\bsizeOf\b|\bunsafeCast\b|\bcast\b|▸|\bopaque\b|\binstance\b')


def model_escapes():
    """CB/Model/LeakOps.lean must not get around the privacy of `Sec` (private constructor/field are enforced by
    Lean; the auto-generated recursors are not) — a textual audit of the only file that defines model algorithms"""
    import runner
    path = os.path.join(VERIF, 'lean', 'CB', 'Model', 'LeakOps.lean')
    if not os.path.exists(path):
        return ['CB/Model/LeakOps.lean missing']
    src = runner.strip_comments(open(path).read())
    out = sorted({m.group(0) for m in ESCAPE.finditer(src)})
    if not re.search(r'^import CB\.Model\.Leak\s*$', src, re.M) or len(re.findall(r'^import ', src, re.M)) != 1:
        out.append('imports other than CB.Model.Leak')
    return out


def load_findings():
    p = os.path.join(VERIF, 'known_findings.json')
    if not os.path.exists(p) or os.environ.get('C01_IGNORE_FINDINGS'):
        return []       # (the environment switch only makes the check stricter: every recorded leak is a violation again)
    return [f for f in json.load(open(p)).get('findings', []) if PID in f.get('properties', [])]


def div_finding_for(findings, op, site):
    src = ' <- '.join(site.get('source') or [])
    for f in findings:
        if f.get('classifier') == 'c01_div_site' and op in f.get('ops', []) and re.search(f['site_re'], src):
            return f
    return None


def finding_for(findings, op, width):
    """`ops` entries: "name" (all limb counts, or those of the finding's `widths`) or "name/4,8" (these limb counts)"""
    for f in findings:
        if f.get('classifier') != 'c01_phi':
            continue
        for o in f.get('ops', []):
            name, _, ws = o.partition('/')
            if name != op:
                continue
            wl = [int(x) for x in ws.split(',')] if ws else f.get('widths')
            if not wl or width in wl:
                return f
    return None


def resample_same_phi(op, w, vals, spec, rng):
    """a fresh secret assignment with the same phi: every secret slot is re-randomised (same bit length for the
    operands phi talks about, since every recorded dependence includes it), accepted when phi is unchanged
    (rejection sampling; falls back to `vals`)"""
    kinds = op['slots']
    named = set()
    for atom in spec.split(','):
        parts = atom.strip().split(':')
        named.update(int(x) for x in parts[1:] if int(x) < len(kinds))
    want = phi_eval(spec, vals, w)
    bits = 64 * w
    for _ in range(24):
        new = list(vals)
        for j, k in enumerate(kinds):
            if k in PUBLIC_KINDS or k == '-' or k in ('mod', 'omod'):
                continue        # moduli stay (ltm operands depend on them)
            mod = new[2] if k == 'ltm' else P256 if k == 'ltc' else None
            if j in named:
                v = vals[j]
                neg = k == 'u' and 'idivtr' in spec and v >= (1 << (bits - 1))
                a = int_abs(v, w) if neg else v
                bl = bitlen(a)
                if bl <= 1:
                    c = a
                else:
                    r = rng.random()
                    c = ((1 << (bl - 1)) | rng.getrandbits(bl - 1)) if r < 0.7 else ((1 << (bl - 1)) | rng.getrandbits(min(8, bl - 1))) if r < 0.85 else ((1 << bl) - 1 - rng.getrandbits(min(8, bl - 1)))
                if mod is not None:
                    c = c % mod
                new[j] = ((1 << bits) - c) & ((1 << bits) - 1) if neg else c
            else:
                new[j] = rnd(k, w, rng, mod) if rng.random() < 0.7 else rng.choice(specials(k, w, mod))
        if phi_eval(spec, new, w) == want and new != list(vals):
            return new
    return list(vals)


# =========================================================================================
# running lackey
# =========================================================================================

_REGIDX = {}


def fmt_job(g, vals):
    pubs = ','.join(str(p) for p in g['pubs']) if g['pubs'] else '-'
    name = binop(g['op'])
    i = _REGIDX.get((name, g['width']))
    return f"{name}{'' if i is None else '@%d' % i} {g['width']} {pubs} " + ' '.join('%x' % v for v in vals)


def calibrate():
    """run-time addresses of the markers under valgrind + static symbol addresses"""
    tmp = os.path.join(workdir(), 'calib.txt')
    open(tmp, 'w').write('')
    p = subprocess.run(['valgrind', '--tool=none', '-q', BIN, tmp], stdout=subprocess.PIPE, stderr=subprocess.PIPE, text=True, env=VG_ENV)
    m = re.search(r'markers ([0-9a-f]+) ([0-9a-f]+) ([0-9a-f]+)', p.stdout)
    if not m:
        raise RuntimeError('calibration failed: ' + p.stdout + p.stderr)
    beg, end, reg = (int(x, 16) for x in m.groups())
    nm = subprocess.run(['nm', BIN], stdout=subprocess.PIPE, text=True).stdout
    sm = re.search(r'^([0-9a-f]+) \w c01_marker_begin$', nm, re.M)
    base = beg - int(sm.group(1), 16)
    return dict(beg=beg, end=end, base=base)


_WORK = None


def workdir():
    global _WORK
    if _WORK is None:
        root = '/dev/shm' if os.path.isdir('/dev/shm') and os.access('/dev/shm', os.W_OK) else os.path.join(TRACE, 'target')
        _WORK = os.path.join(root, 'c01-%08d' % (os.getpid() % 100000000))
        os.makedirs(_WORK, exist_ok=True)
        import atexit, shutil
        atexit.register(shutil.rmtree, _WORK, ignore_errors=True)
    return _WORK


def run_batch(arg):
    """one lackey process over a job file; -> list of (digest, nlines, distinct_instr or None)"""
    jobfile, njobs, beg, end, capture = arg
    t_start = time.time()
    BEG = b'I  %08x,' % beg
    END = b'I  %08x,' % end
    outpath = jobfile + '.out'
    logpath = jobfile + '.log'
    with open(outpath, 'wb') as so:
        # lackey issues one write() per event line: into a pipe that is a context-switch storm (minutes of
        # system time), into a tmpfs file it is cheap (~1.7 M lines/s).  So: log file, parse, delete.
        p = subprocess.run(['valgrind', '--tool=lackey', '--trace-mem=yes', '--log-file=' + logpath, BIN, jobfile],
                           stdout=so, stderr=subprocess.DEVNULL, env=VG_ENV)
    t_vg = time.time() - t_start
    logbytes = os.path.getsize(logpath)
    if True:
        lf = open(logpath, 'rb')
        res = []
        inside = False
        h = None
        nl = 0
        keep = None
        idx = 0
        tail = b''
        eof = False
        while not eof:
            b = lf.read(1 << 22)
            if not b:
                eof = True
            data = tail + b
            if not eof:
                cut = data.rfind(b'\n') + 1
                chunk, tail = data[:cut], data[cut:]
            else:
                chunk, tail = data, b''
            pos = 0
            while True:
                if not inside:
                    i = chunk.find(BEG, pos)
                    if i < 0:
                        break
                    inside = True
                    h = hashlib.blake2b(digest_size=16)
                    nl = 0
                    keep = set() if idx in capture else None
                    pos = i
                else:
                    j = chunk.find(END, pos)
                    seg = chunk[pos:] if j < 0 else chunk[pos:j]
                    h.update(seg)
                    nl += seg.count(b'\n')
                    if keep is not None:
                        keep.update(re.findall(rb'^I  ([0-9a-f]+),', seg, re.M))
                    if j < 0:
                        break
                    distinct = sorted(int(x, 16) for x in keep) if keep is not None else None
                    res.append((h.hexdigest(), nl, distinct))
                    idx += 1
                    inside = False
                    pos = j + 1
        lf.close()
        os.unlink(logpath)
    outs = open(outpath, 'rb').read().decode(errors='replace').split('\n')
    outl = [l for l in outs if l.startswith('out ')]
    return res, outl, p.returncode, (time.time() - t_start, t_vg, logbytes)


_ARTE = None


def artefact_sites():
    """static addresses of instructions whose data events under valgrind are artefacts of the VEX translation,
    not accesses of the program: `bt/bts/btr/btc <bit>,<REGISTER>` is translated by spilling the register to a
    scratch area below the stack pointer and addressing ONE BYTE of it at offset (bit mod 64)/8 — the real
    instruction touches no memory at all.  Data events of these instructions are dropped before comparing."""
    global _ARTE
    if _ARTE is None:
        p = subprocess.run(['objdump', '-d', '--no-show-raw-insn', BIN], stdout=subprocess.PIPE, text=True)
        _ARTE = {}
        for l in p.stdout.split('\n'):
            m = re.match(r'\s*([0-9a-f]+):\s+(bt[src]?[wlq]?)\s+(\S+),(%\w+)\s*$', l)
            if m:
                _ARTE[int(m.group(1), 16)] = f'{m.group(2)} {m.group(3)},{m.group(4)}'
    return _ARTE


def filter_region(lines, cal):
    """drop the data events of artefact instructions (see artefact_sites); -> (lines, dropped)"""
    arte = artefact_sites()
    out = []
    skip = False
    dropped = 0
    for l in lines:
        if l.startswith('I'):
            skip = (int(l[3:l.index(',')], 16) - cal['base']) in arte
            out.append(l)
        elif skip:
            dropped += 1
        else:
            out.append(l)
    return out, dropped


def capture_regions(lines, cal):
    """run the given job lines in ONE process; -> the (artefact-filtered) region of each as a list of event lines"""
    jf = os.path.join(workdir(), 'pair-%09d.txt' % (time.time_ns() % 10 ** 9))
    open(jf, 'w').write('\n'.join(lines) + '\n')
    subprocess.run(['valgrind', '--tool=lackey', '--trace-mem=yes', '--log-file=' + jf + '.log', BIN, jf],
                   stdout=subprocess.DEVNULL, stderr=subprocess.DEVNULL, env=VG_ENV)
    data = open(jf + '.log', 'rb').read()
    os.unlink(jf + '.log')
    os.unlink(jf)
    BEG = b'I  %08x,' % cal['beg']
    END = b'I  %08x,' % cal['end']
    regs = []
    pos = 0
    while True:
        b = data.find(BEG, pos)
        if b < 0:
            break
        e = data.find(END, b)
        if e < 0:
            break
        regs.append(filter_region(data[b:e].decode().split('\n'), cal)[0])
        pos = e + 1
    return regs


def symbolize(addrs, cal):
    """static addresses -> 'function at file:line (inlined from ...)'"""
    if not addrs:
        return {}
    inp = '\n'.join('0x%x' % (a - cal['base']) for a in addrs) + '\n'
    try:
        p = subprocess.run(['llvm-symbolizer', '--obj=' + BIN, '--inlines', '--functions=linkage', '--demangle'],
                           input=inp, stdout=subprocess.PIPE, stderr=subprocess.DEVNULL, text=True, timeout=120)
        blocks = p.stdout.strip().split('\n\n')
    except Exception:
        blocks = []
    out = {}
    for a, b in zip(addrs, blocks):
        ls = [x.strip() for x in b.split('\n') if x.strip()]
        frames = []
        for k in range(0, len(ls) - 1, 2):
            fn = re.sub(r'::h[0-9a-f]{16}$', '', ls[k])
            for x, y in (('$LT$', '<'), ('$GT$', '>'), ('$u20$', ' '), ('$C$', ','), ('$RF$', '&'), ('$BP$', '*'), ('$u7b$', '{'), ('$u7d$', '}'), ('..', '::')):
                fn = fn.replace(x, y)
            fn = fn.lstrip('_') if fn.startswith('_<') else fn
            frames.append(f'{fn} at {ls[k + 1]}')
        out[a] = frames
    return out


def in_binary(addr, cal):
    """run-time address inside the text of the traced binary (not libc / ld.so, which valgrind maps elsewhere)"""
    return 0 <= addr - cal['base'] < os.path.getsize(BIN)


def disasm_at(addr, cal):
    st = addr - cal['base']
    try:
        p = subprocess.run(['objdump', '-d', '--no-show-raw-insn', f'--start-address=0x{st:x}', f'--stop-address=0x{st + 15:x}', BIN],
                           stdout=subprocess.PIPE, text=True, timeout=60)
        for l in p.stdout.split('\n'):
            m = re.match(r'\s*%x:\s+(.*)' % st, l)
            if m:
                return m.group(1).strip()
    except Exception:
        pass
    return '?'


def div_sites():
    """static addresses of hardware division instructions in the binary"""
    p = subprocess.run(['objdump', '-d', '--no-show-raw-insn', BIN], stdout=subprocess.PIPE, text=True)
    sites = {}
    for l in p.stdout.split('\n'):
        m = re.match(r'\s*([0-9a-f]+):\s+(i?div[bwlq]?)\s+(.*)', l)
        if m:
            sites[int(m.group(1), 16)] = (m.group(2) + ' ' + m.group(3)).strip()
    return sites


def first_difference(ra, rb):
    n = min(len(ra), len(rb))
    k = next((i for i in range(n) if ra[i] != rb[i]), n)
    # the instruction issuing / preceding the differing event
    j = k - 1 if (k < n and ra[k].startswith('I') and rb[k].startswith('I')) or k >= n else k
    while j >= 0 and not ra[j].startswith('I'):
        j -= 1
    prev = ra[j] if j >= 0 else ''
    return k, prev, (ra[k] if k < len(ra) else '<end>'), (rb[k] if k < len(rb) else '<end>')


def build_trace():
    import fcntl
    lock = open(os.path.join(VERIF, '.lock-trace'), 'w')
    fcntl.flock(lock, fcntl.LOCK_EX)
    try:
        # cargo trusts mtimes: touch our sources when their content hash changed (rsync'd files)
        h = hashlib.sha256()
        files = [os.path.join(TRACE, 'Cargo.toml')] + [os.path.join(TRACE, 'src', f) for f in sorted(os.listdir(os.path.join(TRACE, 'src')))]
        for f in files:
            h.update(open(f, 'rb').read())
        stamp = os.path.join(TRACE, 'target', '.srchash')
        if not os.path.exists(stamp) or open(stamp).read() != h.hexdigest():
            for f in files:
                os.utime(f, None)
            os.makedirs(os.path.dirname(stamp), exist_ok=True)
            open(stamp, 'w').write(h.hexdigest())
        p = subprocess.run(['cargo', 'build', '--release', '--offline'], cwd=TRACE, env=ENV, stdout=subprocess.PIPE, stderr=subprocess.STDOUT, text=True)
        return p.returncode == 0, p.stdout
    finally:
        fcntl.flock(lock, fcntl.LOCK_UN)
        lock.close()


def registry():
    p = subprocess.run([BIN, '--list'], stdout=subprocess.PIPE, text=True)
    ents = [(l.split()[0], int(l.split()[1])) for l in p.stdout.split('\n') if l.strip()]
    _REGIDX.clear()
    _REGIDX.update({e: i for i, e in enumerate(ents)})
    return set(ents)


_COSTS = None


def est_cost(g):
    """expected number of lackey event lines of the group (scheduling only): measured table
    trace/costs.json when it has the (operation, width), a crude formula otherwise"""
    global _COSTS
    if _COSTS is None:
        try:
            _COSTS = json.load(open(os.path.join(TRACE, 'costs.json')))
        except Exception:
            _COSTS = {}
    op = OPS_BY_NAME[g['op']]
    w = g['width']
    per = _COSTS.get(f"{binop(g['op'])}/{w}") or op['heavy'] * (w * w + 4) * 60
    return (per + 30000) * len(g['jobs'])      # + per-job overhead outside the markers


def execute(groups, cal, capture_first=True):
    """run all jobs of all groups; fills g['res'] = [(digest, nlines)], g['distinct'] = instr addrs of job 0"""
    order = sorted(range(len(groups)), key=lambda i: -est_cost(groups[i]))
    total = sum(est_cost(g) for g in groups)
    nb = min(max(NPROC * 3, int(total // 6_000_000) + 1), max(1, len(groups)))
    bins = [[] for _ in range(nb)]
    load = [0] * nb
    for i in order:
        b = load.index(min(load))
        bins[b].append(i)
        load[b] += est_cost(groups[i])
    args = []
    layout = []
    for b, gi in enumerate(bins):
        if not gi:
            continue
        lines = []
        cap = set()
        lay = []
        for i in gi:
            g = groups[i]
            if capture_first:
                cap.add(len(lines))
            for k, vals in enumerate(g['jobs']):
                lay.append((i, k))
                lines.append(fmt_job(g, vals))
        jf = os.path.join(workdir(), 'jobs-%03d.txt' % b)
        open(jf, 'w').write('\n'.join(lines) + '\n')
        args.append((jf, len(lines), cal['beg'], cal['end'], cap))
        layout.append(lay)
    for g in groups:
        g['res'] = [None] * len(g['jobs'])
        g['out'] = [None] * len(g['jobs'])
        g['distinct'] = None
    errs = []
    with cf.ProcessPoolExecutor(max_workers=NPROC) as ex:
        stats = []
        for (res, outl, rc, st), lay, a in zip(ex.map(run_batch, args), layout, args):
            stats.append(st)
            if len(res) != len(lay) or len(outl) != len(lay):
                errs.append(f'{a[0]}: {len(res)} regions / {len(outl)} outputs for {len(lay)} jobs (rc={rc}); last output: {outl[-1:] }')
            for (i, k), r, o in zip(lay, res, outl):
                groups[i]['res'][k] = (r[0], r[1])
                groups[i]['out'][k] = o.split()[-1]
                if r[2] is not None:
                    groups[i]['distinct'] = r[2]
    if stats:
        log(f'lackey: {len(stats)} processes, {sum(s[2] for s in stats) >> 20} MiB of trace, cpu {sum(s[0] for s in stats):.0f}s (valgrind {sum(s[1] for s in stats):.0f}s), slowest process {max(s[0] for s in stats):.1f}s')
    return errs


# =========================================================================================
# main
# =========================================================================================

def analyse(groups, findings):
    """-> candidates [(group, phi class key, clusters)], known {finding id: [...]}, controls {op: differing?}
    clusters = lists of job indices with the same raw trace digest inside one phi class (>= 2 clusters = the
    class is not uniform: a violation unless the difference consists of observer artefacts only, see confirm)"""
    cands, known, controls = [], {}, {}
    for g in groups:
        op = OPS_BY_NAME[g['op']]
        digs = [r[0] if r else None for r in g['res']]
        if op['kind'] == 'control':
            controls[g['op']] = controls.get(g['op'], False) or len(set(digs)) > 1
            continue
        if op['kind'] == 'free':
            continue
        f = finding_for(findings, g['op'], g['width'])
        classes = {}
        for k, vals in enumerate(g['jobs']):
            key = phi_eval(f['phi'], vals, g['width']) if f else ()
            classes.setdefault(key, []).append(k)
        bad = False
        for key, ks in classes.items():
            ds = {}
            for k in ks:
                ds.setdefault(digs[k], []).append(k)
            if len(ds) > 1:
                bad = True
                cands.append((g, key, sorted(ds.values(), key=lambda c: c[0])))
        if f and len(set(digs)) > 1 and not bad:
            # recorded dependence observed: two classes with different traces
            reps = {}
            for key, ks in classes.items():
                reps.setdefault(digs[ks[0]], (key, ks[0]))
            known.setdefault(f['id'], []).append((g, list(reps.values())[:2]))
    return cands, known, controls


def confirm(cands, cal, limit=60):
    """re-run one representative of every digest cluster of a candidate in ONE process, drop observer artefacts,
    compare the full event lists.  -> violations [(group, key, ja, jb)], number of artefact-only candidates"""
    viol, artefact_only = [], 0
    cands = sorted(cands, key=lambda c: (est_cost(c[0]) // max(1, len(c[0]['jobs'])), c[0]['op'], c[0]['width']))
    for n, (g, key, clusters) in enumerate(cands):
        reps = [c[0] for c in clusters[:6]]
        if n >= limit:
            viol.append((g, key, reps[0], reps[1]))     # not re-run: raw traces differ
            continue
        regs = capture_regions([fmt_job(g, g['jobs'][j]) for j in reps], cal)
        if len(regs) != len(reps):
            viol.append((g, key, reps[0], reps[1]))
            continue
        j = next((i for i in range(1, len(regs)) if regs[i] != regs[0]), None)
        if j is None:
            artefact_only += 1
        else:
            viol.append((g, key, reps[0], reps[j]))
    return viol, artefact_only


def make_replay(g, ja, jb, cal, seed, tier, key=None, note=None):
    la, lb = fmt_job(g, g['jobs'][ja]), fmt_job(g, g['jobs'][jb])
    regs = capture_regions([la, lb], cal)
    rec = dict(property=PID, violation=True, kind='binary trace differs between two secret inputs with equal public parameters',
               operation=g['op'], width=g['width'], public_params=list(g['pubs']),
               public_slots={str(k): '%x' % v for k, v in g['pslots'].items()},
               slot_kinds=OPS_BY_NAME[g['op']]['slots'],
               input_a=['%x' % v for v in g['jobs'][ja]], input_b=['%x' % v for v in g['jobs'][jb]],
               job_lines=[la, lb], seed=seed, tier=tier)
    if key:
        rec['phi_class'] = list(map(str, key))
    if note:
        rec['note'] = note
    if len(regs) == 2:
        k, prev, ea, eb = first_difference(regs[0], regs[1])
        rec['trace_lengths'] = [len(regs[0]), len(regs[1])]
        rec['differs'] = regs[0] != regs[1]
        addrs = []
        for s in (prev, ea, eb):
            m = re.match(r'I\s+([0-9a-f]+),', s)
            if m:
                addrs.append(int(m.group(1), 16))
        sym = symbolize(addrs, cal)
        pa = re.match(r'I\s+([0-9a-f]+),', prev)
        fd = dict(index=k, event_a=ea.strip(), event_b=eb.strip(), at_instruction=prev.strip())
        if pa:
            a = int(pa.group(1), 16)
            if in_binary(a, cal):
                fd['instruction'] = disasm_at(a, cal)
                fd['static_address'] = '0x%x' % (a - cal['base'])
                fd['source'] = sym.get(a, [])
            else:
                # the traces part inside a shared library (libc memcpy / memmove / memset called with a
                # secret-dependent length or pointer): name the last instruction of the binary before it
                fd['instruction'] = 'inside a shared library (libc mem* routine), run-time address 0x%x' % a
                j = min(k, len(regs[0])) - 1
                while j >= 0:
                    m = re.match(r'I\s+([0-9a-f]+),', regs[0][j])
                    if m and in_binary(int(m.group(1), 16), cal):
                        c = int(m.group(1), 16)
                        fd['called_from'] = dict(instruction=disasm_at(c, cal), static_address='0x%x' % (c - cal['base']),
                                                 source=symbolize([c], cal).get(c, []))
                        fd['source'] = fd['called_from']['source']
                        break
                    j -= 1
        fd['kind'] = 'control-flow edge' if ea.startswith('I') or eb.startswith('I') else 'memory address'
        tg = []
        for s in (ea, eb):
            m = re.match(r'I\s+([0-9a-f]+),', s)
            if m:
                tg.append(sym.get(int(m.group(1), 16), []))
        if tg:
            fd['targets_source'] = tg
        rec['first_difference'] = fd
    else:
        rec['first_difference'] = dict(error=f'expected 2 regions, got {len(regs)}')
    return rec


def main():
    ap = argparse.ArgumentParser()
    ap.add_argument('pid')
    ap.add_argument('--tier', default=os.environ.get('VERIF_TIER', 'quick'))
    ap.add_argument('--replay')
    ap.add_argument('--level', default='proof')
    ap.add_argument('--only', action='append', help='regex on operation names (development aid)')
    ap.add_argument('--skip-lean', action='store_true', help='development aid: skip part A')
    ap.add_argument('--measure-costs', action='store_true', help='maintenance: re-measure trace/costs.json (events per operation and width; used for scheduling only)')
    args = ap.parse_args()
    tier = args.tier if args.tier in ('quick', 'thorough') else 'quick'
    seed = int(os.environ.get('VERIF_SEED', '20260929'))
    t0 = time.time()
    rng = random.Random(seed)

    # ---- part A
    po = dict(obligations=0, discharged=0, theorems=[], failed=[], build_ok=True, log='', partial=[])
    if not args.skip_lean and not args.replay:
        log(f'{PID} tier={tier} seed={seed}: proof obligations')
        import runner
        try:
            po = runner.proof_obligations(PID, tier)      # thorough: + `lake env leanchecker` (kernel re-check)
        except TypeError:
            po = runner.proof_obligations(PID)
        esc = model_escapes()
        if esc:
            # the noninterference theorems mean something only if the modelled algorithms cannot open a `Sec`
            po['failed'] = sorted(set(po['failed']) | {t['name'] for t in po['theorems']})
            po['discharged'] = 0
            for t in po['theorems']:
                t['ok'] = False
            po['log'] += '\n[model-escape] ' + '; '.join(esc)
        log(f"obligations {po['discharged']}/{po['obligations']} build_ok={po['build_ok']}" + (f' MODEL ESCAPES: {esc}' if esc else ''))

    # ---- part B
    log('building trace crate (opt-level 3, uninstrumented) against the current tree')
    ok, out = build_trace()
    if not ok:
        print(f'ERROR trace crate does not build against the current tree\n{out[-6000:]}')
        sys.exit(2)
    cal = calibrate()
    reg = registry()
    findings = load_findings()
    os.makedirs(os.path.join(VERIF, 'replays'), exist_ok=True)

    if args.replay:
        rp = json.load(open(args.replay))
        if 'line' in rp:
            # a replay of the value correspondence (part C): the generic runner re-executes the operation line(s)
            pr = subprocess.run([sys.executable, os.path.join(VERIF, 'tools', 'runner.py'), PID, '--replay', args.replay, '--aux', '/dev/null'])
            sys.exit(pr.returncode)
        lines = rp.get('job_lines')
        if not lines:
            print('replay file names no job lines:', json.dumps(rp)[:400])
            sys.exit(1 if rp.get('violation') else 0)
        regs = capture_regions(lines, cal)
        if rp.get('kind') == 'hardware-division':
            dsites = div_sites()
            hit = sorted({int(l[3:l.index(',')], 16) - cal['base'] for r in regs for l in r if l.startswith('I')} & set(dsites))
            sym = symbolize([a + cal['base'] for a in hit], cal)
            bad = [(a, sym.get(a + cal['base'], [])) for a in hit
                   if not div_finding_for(findings, rp['operation'], dict(source=sym.get(a + cal['base'], [])))]
            for a, src in bad:
                print(f'replay: {rp["operation"]} executes `{dsites[a]}` at 0x{a:x} ({src[:1]})')
            if bad:
                print(f'VIOLATION property={PID} replay={args.replay}')
                sys.exit(1)
            print('replay: no unlisted hardware division executed')
            sys.exit(0)
        differs = len(regs) != 2 or regs[0] != regs[1]
        if differs and len(regs) == 2:
            k, prev, ea, eb = first_difference(regs[0], regs[1])
            print(f'replay: traces differ at event {k}: `{ea.strip()}` vs `{eb.strip()}` after `{prev.strip()}`')
            print(f'VIOLATION property={PID} replay={args.replay}')
            sys.exit(1)
        print('replay: traces identical')
        sys.exit(0)

    if args.measure_costs:
        gs, seen = [], set()
        for g in gen_groups('thorough', rng, args.only, reg, findings):
            if (g['op'], g['width']) not in seen:
                seen.add((g['op'], g['width']))
                g['jobs'] = g['jobs'][-1:]
                gs.append(g)
        errs = execute(gs, cal, capture_first=False)
        if errs:
            print('ERROR machinery: ' + '; '.join(errs[:3]))
            sys.exit(3)
        json.dump({f"{binop(g['op'])}/{g['width']}": g['res'][0][1] for g in gs if g['res'][0]},
                  open(os.path.join(TRACE, 'costs.json'), 'w'), indent=0, sort_keys=True)
        print(f'costs of {len(gs)} (operation, width) pairs written to trace/costs.json')
        sys.exit(0)

    groups = gen_groups(tier, rng, args.only, reg, findings)
    # corpus: explicit pairs `op width pubs | slotvals | slotvals ...`
    cpath = os.path.join(VERIF, 'corpus', PID + '.txt')
    ncorpus = 0
    if os.path.exists(cpath) and not args.only:
        for l in open(cpath):
            l = l.strip()
            if not l or l.startswith('#') or l.startswith('c01.'):
                continue            # `c01.*` lines belong to the value correspondence (tools/runner.py C01)
            parts = [x.strip() for x in l.split('|')]
            hd = parts[0].split()
            if hd[0] not in OPS_BY_NAME or (binop(hd[0]), int(hd[1])) not in reg:
                print(f'ERROR machinery: corpus line names an unknown operation: {l}')
                sys.exit(3)
            pubs = tuple(int(x) for x in hd[2].split(',')) if hd[2] != '-' else ()
            jobs = [[int(x, 16) for x in p.split()] for p in parts[1:]]
            kinds = OPS_BY_NAME[hd[0]]['slots']
            ps = {i: jobs[0][i] for i, k in enumerate(kinds) if k in PUBLIC_KINDS}
            groups.insert(ncorpus, dict(op=hd[0], width=int(hd[1]), pubs=pubs, pslots=ps, jobs=jobs, corpus=True))
            ncorpus += 1
    # same-phi resampling for operations with a recorded finding: the check must still bite inside a class
    for g in groups:
        f = finding_for(findings, g['op'], g['width'])
        if f and not g.get('corpus'):
            op = OPS_BY_NAME[g['op']]
            extra = []
            for vals in g['jobs']:
                for _ in range(2 if tier == 'quick' else 3):
                    extra.append(resample_same_phi(op, g['width'], vals, f['phi'], rng))
            seen = {tuple(v) for v in g['jobs']}
            for e in extra:
                if tuple(e) not in seen:
                    seen.add(tuple(e))
                    g['jobs'].append(e)
    njobs = sum(len(g['jobs']) for g in groups)
    log(f'{len(groups)} groups (operation x width x public assignment), {njobs} executions under lackey')
    errs = execute(groups, cal)
    if errs:
        print('ERROR machinery: lackey runs incomplete: ' + '; '.join(errs[:3]))
        sys.exit(3)
    unknown = [g['op'] for g in groups if any(o == 'unknown-op' for o in g['out'])]
    if unknown:
        print(f'ERROR machinery: operations unknown to the trace binary: {sorted(set(unknown))}')
        sys.exit(3)

    cands, known, controls = analyse(groups, findings)
    viol, artefact_only = confirm(cands, cal)
    if cands:
        log(f'{len(cands)} (group, phi class) with differing raw traces: {len(viol)} confirmed after artefact filtering, {artefact_only} were observer artefacts only')

    # hardware division: executed div/idiv sites per group (first job of each group; all jobs of a
    # passing group have the identical instruction stream).  lackey does not show operands, so the rule is
    # by site: a div/idiv executed inside a non-vartime operation is a violation unless a `c01_div_site`
    # finding lists (operation, source function of the site).
    dsites = div_sites()
    div_exec = {}
    div_job = {}
    for g in groups:
        if g['distinct']:
            hit = [a for a in g['distinct'] if (a - cal['base']) in dsites]
            if hit:
                div_exec.setdefault(g['op'], set()).update(hit)
                div_job.setdefault(g['op'], fmt_job(g, g['jobs'][0]))
    div_report = {}
    div_viol = []
    div_known = {}
    if div_exec:
        sym = symbolize(sorted({a for s in div_exec.values() for a in s}), cal)
        for opn, sset in div_exec.items():
            div_report[opn] = [dict(static_address='0x%x' % (a - cal['base']), instruction=dsites[a - cal['base']], source=sym.get(a, [])) for a in sorted(sset)]
            if OPS_BY_NAME[opn]['kind'] != 'ct':
                continue
            for site in div_report[opn]:
                f = div_finding_for(findings, opn, site)
                if f:
                    div_known.setdefault(f['id'], []).append((opn, site))
                else:
                    div_viol.append((opn, site))

    # ---- verdict
    rc = 0
    msgs = []
    dead_controls = [o for o, seen in controls.items() if not seen]
    if dead_controls:
        print(f'ERROR machinery: observer insensitive — variable-time control operation(s) showed no trace difference: {dead_controls}')
        sys.exit(3)
    replays = []
    if viol:
        # one replay per operation (first = the smallest width)
        viol.sort(key=lambda v: (v[0]['width'], v[0]['op']))
        done = set()
        for g, key, ja, jb in viol:
            if g['op'] in done or len(replays) >= int(os.environ.get('C01_MAX_REPLAYS', '6')):
                continue
            done.add(g['op'])
            replays.append(make_replay(g, ja, jb, cal, seed, tier, key))
        rpath = os.path.join(VERIF, 'replays', f'{PID}-{tier}-{seed}.json')
        main_rec = dict(replays[0])
        main_rec['others'] = replays[1:]
        main_rec['operations_violating'] = sorted({v[0]['op'] + '/' + str(v[0]['width']) for v in viol})
        main_rec['broken_obligations'] = po['failed']
        main_rec['replay_cmd'] = f'./check {PID} --replay {rpath}'
        json.dump(main_rec, open(rpath, 'w'), indent=1)
        fd = main_rec.get('first_difference', {})
        msgs.append(f"VIOLATION property={PID} replay={rpath}")
        log(f"violation: {main_rec['operation']} width {main_rec['width']}: {fd.get('kind')} at {fd.get('instruction')} {fd.get('source', [])[:1]}")
        rc = 1
    if div_viol:
        rpath = os.path.join(VERIF, 'replays', f'{PID}-{tier}-{seed}-div.json')
        opn, site = div_viol[0]
        json.dump(dict(property=PID, violation=True, kind='hardware-division',
                       what='a div/idiv instruction is executed inside a non-vartime operation and no known finding lists this site (lackey does not show the operands: a division whose operands are all public is reported too, see notes/C01.md)',
                       operation=opn, job_lines=[div_job[opn]], site=site,
                       all_sites=[dict(operation=o, **st) for o, st in div_viol], seed=seed, tier=tier,
                       replay_cmd=f'./check {PID} --replay {rpath}'), open(rpath, 'w'), indent=1)
        msgs.append(f'VIOLATION property={PID} replay={rpath}')
        rc = 1
    if not args.skip_lean and (po['failed'] or not po['build_ok']):
        rpath = os.path.join(VERIF, 'replays', f'{PID}-{tier}-{seed}-unproved.json')
        json.dump(dict(property=PID, violation=True, kind='no-failing-input-found',
                       what=['proof obligations no longer check: ' + ', '.join(po['failed'] or ['CB.Props.' + PID])],
                       lean_log=po['log'][-3000:], seed=seed, tier=tier, searched_executions=njobs), open(rpath, 'w'), indent=1)
        msgs.append(f'VIOLATION property={PID} replay={rpath} no-failing-input-found')
        rc = 1
    for fid, hits in sorted(known.items()):
        f = next(x for x in findings if x['id'] == fid)
        g, reps = hits[0]
        ex = ' vs '.join('`' + ' '.join('%x' % v for v in g['jobs'][j]) + '`' for k, j in reps)
        print(f"KNOWN-FINDING: property={PID} {fid}: {f['what']} [observed in {len(hits)} group(s) this run, e.g. {g['op']} width {g['width']}: {ex}]")
    for fid, hits in sorted(div_known.items()):
        f = next(x for x in findings if x['id'] == fid)
        print(f"KNOWN-FINDING: property={PID} {fid}: {f['what']} [executed this run by: {', '.join(sorted({o for o, _ in hits}))}]")
    for m in msgs:
        print(m)

    # ---- evidence
    ngroups = len(groups)
    distinct_nontrivial = len({(g['op'], g['width'], g['pubs'], tuple(sorted(g['pslots'].items())), tuple(v)) for g in groups for v in g['jobs'] if any(x > 1 for x in v)})
    ops_hist = {}
    for g in groups:
        ops_hist[g['op']] = ops_hist.get(g['op'], 0) + len(g['jobs'])
    samples = []
    step = max(1, ngroups // 8)
    for g in groups[::step][:10]:
        samples.append(dict(op=g['op'], width=g['width'], public=list(g['pubs']), secrets=[' '.join('%x' % v for v in vals) for vals in g['jobs'][:3]],
                            trace_events=g['res'][0][1], trace_digest=g['res'][0][0], all_equal=len({r[0] for r in g['res']}) == 1))
    total_events = sum(r[1] for g in groups for r in g['res'])
    proved = {t['name'].split('.')[-1]: t['ok'] for t in po['theorems']}
    lean_cov = {o['name']: o['lean'] for o in OPS if o['lean'] and o['name'] in ops_hist}
    lean_missing = sorted({v for v in lean_cov.values() if v not in proved}) if po['theorems'] else []
    kind_of = lambda th: 'negative (the model shows the leak)' if th.endswith('_leaks') or th.startswith('boxed_shl_feeds') else 'trace is a function of the public operand' if th.endswith('_trace_pub') else 'noninterference'
    # ---- part C: value correspondence of the leakage model (its functions compute the crate's results): the generic runner on
    # the `c01.leak.*` / `c01.hook.*` operation lines, real crate (two build profiles) vs CB.Leak model (L1) vs plain arithmetic (L0)
    valcorr = None
    if not args.only and not args.replay and os.environ.get('C01_SKIP_VALUES') is None:
        aux = os.path.join(VERIF, 'replays', f'{PID}-{tier}-{seed}-values.json')
        os.makedirs(os.path.dirname(aux), exist_ok=True)
        pr = subprocess.run([sys.executable, os.path.join(VERIF, 'tools', 'runner.py'), PID, '--tier', tier, '--aux', aux],
                            env=dict(os.environ, VERIF_SEED=str(seed)), stdout=subprocess.PIPE, stderr=subprocess.STDOUT, text=True)
        for l in pr.stdout.split('\n'):
            if l.startswith(('VIOLATION', 'KNOWN-FINDING', 'ERROR')):
                print(l)
        try:
            valcorr = json.load(open(aux))
        except Exception:
            valcorr = dict(rc=pr.returncode, error=pr.stdout[-1500:])
        log(f"value correspondence of the leakage model: rc={pr.returncode} lines={valcorr.get('lines')} violations={valcorr.get('violations')}")
        if pr.returncode == 1:
            rc = 1
        elif pr.returncode != 0 and rc == 0:
            print('ERROR machinery: value correspondence run failed:\n' + pr.stdout[-2000:])
            rc = pr.returncode

    ev = dict(
        property_id=PID, tier=tier, seed=seed, level=args.level,
        coverage=dict(
            obligations=max(po['obligations'], 1), discharged=po['discharged'],
            checker_cmd=f'cd lean && lake build CB.Props.{PID} && lake env lean CB/Audit/{PID}.lean  (#print axioms of every theorem); then tools/check_c01.py part B (valgrind lackey on trace/target/release/cbtrace)',
            trusted_base=['Lean 4 kernel', 'axioms: ' + ', '.join(sorted({a for t in po['theorems'] for a in (t['axioms'] or [])})),
                          'the leakage model CB/Model/Leak.lean is hand-written; it is NOT mechanically tied to the Rust source: the tie to the build is part B (observation of the optimized binary), which is sampling, not proof',
                          'valgrind 3.19 lackey (instruction and data address stream), objdump, llvm-symbolizer, rustc/LLVM, tools/check_c01.py, trace/src/*.rs wrappers'],
            theorems=po['theorems'], partial_theorems=po['partial'], leanchecker=po.get('leanchecker'),
            explanation='PARTIAL claim. Part A (proved): noninterference theorems of a leakage-instrumented model of the core non-vartime algorithms, all limb counts. Part B (observed, not proved): the uninstrumented opt-level-3 binary of the crate is traced with valgrind lackey; for every (operation, width, public parameter assignment) group all secret inputs must give the identical sequence of instruction addresses and load/store addresses between two markers. Part B covers only the sampled secrets and only this compiler/target.',
            evaluations=njobs, distinct_nontrivial=distinct_nontrivial,
            rule='one evaluation = one execution of a monomorphic wrapper under lackey; groups = operation x limb count x assignment of documented-public parameters; secrets from the property list (0, 1, MAX, powers of two, bit lengths at limb multiples, equal operands, modulus-1, seeded random); distinct = distinct (group, secret assignment); non-trivial = some secret operand > 1',
            samples=samples, traces_validated_against_impl=njobs, groups=ngroups,
            operations=len(ops_hist), ops_histogram=ops_hist, trace_events_total=total_events,
            operations_with_lean_theorem={o: dict(theorem='CB.P01.' + th, kind=kind_of(th), checked=proved.get(th)) for o, th in sorted(lean_cov.items())},
            operations_observed_only=sorted(set(ops_hist) - set(lean_cov)),
            lean_theorems_named_but_missing=lean_missing,
            vartime_controls_differ=controls,
            hardware_div_sites_executed=div_report,
            known_findings_hit={**{k: len(v) for k, v in known.items()}, **{k: len(v) for k, v in div_known.items()}},
            known_findings_observed_at={**{k: sorted({f"{g['op']}/{g['width']}" for g, _ in v}) for k, v in known.items()},
                                        **{k: sorted({o for o, _ in v}) for k, v in div_known.items()}},
            known_findings_listed_but_not_observed=sorted({f"{g['op']}/{g['width']}" for g in groups if finding_for(findings, g['op'], g['width'])}
                                                          - {f"{g['op']}/{g['width']}" for v in known.values() for g, _ in v}),
            artefact_only_differences=artefact_only, artefact_sites=len(artefact_sites()),
            corpus_groups=ncorpus,
            value_correspondence_of_leak_model=valcorr),
        assumptions=['x86_64-unknown-linux-gnu, rustc ' + subprocess.run(['rustc', '--version'], stdout=subprocess.PIPE, text=True).stdout.strip() + ', opt-level 3, codegen-units 16, crate features alloc+extra-sizes',
                     'address-level leakage model (control flow edges, data addresses, hardware division sites); no micro-architectural effects (data-dependent instruction latency other than div, cache-bank conflicts, speculation)',
                     'NonZero/Odd construction and CtOption unwrapping happen inside the wrappers with valid (non-zero / odd) operands only',
                     'only target_pointer_width=64 is observed'],
        wall_s=round(time.time() - t0, 2), violations=len(viol) + len(div_viol) + (1 if (not args.skip_lean and (po['failed'] or not po['build_ok'])) else 0))
    json.dump(ev, open(os.path.join(VERIF, 'evidence', PID + '.json'), 'w'), indent=1)
    log(f'done rc={rc} groups={ngroups} executions={njobs} events={total_events} viol={len(viol)} known={sum(len(v) for v in known.values())} wall={ev["wall_s"]}s')
    sys.exit(rc)


if __name__ == '__main__':
    main()
