#!/usr/bin/env python3
"""
runner.py — one check run for one property (see DESIGN.md §2.1).

  runner.py C04 --tier quick|thorough [--replay FILE]

Steps: regenerate Extracted.lean from /repo; build + audit the property's theorems
(proof obligations); build the harness against /repo's working tree in two profiles; generate
operation lines; execute them on the real crate (both profiles) and on the compiled Lean model;
compare; classify disagreements against known_findings.json; write evidence; exit 0 / 1.
"""
import argparse, concurrent.futures as cf, fcntl, importlib, json, os, random, re, subprocess, sys, time

VERIF = os.path.dirname(os.path.dirname(os.path.abspath(__file__)))
LEAN = os.path.join(VERIF, 'lean')
HARN = os.path.join(VERIF, 'harness')
REPO = os.environ.get('CB_REPO', '/repo')
sys.path.insert(0, os.path.join(VERIF, 'tools'))

ALLOWED_AXIOMS = {'propext', 'Classical.choice', 'Quot.sound'}
FORBIDDEN = re.compile(r'\b(sorry|admit|native_decide|implemented_by|unsafe)\b|^\s*axiom\s|maxHeartbeats\s+0\b', re.M)
ENV = dict(os.environ, CARGO_NET_OFFLINE='true', LEAN_NUM_THREADS='16')


def log(*a):
    print('[check]', *a, file=sys.stderr, flush=True)


class Lock:
    def __init__(self, name):
        self.path = os.path.join(VERIF, '.lock-' + name)
    def __enter__(self):
        self.f = open(self.path, 'w')
        fcntl.flock(self.f, fcntl.LOCK_EX)
    def __exit__(self, *a):
        fcntl.flock(self.f, fcntl.LOCK_UN)
        self.f.close()


def sh(cmd, cwd, timeout=3600):
    p = subprocess.run(cmd, cwd=cwd, env=ENV, stdout=subprocess.PIPE, stderr=subprocess.STDOUT, text=True, timeout=timeout)
    return p.returncode, p.stdout


# ---------------------------------------------------------------- proof obligations

def strip_comments(src):
    src = re.sub(r'/-.*?-/', '', src, flags=re.S)
    return re.sub(r'--[^\n]*', '', src)


def lean_sources():
    out = []
    for root, _, files in os.walk(LEAN):
        if '.lake' in root:
            continue
        for f in files:
            if f.endswith('.lean'):
                out.append(os.path.join(root, f))
    return out


def proof_obligations(pid, tier='quick'):
    """Build CB.Props.<pid>, audit axioms of every theorem in it. Returns dict."""
    res = dict(obligations=0, discharged=0, theorems=[], failed=[], build_ok=False, log='', partial=[])
    props = os.path.join(LEAN, 'CB', 'Props', pid + '.lean')
    if not os.path.exists(props):
        res['log'] = 'no property file'
        return res
    # property theorems: CB/Props/<pid>.lean plus, when present, CB/Props/<pid>Gen.lean (theorems about the definitions
    # that tools/translate.py regenerates from /repo's source on every run; a module nothing else imports)
    modules = [f'CB.Props.{pid}']
    full = []
    for suffix in ('', 'Gen'):
        pf = os.path.join(LEAN, 'CB', 'Props', pid + suffix + '.lean')
        if not os.path.exists(pf):
            continue
        if suffix:
            modules.append(f'CB.Props.{pid}{suffix}')
        src = strip_comments(open(pf).read())
        ns = re.search(r'^namespace\s+(\S+)', src, re.M)
        ns = ns.group(1) if ns else ''
        names = re.findall(r'^(?:private\s+|protected\s+)?theorem\s+([^\s:({\[]+)', src, re.M)
        full += [(ns + '.' + n) if ns else n for n in names]
        if suffix:
            res['gen_theorems'] = [(ns + '.' + n) if ns else n for n in names]
    res['obligations'] = len(full)
    res['partial'] = [n for n in full if n.endswith('_partial')]
    # forbidden constructs anywhere in the lean tree
    bad = []
    for f in lean_sources():
        m = FORBIDDEN.search(strip_comments(open(f).read()))
        if m:
            bad.append(f'{os.path.relpath(f, LEAN)}: {m.group(0).strip()}')
    with Lock('lake'):
        subprocess.run([sys.executable, os.path.join(VERIF, 'tools', 'extract.py')], check=False, env=ENV)
        rc, out = sh(['lake', 'build', modules[0], 'cbmodel'], LEAN)
        res['log'] = out[-4000:]
        built = [modules[0]] if rc == 0 else []
        for m in modules[1:]:
            # the module about the regenerated definitions is built on its own: when it fails, the theorems of the main
            # module are still audited (only the theorems about the translated source count as no longer checking)
            rcg, outg = sh(['lake', 'build', m], LEAN) if rc == 0 else (1, '')
            if rcg == 0:
                built.append(m)
            else:
                res['log'] += f'\n[{m}] ' + outg[-3000:]
                res['gen_log'] = outg
        res['build_ok'] = len(built) == len(modules)
        audit = os.path.join(LEAN, 'CB', 'Audit', pid + '.lean')
        os.makedirs(os.path.dirname(audit), exist_ok=True)
        with open(audit, 'w') as fh:
            fh.write(''.join(f'import {m}\n' for m in built) + ''.join(f'#print axioms {n}\n' for n in full))
        axioms = {}
        if built:
            rc2, out2 = sh(['lake', 'env', 'lean', audit], LEAN)
            for m in re.finditer(r"'([^']+)' depends on axioms: \[([^\]]*)\]", out2, re.S):
                axioms[m.group(1)] = [a.strip() for a in m.group(2).replace('\n', ' ').split(',') if a.strip()]
            for m in re.finditer(r"'([^']+)' does not depend on any axioms", out2):
                axioms[m.group(1)] = []
            if rc2 != 0:
                res['log'] += '\n[audit] ' + out2[-2000:]
            if tier == 'thorough':
                # independent re-check of the compiled property module by the toolchain's kernel re-checker
                rc3, out3 = sh(['lake', 'env', 'leanchecker'] + built, LEAN)
                res['leanchecker'] = dict(cmd=f'lake env leanchecker CB.Props.{pid}', rc=rc3, out=out3[-500:])
                if rc3 != 0:
                    res['build_ok'] = False
                    res['log'] += '\n[leanchecker] ' + out3[-2000:]
    for n in full:
        ax = axioms.get(n)
        ok = ax is not None and not bad and all(
            a in ALLOWED_AXIOMS or '._native.bv_decide.ax_' in a for a in ax)
        if ax is not None and any(a == 'sorryAx' for a in ax):
            ok = False
        res['theorems'].append(dict(name=n, axioms=ax, ok=ok))
        if ok:
            res['discharged'] += 1
        else:
            res['failed'].append(n)
    res['modules'] = modules
    # the ONLY obligations that fail are those about the translated source (CB/Props/<pid>Gen.lean): the main module — the theorems
    # about the hand-written model, which the correspondence run ties to the code — built and audits clean
    gen = set(res.get('gen_theorems', []))
    res['gen_only_failure'] = bool(res['failed']) and modules[0] in built and not bad and all(n in gen for n in res['failed'])
    # a GENUINE counterexample of the SAT procedure (no abstracted subterms) to a statement about a translated function: the
    # function's meaning changed for the exhibited words — not a stale proof script
    res['gen_semantic'] = bool(re.search(r'The prover found a counterexample, consider', res.get('gen_log', '')))
    try:
        res['translated_from_source'] = json.load(open(os.path.join(LEAN, 'CB', 'Gen', 'report.json')))
    except Exception:
        res['translated_from_source'] = None
    if bad:
        res['log'] += '\n[forbidden] ' + '; '.join(bad)
        res['forbidden'] = bad
    return res


# ---------------------------------------------------------------- harness

PROFILES = [('release', ['--release'], 'release'), ('dbgchk', ['--profile', 'dbgchk'], 'dbgchk')]


def harness_src_stamp():
    """cargo trusts mtimes; files copied in with preserved (old) mtimes would not trigger a rebuild.
    Hash the harness sources and touch them when the content changed since the last build."""
    import hashlib
    h = hashlib.sha256()
    files = []
    for root, _, fs in os.walk(os.path.join(HARN, 'src')):
        files += [os.path.join(root, f) for f in fs]
    files += [os.path.join(HARN, 'Cargo.toml')]
    for f in sorted(files):
        h.update(f.encode()); h.update(open(f, 'rb').read())
    stamp = os.path.join(HARN, 'target', '.srchash')
    cur = h.hexdigest()
    old = open(stamp).read() if os.path.exists(stamp) else ''
    if cur != old:
        for f in files:
            os.utime(f, None)
        os.makedirs(os.path.dirname(stamp), exist_ok=True)
        open(stamp, 'w').write(cur)


def build_harness(per_profile=False):
    """Build the harness in both profiles. per_profile=True: build every profile and return {name: (ok, output)}."""
    res = {}
    with Lock('cargo'):
        harness_src_stamp()
        for name, flags, _ in PROFILES:
            rc, out = sh(['cargo', 'build', '--offline'] + flags, HARN)
            res[name] = (rc == 0, out)
            if rc != 0 and not per_profile:
                return False, f'[{name}]\n' + out[-6000:]
    if per_profile:
        return res
    return True, ''


NOHOOK_TARGET = os.path.join(HARN, 'target-nohook')
_NOHOOKS = [False]


def build_harness_nohooks():
    """Build both profiles without `--cfg crypto_bigint_verif` (RUSTFLAGS set but empty overrides harness/.cargo/config.toml)."""
    env = dict(ENV, RUSTFLAGS='')
    with Lock('cargo'):
        for name, flags, _ in PROFILES:
            p = subprocess.run(['cargo', 'build', '--offline', '--target-dir', NOHOOK_TARGET] + flags, cwd=HARN, env=env,
                               stdout=subprocess.PIPE, stderr=subprocess.STDOUT, text=True)
            if p.returncode != 0:
                return False
    _NOHOOKS[0] = True
    return True


def const_eval_failure(out):
    """The harness evaluates crate functions in const items (const-vs-runtime routes of C15, impl_modulus! constants).
    If the CRATE's code panics there (E0080 with a frame inside /repo's src) the build error is a failing input of the
    crate, not a machinery problem: return what failed (const item, message, crate source frames, the diagnostic)."""
    if 'error[E0080]' not in out:
        return None
    i = out.index('error[E0080]')
    diag = out[i:i + 4000]
    frames = sorted(set(re.findall(re.escape(REPO.rstrip('/')) + r'/(src/[\w/]+\.rs):(\d+)', diag)))
    if not frames:
        return None
    m = re.search(r'evaluation of `([^`]+)` failed', diag)
    msg = diag.split('\n')[0]
    return dict(const_item=m.group(1) if m else None, message=msg, crate_frames=[f'{f}:{l}' for f, l in frames],
                files=sorted({f for f, _ in frames}), diagnostic=diag)


def anchor_files(pid):
    for l in open(os.path.join(VERIF, 'properties.jsonl')):
        p = json.loads(l)
        if p['id'] == pid:
            return set((p.get('anchors') or {}).get('files', []))
    return set()


STREAM_TIMEOUT = int(os.environ.get('VERIF_STREAM_TIMEOUT', '600'))


_HANG = {'line': None}      # the first operation line isolated as never returning (implementation side)


def run_stream(cmd, lines, crash_tok='crash', timeout=None, impl_side=False):
    """Feed lines to a line-per-line process; survive aborts by resuming after the killer line, and
    survive a line that never returns (watchdog): the chunk is bisected with a shrinking time limit until the
    hanging line is isolated; it is answered `hang` (a public operation that loops forever is a violation).
    Once ONE hanging line of the implementation has been isolated the verdict is settled: every implementation line not yet
    executed is answered `skipped` (never compared) instead of being waited for — a change that makes a whole class of
    inputs loop would otherwise cost one time limit per input."""
    timeout = timeout or STREAM_TIMEOUT
    if impl_side and _HANG['line'] is not None:
        return ['skipped'] * len(lines)
    outs = []
    i = 0
    while i < len(lines):
        try:
            p = subprocess.run(cmd, input='\n'.join(lines[i:]) + '\n', stdout=subprocess.PIPE, stderr=subprocess.DEVNULL,
                               text=True, env=ENV, timeout=timeout)
        except subprocess.TimeoutExpired as te:
            rest = lines[i:]
            if impl_side and _HANG['line'] is not None:
                outs.extend(['skipped'] * len(rest))
                break
            if len(rest) == 1:
                outs.append('hang')
                if impl_side:
                    _HANG['line'] = rest[0]
                break
            # what the process had already printed is kept (the harness prints through an 8 KiB buffer: the line that never
            # returns is among the next <= 4097 lines after the last complete line received)
            part = te.stdout or ''
            if isinstance(part, bytes):
                part = part.decode('utf-8', 'replace')
            got = part.split('\n')[:-1] if part else []
            if len(got) < len(rest):
                outs.extend(got)
                rest = rest[len(got):]
                if len(rest) > 4100:
                    window, tail = rest[:4100], rest[4100:]
                    outs.extend(run_stream(cmd, window, crash_tok, 40, impl_side))
                    outs.extend(run_stream(cmd, tail, crash_tok, timeout, impl_side))
                    break
                timeout = min(timeout, 80)
                if len(rest) == 1:
                    outs.append('hang')
                    if impl_side:
                        _HANG['line'] = rest[0]
                    break
            h = len(rest) // 2
            sub = max(20, timeout // 2)
            outs.extend(run_stream(cmd, rest[:h], crash_tok, sub, impl_side))
            outs.extend(run_stream(cmd, rest[h:], crash_tok, sub, impl_side))
            break
        got = p.stdout.split('\n')
        if got and got[-1] == '':
            got.pop()
        need = len(lines) - i
        if len(got) >= need:
            outs.extend(got[:need])
            break
        # the process died on line i+len(got)
        outs.extend(got)
        outs.append(crash_tok)
        i += len(got) + 1
    return outs


def run_parallel(cmd, lines, jobs, impl_side=False):
    if not lines:
        return []
    size = max(1, (len(lines) + jobs - 1) // jobs)
    chunks = [lines[k:k + size] for k in range(0, len(lines), size)]
    with cf.ThreadPoolExecutor(max_workers=jobs) as ex:
        res = list(ex.map(lambda c: run_stream(cmd, c, impl_side=impl_side), chunks))
    return [x for r in res for x in r]


def impl_cmd(profile_dir):
    return [os.path.join(NOHOOK_TARGET if _NOHOOKS[0] else os.path.join(HARN, 'target'), profile_dir, 'cbh')]


def model_cmd():
    return [os.path.join(LEAN, '.lake', 'build', 'bin', 'cbmodel')]


# ---------------------------------------------------------------- known findings

def load_findings():
    p = os.path.join(VERIF, 'known_findings.json')
    if not os.path.exists(p):
        return []
    return json.load(open(p)).get('findings', [])


def classify(findings, pid, line, impl, model):
    import findings as F
    for f in findings:
        if pid not in f.get('properties', [f.get('property')]):
            continue
        fn = getattr(F, f['classifier'], None)
        if fn and fn(f, line, impl, model):
            return f
    return None


# ---------------------------------------------------------------- main

def nontrivial_default(line):
    toks = line.split()[1:]
    return any(len(t) > 2 for t in toks)


def main():
    ap = argparse.ArgumentParser()
    ap.add_argument('pid')
    ap.add_argument('--tier', default=os.environ.get('VERIF_TIER', 'quick'))
    ap.add_argument('--replay')
    ap.add_argument('--level', default='proof')
    ap.add_argument('--aux', help='auxiliary run for another check script: skip the proof obligations, write no evidence file, write a summary JSON here')
    args = ap.parse_args()
    pid = args.pid
    tier = args.tier if args.tier in ('quick', 'thorough') else 'quick'
    if tier == 'quick' and 'VERIF_STREAM_TIMEOUT' not in os.environ:
        global STREAM_TIMEOUT
        STREAM_TIMEOUT = 240     # a quick-tier chunk normally takes seconds; 4 minutes without returning means a line never returns
    seed = int(os.environ.get('VERIF_SEED', '20260929'))
    t0 = time.time()
    gmod = importlib.import_module('gen.' + pid.lower())

    log(f'{pid} tier={tier} seed={seed}: proof obligations')
    if args.aux:
        po = dict(obligations=0, discharged=0, theorems=[], failed=[], build_ok=True, log='', partial=[])
        with Lock('lake'):
            sh(['lake', 'build', 'cbmodel'], LEAN)
    else:
        po = proof_obligations(pid, tier)
    log(f"obligations {po['discharged']}/{po['obligations']} build_ok={po['build_ok']}")
    model_bin_ok = os.path.exists(model_cmd()[0])
    if not po['build_ok']:
        # the property's theorems no longer build; try to at least have the driver
        with Lock('lake'):
            rc, out = sh(['lake', 'build', 'cbmodel'], LEAN)
        model_bin_ok = rc == 0
        if not model_bin_ok:
            log('model driver does not build:\n' + out[-3000:])

    log('building harness (2 profiles) against ' + REPO)
    built = build_harness(per_profile=True)
    const_fail = None
    nohooks = False
    if not all(ok for ok, _ in built.values()):
        bad = {n: o for n, (ok, o) in built.items() if not ok}
        cfs = {n: const_eval_failure(o) for n, o in bad.items()}
        if any(c is None for c in cfs.values()) or not built['release'][0]:
            # not (only) a const-evaluation panic inside the crate, or no profile left to run
            cfail = next((c for c in cfs.values() if c), None)
            if cfail and (set(cfail["files"]) & anchor_files(pid)):
                # compile-time evaluation of the crate's own code panics on the harness' constants, in this property's anchor files
                os.makedirs(os.path.join(VERIF, 'replays'), exist_ok=True)
                rpath = os.path.join(VERIF, 'replays', f'{pid}-{tier}-{seed}-consteval.json')
                json.dump(dict(property=pid, violation=True, kind='const evaluation of crate code panics on a valid constant input',
                               **cfail, replay_cmd='cd harness && cargo build --offline --release && cargo build --offline --profile dbgchk'), open(rpath, 'w'), indent=1)
                print(f'VIOLATION property={pid} replay={rpath}')
                sys.exit(1)
            # last resort: the crate may no longer compile WITH the hook forwarders (`--cfg crypto_bigint_verif`; a refactor of an
            # internal signature breaks src/verif_hooks.rs) although it compiles as its users build it: build the harness without
            # the cfg (hook operations answer `hook-unavailable` and are dropped), the public operations still decide the property
            n, o = next(iter(bad.items()))
            if cfail is None and build_harness_nohooks():
                nohooks = True
                log('harness does not build with the hook forwarders; running WITHOUT hooks (public operations only):\n' + o[-1500:])
            else:
                print(f'ERROR harness does not build against the current tree\n[{n}]\n{o[-6000:]}')
                sys.exit(2)
        if not nohooks:
            # only the dbgchk profile fails, and it fails because a debug assertion / overflow check of the crate fires during
            # const evaluation: run the lines on the release build alone; the const-evaluation diagnostic is the fallback replay
            const_fail = next(iter(cfs.values()))
            const_fail['profile'] = next(iter(cfs))
            log(f"profile {const_fail['profile']}: const evaluation of crate code panics ({const_fail['message']}); running the release profile only")

    # ---- operations
    if args.replay:
        rp = json.load(open(args.replay))
        lines = [rp['line']] + [o['line'] for o in rp.get('others', [])] if 'line' in rp else []
        if not lines:
            print('replay file names no operation line:', json.dumps(rp)[:500])
            sys.exit(1 if rp.get('violation') else 0)
    else:
        rng = random.Random(seed)
        lines = []
        cpath = os.path.join(VERIF, 'corpus', pid + '.txt')
        if os.path.exists(cpath):
            lines += [l.strip() for l in open(cpath) if l.strip() and not l.startswith('#') and l.startswith(pid.lower() + '.')]
        boost = 10 if not po['build_ok'] or po['failed'] else 1
        for _ in range(boost):
            lines += list(gmod.gen(tier, rng))
    hooks_lost = False
    if nohooks:
        hooks_lost = any('.hook.' in l.split()[0] for l in lines)   # does this property's correspondence use hooks at all?
        lines = [l for l in lines if '.hook.' not in l.split()[0]]
    log(f'{len(lines)} operation lines')

    def execute(ls):
        im = {}
        for name, _, d in PROFILES:
            if const_fail and name == const_fail['profile']:
                continue
            im[name] = run_parallel(impl_cmd(d), ls, 8, impl_side=True)
        if const_fail:
            # the failed profile cannot run; profile-specific model outputs are compared for the release build only
            im[const_fail['profile']] = None
        mo = run_parallel(model_cmd(), ls, 16) if model_bin_ok else ['model-unavailable'] * len(ls)
        return im, mo

    impl, model = execute(lines)

    # machinery errors: an op the harness or the driver does not know / cannot parse is never a pass
    MACH = ('unknown-op', 'bad-args', 'unsupported-width', 'model-unavailable', 'empty', 'crash-model')
    mach = [(l, impl['release'][i], model[i]) for i, l in enumerate(lines)
            if impl['release'][i] in MACH or (impl['dbgchk'] and impl['dbgchk'][i] in MACH) or model[i].split(' ;; ')[0] in MACH]
    if mach and model_bin_ok:
        print(f'ERROR machinery: {len(mach)} line(s) not executable by harness or model, e.g. {mach[:3]}')
        sys.exit(3)
    if not model_bin_ok:
        # the model driver does not build (only possible when a regenerated file — Extracted.lean, CB/Gen — no longer fits the
        # hand-written model, or /verif itself is broken): no line can be judged; this is a broken proof obligation /
        # correspondence, never a per-line violation
        os.makedirs(os.path.join(VERIF, 'replays'), exist_ok=True)
        rpath = os.path.join(VERIF, 'replays', f'{pid}-{tier}-{seed}-unproved.json')
        json.dump(dict(property=pid, violation=True, kind='no-failing-input-found',
                       what=['the Lean model driver (cbmodel) no longer builds against the files regenerated from /repo: neither the theorems nor the correspondence can be checked'],
                       lean_log=po['log'][-3000:], seed=seed, tier=tier), open(rpath, 'w'), indent=1)
        print(f'VIOLATION property={pid} replay={rpath} no-failing-input-found')
        sys.exit(1)

    findings = load_findings()
    canon = getattr(gmod, 'canon', None)

    def compare(lines, impl, model):
        known_hits = {}
        viol = []       # public-op disagreements (impl != model)
        hookbreak = []  # hook-level disagreements
        profdiff = 0
        for i, line in enumerate(lines):
            m = model[i]
            l1, l0 = m, None
            if ' ;; ' in m:
                l1, l0 = m.split(' ;; ', 1)
            l1_all = l1
            for name, _, _ in PROFILES:
                if impl[name] is None:
                    continue
                o = impl[name][i]
                if o == 'skipped':
                    continue        # not executed: a hanging line had already been isolated (see run_stream)
                # a profile-specific model output: `<release output> ## <dbgchk output>` (debug assertions /
                # overflow checks make the two builds differ only where the model says so)
                if ' ## ' in l1_all:
                    l1 = l1_all.split(' ## ')[0 if name == 'release' else 1]
                if canon:
                    oc, c1, c0 = canon(line, o), canon(line, l1), (canon(line, l0) if l0 is not None else None)
                else:
                    oc, c1, c0 = o, l1, l0
                want = c0 if c0 is not None else c1     # what the property demands on this line
                # a spec may allow alternatives: `alt1 || alt2`
                if oc not in want.split(' || '):
                    rec = dict(line=line, impl=o, model=l1, profile=name)
                    if l0 is not None:
                        rec['spec'] = l0
                        rec['model_mirrors_impl'] = (oc == c1)
                    f = classify(findings, pid, line, o, l0 if l0 is not None else l1)
                    if f:
                        known_hits.setdefault(f['id'], []).append(rec)
                    elif '.hook.' in line.split()[0]:
                        hookbreak.append(rec)
                    else:
                        viol.append(rec)
                elif c0 is not None and oc != c1 and ' || ' not in c0:
                    # behaviour is right here but the limb-level model no longer mirrors the code
                    hookbreak.append(dict(line=line, impl=o, model=l1, spec=l0, profile=name, kind='L1 model differs from implementation (implementation agrees with spec L0)'))
            if impl['dbgchk'] and impl['release'][i] != impl['dbgchk'][i]:
                profdiff += 1
        return viol, hookbreak, known_hits, profdiff

    viol, hookbreak, known_hits, profdiff = compare(lines, impl, model)

    # ---- a correspondence on a crate-internal function (or a proof obligation) broke but no public operation disagrees with
    # the property yet: search the PUBLIC operations with fresh generator streams (10x the budget) for a concrete failing
    # input before falling back to `no-failing-input-found`
    searched_extra = 0
    if not args.replay and not viol and (hookbreak or hooks_lost or po['failed'] or not po['build_ok']) and os.environ.get('VERIF_NO_BOOST') is None:
        for k in range(1, 10):
            extra = [l for l in gmod.gen(tier, random.Random(seed * 1000003 + k)) if '.hook.' not in l.split()[0]]
            if not extra:
                break
            im2, mo2 = execute(extra)
            v2, _, kh2, _ = compare(extra, im2, mo2)
            searched_extra += len(extra)
            if v2:
                log(f'boosted search: {len(v2)} public-operation line(s) contradict the property (stream {k})')
                viol = v2
                break
        else:
            log(f'boosted search: no public operation contradicts the property on {searched_extra} further lines')

    nontriv = getattr(gmod, 'nontrivial', nontrivial_default)
    distinct = len({l for l in lines if nontriv(l)})
    ops_hist = {}
    for l in lines:
        k = l.split()[0]
        ops_hist[k] = ops_hist.get(k, 0) + 1
    out_hist = {}
    for o in impl['release']:
        k = 'panic' if o == 'panic' else 'none' if o == 'none' else 'err' if o.startswith('err') else 'value'
        out_hist[k] = out_hist.get(k, 0) + 1

    # ---- verdict
    # The bridge between the hand-written model and the TRANSLATED source (CB/Props/<pid>Gen.lean) no longer builds, while every
    # theorem about the hand-written model (CB/Props/<pid>.lean) still checks and the SAT procedure exhibited no genuine
    # counterexample: the bridge lemmas are proof scripts written against one shape of the source text and a rewrite of that text
    # can break them whatever it computes.  The property is then still shown the way it is shown for every layer that is not
    # translated — theorems about the hand-written model + this run's correspondence of that model with the code, here extended
    # by the 10x boosted search — so this alone is no alarm; it is recorded (`translated_layer_unbridged`).  A failing input
    # found by the search, a failing theorem of the main module, or a genuine counterexample is reported as before.
    gen_fallback = bool(po.get('gen_only_failure')) and not po.get('gen_semantic') and not hookbreak
    rc = 0
    os.makedirs(os.path.join(VERIF, 'replays'), exist_ok=True)
    msgs = []
    if viol:
        # prefer a replay on which the property's own specification (L0) is contradicted over a line where only the limb model (L1) differs
        viol.sort(key=lambda v: (0 if 'spec' in v else 1, len(v['line']), v['line']))
        rpath = os.path.join(VERIF, 'replays', f'{pid}-{tier}-{seed}.json')
        json.dump(dict(property=pid, violation=True, kind='implementation differs from the proved model',
                       line=viol[0]['line'], impl=viol[0]['impl'], model=viol[0]['model'], spec=viol[0].get('spec'), profile=viol[0]['profile'],
                       others=viol[1:25], total=len(viol), seed=seed, tier=tier,
                       broken_obligations=po['failed'],
                       replay_cmd=f'./check {pid} --replay {rpath}'), open(rpath, 'w'), indent=1)
        msgs.append(f'VIOLATION property={pid} replay={rpath}')
        rc = 1
    elif hookbreak or ((po['failed'] or not po['build_ok']) and not gen_fallback) or not model_bin_ok:
        rpath = os.path.join(VERIF, 'replays', f'{pid}-{tier}-{seed}-unproved.json')
        what = []
        if po['failed'] or not po['build_ok']:
            what.append('proof obligations no longer check: ' + ', '.join(po['failed'] or ['CB.Props.' + pid]))
        if hookbreak:
            what.append('correspondence broken on internal function(s): ' + ', '.join(sorted({h['line'].split()[0] for h in hookbreak})))
        json.dump(dict(property=pid, violation=True, kind='no-failing-input-found', what=what,
                       hook_disagreements=hookbreak[:25], lean_log=po['log'][-3000:], seed=seed, tier=tier,
                       searched_lines=len(lines) + searched_extra), open(rpath, 'w'), indent=1)
        msgs.append(f'VIOLATION property={pid} replay={rpath} no-failing-input-found')
        rc = 1
    if const_fail and rc == 0 and (set(const_fail['files']) & anchor_files(pid)):
        # no run-time line contradicts the property in the release build, but the crate's code (in this property's anchor
        # files) panics when it is const-evaluated with debug assertions / overflow checks on: that input is the replay
        rpath = os.path.join(VERIF, 'replays', f'{pid}-{tier}-{seed}-consteval.json')
        json.dump(dict(property=pid, violation=True, kind='const evaluation of crate code panics on a valid constant input (debug assertions / overflow checks on)',
                       **const_fail, seed=seed, tier=tier, searched_lines=len(lines)), open(rpath, 'w'), indent=1)
        msgs.append(f'VIOLATION property={pid} replay={rpath}')
        rc = 1
    if gen_fallback and rc == 0:
        log(f'translated layer not bridged on this tree ({len(po["failed"])} theorem(s) of CB.Props.{pid}Gen no longer build; no genuine counterexample); '
            f'all {po["discharged"]} theorems about the hand-written model check and the public operations agree on {len(lines) + searched_extra} lines: '
            'tie by correspondence only for that layer')
    if hooks_lost and rc == 0:
        # the auxiliary tie on crate-internal functions could not be RUN (it did not disagree): the property's own statement is about
        # the public operations, which were all run (plus the boosted search) and agree with the specification — no alarm; recorded
        # in the evidence (`hooks_unavailable`)
        log('hook forwarders of /repo do not compile (cfg crypto_bigint_verif): internal-function correspondence skipped; '
            f'public operations agree on {len(lines) + searched_extra} lines')
    for fid, hits in sorted(known_hits.items()):
        f = next(x for x in findings if x['id'] == fid)
        print(f"KNOWN-FINDING: property={pid} {f['id']}: {f['what']} ({len(hits)} occurrence(s) this run, e.g. `{hits[0]['line']}` -> {hits[0]['impl']}, model {hits[0]['model']})")
    for m in msgs:
        print(m)

    samples = []
    step = max(1, len(lines) // 6)
    for i in range(0, len(lines), step):
        samples.append(dict(op=lines[i], impl=impl['release'][i], model=model[i]))
    ev = dict(
        property_id=pid, tier=tier, seed=seed, level=args.level,
        coverage=dict(
            obligations=max(po['obligations'], 1), discharged=po['discharged'],
            checker_cmd=f'cd lean && lake build CB.Props.{pid} && lake env lean CB/Audit/{pid}.lean  (#print axioms of every theorem)',
            trusted_base=['Lean 4 kernel', 'axioms: ' + ', '.join(sorted({a for t in po['theorems'] for a in (t['axioms'] or [])})),
                          'hand-written model CB/Model/*.lean tied to /repo by this run\'s correspondence (impl vs model on the op lines below)',
                          'harness canonical printing, tools/runner.py, tools/extract.py, tools/translate.py (Rust -> Lean translation of the layers listed in DESIGN 15.1 — lean/CB/Gen/*.lean; the theorems of CB.Props.*Gen are about its output; reference shapes lean/CB/Gen/ref), rustc/LLVM, external crates (subtle, der, rlp, serdect, hybrid-array, rand_core)'],
            theorems=po['theorems'], partial_theorems=po['partial'], leanchecker=po.get('leanchecker'),
            proof_modules=po.get('modules'), translated_from_source=(po.get('translated_from_source') if len(po.get('modules', [])) > 1 else None),
            evaluations=len(lines) * 2, distinct_nontrivial=distinct,
            rule=getattr(gmod, 'RULE', 'operation lines from corpus + directed families + seeded structured random; each line executed on the real crate in two build profiles (release, dbgchk) and on the Lean model; distinct = distinct lines, non-trivial = some operand token longer than 2 hex digits'),
            samples=samples, ops_histogram=ops_hist, impl_output_classes=out_hist,
            traces_validated_against_impl=len(lines), profile_differences=profdiff,
            known_findings_hit={k: len(v) for k, v in known_hits.items()},
            hooks_unavailable=nohooks,
            translated_layer_unbridged=(po['failed'] if gen_fallback else []),
            hook_disagreements=len(hookbreak)),
        assumptions=getattr(gmod, 'ASSUMPTIONS', []) + ['only target_pointer_width=64 is modelled'],
        wall_s=round(time.time() - t0, 2), violations=len(viol))
    if args.aux:
        json.dump(dict(rc=rc, lines=len(lines), distinct_nontrivial=distinct, violations=len(viol), hook_disagreements=len(hookbreak),
                       ops_histogram=ops_hist, samples=samples[:4], known_findings_hit={k: len(v) for k, v in known_hits.items()},
                       messages=msgs), open(args.aux, 'w'), indent=1)
    elif not args.replay:
        json.dump(ev, open(os.path.join(VERIF, 'evidence', pid + '.json'), 'w'), indent=1)
    log(f'done rc={rc} lines={len(lines)} viol={len(viol)} known={sum(len(v) for v in known_hits.values())} wall={ev["wall_s"]}s')
    sys.exit(rc)


if __name__ == '__main__':
    main()
