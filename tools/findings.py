_HEXD = '0123456789abcdefABCDEF'
"""
Classifiers for known_findings.json.  A classifier decides whether ONE disagreement
(op line, implementation output, model output) is exactly the listed finding; anything else on
the same operation or property is still reported as a VIOLATION.
"""

def exact_line(f, line, impl, model):
    return line in f.get('lines', [])

def op_and_outputs(f, line, impl, model):
    """op name matches and (impl, model) output pair matches the recorded regexes"""
    import re
    if line.split()[0] not in f.get('ops', []):
        return False
    return bool(re.fullmatch(f.get('impl_re', '.*'), impl)) and bool(re.fullmatch(f.get('model_re', '.*'), model))


def c06_boxed_hash_precision(f, line, impl, spec):
    """C06-boxed-eq-hash: BoxedUint values of DIFFERENT precision that compare equal hash differently
    (derived Hash over the raw limb slice).  Matches only op c06.b.hash with different limb counts,
    implementation output `1 0` (equal, hashes differ) and spec `1 1`."""
    t = line.split()
    return t[0] == 'c06.b.hash' and len(t) == 5 and t[1] != t[3] and impl == '1 0' and spec == '1 1'


def c05_wide_shift_zero(f, line, impl, spec):
    """Uint::overflowing_sh{l,r}_vartime_wide(.., 0) panics (inner shift by BITS is `expect`ed)"""
    t = line.split()
    return t[0] in ('c05.u.shl_wide', 'c05.u.shr_wide') and len(t) == 5 and t[4] == '0' and impl == 'panic' and spec != 'panic'


def c05_set_bit_vartime_oob(f, line, impl, spec):
    """set_bit_vartime(index >= BITS) indexes out of bounds (set_bit is a no-op there)"""
    t = line.split()
    return (t[0] in ('c05.u.set_bit_vartime', 'c05.b.set_bit_vartime') and len(t) == 5
            and int(t[3]) >= 64 * int(t[1]) and impl == 'panic' and spec != 'panic')


def c05_limb_shift_overflow(f, line, impl, spec):
    """Limb::shl/shr (and << >>) with shift >= 64: documented panic, release build shifts by shift mod 64"""
    t = line.split()
    if t[0] not in ('c05.l.shl', 'c05.l.shr', 'c05.l.op_shl', 'c05.l.op_shr') or spec != 'panic':
        return False
    x, s = int(t[1], 16), int(t[2])
    if s < 64:
        return False
    r = (x << (s % 64)) & ((1 << 64) - 1) if t[0].endswith('shl') else x >> (s % 64)
    return impl == format(r, 'x')


def c05_boxed_or_assign_truncates(f, line, impl, spec):
    """BoxedUint |= rhs with rhs wider than self: limbs of rhs beyond self's precision are dropped"""
    t = line.split()
    if t[0] != 'c05.b.or_assign':
        return False
    nx, x, y = int(t[1]), int(t[2], 16), int(t[4], 16)
    return y >> (64 * nx) != 0 and impl == format((x | y) & ((1 << (64 * nx)) - 1), 'x')


def _c14_parse(line):
    """`c14.<op> n a [m] b` -> (op, n, a, m, b) with a, b as unsigned bit patterns"""
    t = line.split()
    if len(t) == 4:
        return t[0], int(t[1]), int(t[2], 16), int(t[1]), int(t[3], 16)
    if len(t) == 5:
        return t[0], int(t[1]), int(t[2], 16), int(t[3]), int(t[4], 16)
    return None


def _signed(v, limbs):
    return v - (1 << (64 * limbs)) if v >> (64 * limbs - 1) else v


def c14_floor_rem_sign(f, line, impl, model):
    """Int::checked_div_rem_floor(_vartime): the quotient is right and the remainder is exactly the
    NEGATION of floor-mod (re-signed by `opposing_signs` instead of the divisor's sign); happens only
    for a negative dividend with a non-zero remainder.  `model` is the L0 (Int.fdiv/fmod) output."""
    p = _c14_parse(line)
    if p is None or p[0] not in ('c14.div_rem_floor', 'c14.div_rem_floor_vartime'):
        return False
    _, n, a, m, b = p
    it, mt = impl.split(), model.split()
    if len(it) != 2 or len(mt) != 2 or it[0] != mt[0]:
        return False          # a wrong quotient is never this finding
    try:
        r, r0 = int(it[1], 16), int(mt[1], 16)
    except ValueError:
        return False
    num, den = _signed(a, n), _signed(b, m)
    return num < 0 and den != 0 and r0 != 0 and r != r0 and (r + r0) % (1 << (64 * m)) == 0


def c14_rem_uint_narrow(f, line, impl, model):
    """Int::div_rem_uint_vartime / rem_uint_vartime with a divisor NARROWER than the dividend: the
    remainder (< d <= 2^RBITS - 1) is returned as Int<RHS_LIMBS>, which cannot hold magnitudes
    >= 2^(RBITS-1).  Matches only: right quotient, L0 says the remainder is unrepresentable, and the
    implementation returned exactly the (re-signed) low RBITS bits of the true remainder."""
    p = _c14_parse(line)
    if p is None or p[0] != 'c14.div_rem_uint_vartime':
        return False
    _, n, a, m, d = p
    it, mt = impl.split(), model.split()
    if len(it) != 2 or len(mt) != 2 or it[0] != mt[0] or mt[1] != 'unrepresentable' or m >= n or d == 0:
        return False
    num = _signed(a, n)
    mag = abs(num) % d
    want = mag if num >= 0 else (-mag) % (1 << (64 * m))
    try:
        return int(it[1], 16) == want and mag >= (1 << (64 * m - 1))
    except ValueError:
        return False


def c16_odd_from_le_hex_reads_be(f, line, impl, model):
    """`Odd::<Uint>::from_le_hex` calls the big-endian parser: impl == big-endian reading (value if odd, else panic)."""
    t = line.split()
    if len(t) != 3 or t[0] != 'c16.odd.from_le_hex':
        return False
    n, s = int(t[1]), bytes.fromhex(t[2][1:])
    if len(s) != 16 * n or any(chr(c) not in _HEXD for c in s):
        return False                     # both readings must panic here: nothing to excuse
    v = int(s.decode('ascii'), 16)
    return impl == (format(v, 'x') if v & 1 else 'panic')


def c16_nz_from_le_byte_array_reads_be(f, line, impl, model):
    """`NonZero::from_le_byte_array` calls `from_be_byte_array`: impl == big-endian value of the bytes."""
    t = line.split()
    if len(t) != 3 or t[0] != 'c16.nz.from_le_byte_array':
        return False
    b = bytes.fromhex(t[2][1:])
    v = int.from_bytes(b, 'big')
    return v != 0 and impl == format(v, 'x')


def c16_int_from_i128_truncates(f, line, impl, model):
    """`Int::<1>::from_i128(v)` for v outside the i64 range returns the low limb instead of refusing."""
    t = line.split()
    if len(t) != 4 or t[0] != 'c16.i.from_prim' or t[1] != '1' or t[2] != 'i128' or model != 'panic':
        return False
    return impl == format(int(t[3], 16) & ((1 << 64) - 1), 'x')


def c03_trailing_carry(f, line, impl, spec):
    """C03-boxed-mul-trailing-carry: BoxedUint::mul (karatsuba_mul_limbs) with an odd shorter LHS of
    >= 33 limbs and a longer RHS loses carries of the trailing `adc_mul_limbs(yt, x, ..)` pass:
    `carry.wrapping_add(carry2)` wraps.  Matches only: op c03.b.mul, n odd >= 33, m > n, same printed
    length, and spec - impl = sum of DISTINCT powers B^k with 2*size+2 <= k <= n+m-1 (size = n-1):
    exactly one lost unit per wrapped row.  Any other wrong answer stays a VIOLATION."""
    t = line.split()
    if t[0] not in f.get('ops', []) or len(t) != 5:
        return False
    try:
        n, m = int(t[1]), int(t[2])
        li, vi = impl.split(':'); ls, vs = spec.split(':')
        if li != ls or int(li) != n + m:
            return False
        d = int(vs, 16) - int(vi, 16)
    except Exception:
        return False
    if not (n % 2 == 1 and n >= 33 and m > n and d > 0):
        return False
    size = n - 1
    k = 0
    while d:
        limb = d & ((1 << 64) - 1)
        if limb not in (0, 1):
            return False
        if limb == 1 and not (2 * size + 2 <= k <= n + m - 1):
            return False
        d >>= 64
        k += 1
    return True


def c12_swapped_byte_order(f, line, impl, spec):
    import string
    toks = line.split()
    if toks[0] not in f.get('ops', []) or len(toks) != 3 or not toks[2].startswith('x'):
        return False
    try:
        n = int(toks[1]); raw = bytes.fromhex(toks[2][1:])
    except ValueError:
        return False
    if toks[0].endswith('from_le_hex'):
        try:
            t = raw.decode('ascii')
        except UnicodeDecodeError:
            return False
        if len(t) != 16 * n or any(c not in string.hexdigits for c in t):
            return False
        v = int(t, 16); be = format(v, 'x') if v & 1 else 'panic'
    elif toks[0].endswith('from_le_byte_array'):
        if len(raw) != 8 * n:
            return False
        v = int.from_bytes(raw, 'big'); be = format(v, 'x') if v else 'none'
    else:
        return False
    return impl == be and impl != spec


def c04_boxed_assign_wider_rhs(f, line, impl, spec):
    """C04-boxed-assign-wider-rhs: `BoxedUint (+|-)= rhs` (also Wrapping<BoxedUint>, `+= Uint<N>`, `+ primitive`)
    with a right-hand side of LARGER precision whose high limbs matter: release builds drop the high limbs
    (the documented precondition is only a debug_assert) and return a value although the exact result does
    not fit / differs.  Matches only: the in-place ops, nb > na, a non-panic implementation output, and a spec
    that is `panic` or lists `panic` as an allowed alternative."""
    t = line.split()
    if t[0] not in ('c04.b.add_assign', 'c04.b.sub_assign', 'c04.b.wrapping_assign') or len(t) != 5:
        return False
    na, nb = int(t[1]), int(t[3])
    return nb > na and impl != 'panic' and 'panic' in spec.split(' || ') and not impl.startswith('routes-differ')


def _c18_bytes(tok):
    return bytes.fromhex(tok[1:]) if tok.startswith('x') and len(tok) % 2 == 1 else None


def _c18_der_len(b):
    """canonical DER definite length at the start of b -> (length, octets used) or None"""
    if not b:
        return None
    l = b[0]
    if l < 0x80:
        return l, 1
    k = l - 0x80
    if not 1 <= k <= 4 or len(b) < 1 + k or b[1] == 0:
        return None
    v = int.from_bytes(b[1:1 + k], 'big')
    if v < 0x80 or v > 0xfffffff:
        return None
    return v, 1 + k


def _c18_der_magnitude(content):
    """canonical non-negative INTEGER content octets -> magnitude octets without the pad, or None"""
    c = content
    if not c or c[0] >= 0x80:
        return None
    if len(c) > 1 and c[0] == 0:
        if c[1] < 0x80:
            return None
        return c[1:]
    return c


def c18_known(f, line, impl, model):
    """
    The recorded C18 defects, each recognised by the SHAPE of the input and the exact wrong answer
    (any other wrong answer on the same operations stays a VIOLATION):
      kind=der_oversize : a well-formed canonical DER INTEGER (resp. ANY content / UintRef bytes) whose
                          magnitude has more octets than the target type -> panic instead of an error
      kind=rlp_lenient  : rlp::decode accepts (a) bytes after the item, (b) a long-form header 0xb8 for a
                          payload of <= 55 octets; the returned value is the payload's value
    `model` is the L0 column (what the property demands): `err` in all these cases.
    """
    t = line.split()
    op = t[0]
    if model != 'err':
        return False
    try:
        nbytes = 8 * int(t[1])
    except (IndexError, ValueError):
        return False
    kind = f.get('kind')
    if kind == 'der_oversize':
        if impl != 'panic':
            return False
        if op == 'c18.der.uintref' and len(t) == 3:
            b = _c18_bytes(t[2])
            return b is not None and len(b.lstrip(b'\0') or b[-1:]) > nbytes
        if op == 'c18.der.any' and len(t) == 4:
            b = _c18_bytes(t[3])
            if t[2] != 'x02' or b is None:
                return False
            m = _c18_der_magnitude(b)
            return m is not None and len(m) > nbytes
        if op in ('c18.der.from_der', 'c18.der.any_from_der') and len(t) == 3:
            b = _c18_bytes(t[2])
            if b is None or len(b) < 2 or b[0] != 2:
                return False
            hl = _c18_der_len(b[1:])
            if hl is None:
                return False
            ln, used = hl
            content = b[1 + used:1 + used + ln]
            if len(content) != ln:
                return False
            trailing = len(b) - (1 + used + ln)
            if trailing and op == 'c18.der.any_from_der':
                return False
            m = _c18_der_magnitude(content)
            return m is not None and len(m) > nbytes
        return False
    if kind == 'rlp_lenient':
        if op != 'c18.rlp.decode' or len(t) != 3:
            return False
        b = _c18_bytes(t[2])
        if not b:
            return False
        l = b[0]
        longform = False
        if l < 0x80:
            payload, used = b[:1], 1
        elif l <= 0xb7:
            payload, used = b[1:1 + l - 0x80], 1 + l - 0x80
            if len(payload) != l - 0x80 or (len(payload) == 1 and payload[0] < 0x80):
                return False
        elif l == 0xb8 and len(b) >= 2 and 1 <= b[1] <= 55:
            payload, used = b[2:2 + b[1]], 2 + b[1]
            longform = True
            if len(payload) != b[1]:
                return False
        else:
            return False
        if (payload and payload[0] == 0) or len(payload) > nbytes:
            return False
        if not longform and used == len(b):
            return False                      # canonical input: nothing lenient about it
        return impl == format(int.from_bytes(payload, 'big'), 'x')
    return False


def c09_modulus_one(f, line, impl, spec):
    """C09-modulus-one-pow-zero-bits: modulus m = 1 and exponent_bits = 0 — pow_bounded_exp /
    multi_exponentiate_bounded_exp return `params.one`, which is 1 (= m, not canonical) for m = 1.
    Fixed forms: Montgomery form 1, retrieve() 0 (`0 1`); boxed: retrieve() also 1 (`n:1 n:1`), and the
    `retrieve() < modulus` debug assertion panics in debug builds.  Spec: `0 0` / `n:0 n:0`."""
    t = line.split()
    if t[0] == 'c09.powb' and len(t) == 9:
        m, k = t[4], t[8]
    elif t[0] == 'c09.multib' and len(t) == 8:
        m, k = t[4], t[6]
    else:
        return False
    if m.lstrip('0') != '1' or k != '0':
        return False
    n = t[3]
    if t[1] == 'boxed':
        return spec == f'{n}:0 {n}:0' and impl in (f'{n}:1 {n}:1', 'panic')
    return spec == '0 0' and impl == '0 1'


def c07_mul_mod_special_carry_overflow(f, line, impl, model):
    t = line.split()
    if len(t) != 5 or t[0] not in ('c07.u.mul_mod_special', 'c07.b.mul_mod_special'):
        return False
    try:
        n, a, b, c = int(t[1]), int(t[2], 16), int(t[3], 16), int(t[4], 16)
    except ValueError:
        return False
    B = 1 << 64
    if n < 2 or not (1 <= c < B):
        return False
    K = B ** n
    prod = a * b
    t1 = prod % K + (prod // K) * c
    carry = t1 // K
    if carry != B - 1:
        return False
    if impl == 'panic':
        return True
    s = t1 % K + ((carry + 1) % B) * c          # wrapped: (carry + 1) == 0
    rhs2 = ((s // K - 1) % B) & c
    r = (s % K - rhs2) % K
    return impl == (f'{r:x}' if t[0].startswith('c07.u.') else f'{n}:{r:x}')


def c08_modulus_one(f, line, impl, spec):
    """C08-modulus-one-not-canonical: for modulus 1 every params constructor computes
    one = (MAX mod 1) + 1 = 1 (not < m).  Matches only
      * `c08.params <kind> <n> 1`: the implementation's line is the spec's line with `one=0` replaced by `one=1`;
      * `c08.hist <kind> <n> 1 <steps>`: the spec is `0:0` at every step, the implementation prints, per step,
        `0:0`, `1:0` (fixed-width forms: stored 1, retrieve() still reduces to 0) or `1:1` (boxed forms: retrieve()
        returns 1), with nothing but `0:0` before the first `one` step (the only source of the value 1), at least
        one token other than `0:0`, and optionally a final `panic` (the `< modulus` debug assertions) after such a step.
    Any other output for modulus 1 (a value other than 0/1, a boxed-only token in a fixed-width history, a
    non-zero value before `one`, a wrong token count) is still a VIOLATION."""
    t = line.split()
    if t[0] == 'c08.params' and len(t) == 4:
        if int(t[3], 16) != 1 or ' one=0 ' not in spec:
            return False
        return impl == spec.replace(' one=0 ', ' one=1 ', 1)
    if t[0] != 'c08.hist' or len(t) != 5 or int(t[3], 16) != 1:
        return False
    kind, steps = t[1], t[4].split(';')
    it, st = impl.split(), spec.split()
    if not it or it[0] != 'mod=1' or st != ['mod=1'] + ['0:0'] * len(steps):
        return False
    toks = it[1:]
    panicked = bool(toks) and toks[-1] == 'panic'
    if panicked:
        toks = toks[:-1]
    if (not panicked and len(toks) != len(steps)) or len(toks) > len(steps):
        return False
    rep = {'const': 'const', 'dyn': 'dyn', 'dynv': 'dyn', 'boxed': 'boxed', 'boxedv': 'boxed'}.get(kind)
    if rep is None:
        return False
    seen_one = False
    bad = 0
    for i, s in enumerate(steps):
        name = s.split(',')[0].split('.')[0]
        if name == 'conv':
            rep = {'const': 'dyn', 'dyn': 'boxed', 'boxed': 'boxed'}[rep]
        if name == 'one':
            seen_one = True
        if i >= len(toks):
            break
        tok = toks[i]
        if tok == '0:0':
            continue
        if not seen_one:
            return False
        if tok != ('1:1' if rep == 'boxed' else '1:0'):
            return False
        bad += 1
    if panicked:
        return seen_one
    return bad > 0
# append to tools/findings.py (classifiers of the C10 entries in notes/C10-known_findings-entries.json)

# ---------------------------------------------------------------- C10

def _c10_nlimbs(sat_limbs):
    """safegcd_nlimbs!(64 * sat_limbs) = (bits + 64).div_ceil(62)"""
    return (64 * sat_limbs + 64 + 61) // 62


def _c10_tz(x, bits):
    return bits if x == 0 else (x & -x).bit_length() - 1


def c10_boxed_gcd_mixed_precision(f, line, impl, spec):
    """C10-boxed-gcd-mixed-precision: `Gcd::gcd / gcd_vartime for BoxedUint` with operands of DIFFERENT precision.
    `BoxedUint::ct_select(&s1, &s2, _)` (src/uint/boxed/ct.rs) builds a result of `s1`'s limb count and indexes
    `s2.limbs[i]` for every such i: a shorter rhs -> index out of bounds (panic), a longer rhs -> its high limbs are
    dropped before safegcd runs, so the gcd of (self, rhs mod 2^precision(self)) is returned; builds with debug
    assertions panic on the precision `debug_assert_eq!` for every mixed pair.  Matches only: op c10.b.gcd_mixed,
    la != lb, and the implementation output is `panic` or EXACTLY the value this defect computes (and differs from
    the spec); with an odd lhs and vartime the call goes straight to safegcd (see C10-boxed-safegcd-wider-rhs-debug-assert)."""
    import math
    t = line.split()
    if t[0] != 'c10.b.gcd_mixed' or len(t) != 6:
        return False
    la, a, lb, b, vt = int(t[1]), int(t[2], 16), int(t[3]), int(t[4], 16), t[5]
    if la == lb or impl == spec:
        return False
    if vt == '1' and a % 2 == 1:
        return False
    if impl == 'panic':
        return True           # la > lb: index out of bounds in every build; la < lb: debug assertion (dbgchk)
    if la > lb:
        return False
    wa = 64 * la
    k = min(_c10_tz(a, wa), _c10_tz(b, 64 * lb))
    s1 = a >> k if k < wa else 0
    s2 = (b >> k if k < 64 * lb else 0)
    s2t = s2 % (1 << wa)
    fo, g = (s1, s2t) if s2 % 2 == 1 else (s2t, s1)
    r = (math.gcd(fo, g) << k) % (1 << wa) if k < wa else 0
    return impl == format(r, 'x')


def c10_boxed_safegcd_wider_rhs_debug_assert(f, line, impl, spec):
    """C10-boxed-safegcd-wider-rhs-debug-assert: `Odd<BoxedUint>::gcd(_vartime)(rhs)` (and `BoxedUint::gcd_vartime`
    with an odd lhs) with rhs of LARGER precision: safegcd::boxed::gcd sizes the unsaturated limbs for the wider
    operand and converts back with `to_uint(f.bits_precision())`, whose `debug_assert_eq!(self.nlimbs(),
    safegcd_nlimbs!(bits_precision))` fires.  Release builds return the right gcd.  Matches only a `panic` output
    with lb > la on these two routes."""
    t = line.split()
    if len(t) != 6 or impl != 'panic' or spec == 'panic':
        return False
    la, a, lb = int(t[1]), int(t[2], 16), int(t[3])
    if t[0] == 'c10.b.odd_gcd_mixed':
        return lb > la
    if t[0] == 'c10.b.gcd_mixed':
        return lb > la and t[5] == '1' and a % 2 == 1
    return False


def c10_boxed_inv_odd_mod_mixed_precision(f, line, impl, spec):
    """C10-boxed-inv-odd-mod-mixed-precision: `BoxedUint::inv_odd_mod` / `BoxedSafeGcdInverter::invert` with a value
    whose precision differs from the modulus'.  Value narrower: the inverse (which is < modulus) is converted back with
    `to_uint(value.bits_precision())`, i.e. truncated to the value's precision.  Value wider: `widen()` is a
    `Vec::resize`, which TRUNCATES the value to the modulus' unsaturated limb count and the divsteps arithmetic
    wraps: `none` or the inverse of some other number is returned whenever the value exceeds the modulus' precision.  Both conditions are only `debug_assert`ed: builds with debug
    assertions panic.  Matches only: op c10.b.inv_odd_mod_mixed, la != lm, output `panic` or EXACTLY what the defect
    computes, and different from the spec."""
    import math
    t = line.split()
    if t[0] != 'c10.b.inv_odd_mod_mixed' or len(t) != 5:
        return False
    la, a, lm, m = int(t[1]), int(t[2], 16), int(t[3]), int(t[4], 16)
    if la == lm or impl == spec or m % 2 == 0:
        return False
    if impl == 'panic':
        return True
    if la > lm and a >> (64 * lm) != 0:
        # the unsaturated limbs are sized for the modulus: a value that does not fit its precision is cut to
        # 62·n bits and the divsteps arithmetic wraps — any answer other than the specified one is this defect
        return True
    if math.gcd(a, m) != 1:
        return impl == 'none'
    x = pow(a, -1, m) if m > 1 else 0
    return impl == format(x % (1 << (64 * la)), 'x')


def c15_boxed_mul_ref_operator(f, line, impl, spec):
    """C15-boxed-mul-ref-operator: in the families that list all routes to the boxed full product
    (`c15.mulwide n a b`, `c15.bm.mul na a nb b`) the LAST route is `&a * &b`.  Matches only: every other
    route equals the specification, and the last route is exactly the checked product at the left operand's
    precision (`<na>:<a*b>` when it fits in na limbs, `panic` otherwise)."""
    t = line.split()
    try:
        if t[0] == 'c15.mulwide' and len(t) == 4:
            na, a, b = int(t[1]), int(t[2], 16), int(t[3], 16)
        elif t[0] == 'c15.bm.mul' and len(t) == 5:
            na, a, b = int(t[1]), int(t[2], 16), int(t[4], 16)
        else:
            return False
    except ValueError:
        return False
    ir, sr = impl.split(' | '), spec.split(' | ')
    if len(ir) != len(sr) or len(ir) < 2 or ir[:-1] != sr[:-1]:
        return False
    p = a * b
    want = f"{na}:{p:x}" if p < (1 << (64 * na)) else 'panic'
    return ir[-1] == want and ir[-1] != sr[-1]


def _c17_decode_as_written(radix, s, cap):
    """radix_decode_str exactly as src/uint/encoding.rs computes it on the bytes `s` into a target of `cap`
    limbs (None = Vec target): 'err:<Kind>' | 'panic' | list of limbs"""
    M = (1 << 64) - 1
    if not 2 <= radix <= 36:
        return 'panic'
    d = s[1:] if s[:1] == b'+' else s
    if not d:
        return 'err:Empty'
    if d[:1] == b'_' or d[-1:] == b'_':
        return 'err:InvalidDigit'
    while d and d[0] in b'0_':
        d = d[1:]

    def dig(b):
        if 48 <= b <= 57:
            return b - 48
        if 97 <= b <= 122:
            return b - 87
        if 65 <= b <= 90:
            return b - 55
        return None if b == 95 else radix

    limbs = []
    if radix in (2, 4, 16):
        shift = {2: 1, 4: 2, 16: 4}[radix]
        per = 64 // shift
        pos = len(d)
        while pos > 0:
            buf = []
            while True:
                if pos == 0:
                    return 'panic'
                pos -= 1
                v = dig(d[pos])
                if v is None:
                    continue
                if v >= radix:
                    return 'err:InvalidDigit'
                buf.append(v)
                if pos == 0 or len(buf) == per:
                    break
            if buf:
                w = 0
                for c in reversed(buf):
                    w = ((w << shift) & M) | c
                if cap is not None and len(limbs) >= cap:
                    return 'err:InputSize'
                limbs.append(w)
        return limbs
    per, p = 0, 1
    while p * radix <= M:
        p *= radix
        per += 1
    pos = 0
    while pos < len(d):
        buf = []
        while True:
            if pos >= len(d):
                return 'panic'
            v = dig(d[pos])
            if v is None:
                pos += 1
                continue
            if v >= radix:
                return 'err:InvalidDigit'
            buf.append(v)
            pos += 1
            if pos == len(d) or len(buf) == per:
                break
        if len(buf) < per:
            per = len(buf)
        carry = 0
        for c in buf[:per]:
            carry = (carry * radix + c) & M
        mx = radix ** per & M
        for i in range(len(limbs)):
            t = limbs[i] * mx + carry
            limbs[i], carry = t & M, t >> 64
        if carry:
            if cap is not None and len(limbs) >= cap:
                return 'err:InputSize'
            limbs.append(carry)
    return limbs


def c17_error_precedence(f, line, impl, spec):
    """C17-error-precedence: the string is not a numeral (spec: InvalidDigit) but the decoder, working batch by
    batch, overflows the target before it reaches the offending byte and reports InputSize.  Matches only when
    the decoder as written yields exactly that on this input."""
    t = line.split()
    if impl != 'err:InputSize' or spec != 'err:InvalidDigit' or len(t) != 4:
        return False
    try:
        if t[0] in ('c17.u.parse', 'c17.u.parse_num'):
            cap, radix = int(t[1]), int(t[2])
        elif t[0] == 'c17.b.parse_prec':
            radix, cap = int(t[1]), max(1, (int(t[2]) + 63) // 64)
        else:
            return False
        s = bytes.fromhex(t[3][1:])
        return _c17_decode_as_written(radix, s, cap) == 'err:InputSize'
    except Exception:
        return False


def c02_boxed_ct_div_precision(f, line, impl, spec):
    """C02-boxed-ct-div-precision-assert: the constant-time BoxedUint division forms (div_rem, rem,
    wrapping_div, `/` `%` `/=` `%=` by value / reference, Wrapping) panic on the undocumented
    `assert_eq!` of `div_rem_unchecked` whenever dividend and divisor have DIFFERENT precision, although
    the property demands q, r for mixed-width divisors (div_rem_vartime / rem_vartime serve the same
    operands).  Matches only: a `_mixed` constant-time op, different limb counts, non-zero divisor,
    implementation output `panic`, specification a value.  A wrong VALUE is never this finding."""
    t = line.split()
    if t[0] not in ('c02.b.div_rem_mixed', 'c02.b.div_forms_mixed', 'c02.b.rem_forms_mixed') or len(t) != 5:
        return False
    try:
        nl, dl, d = int(t[1]), int(t[2]), int(t[4], 16)
    except ValueError:
        return False
    return nl != dl and d % (1 << (64 * dl)) != 0 and impl == 'panic' and spec != 'panic'


def c02_checked_div_mixed(f, line, impl, spec):
    """C02-boxed-checked-div-precision: BoxedUint::checked_div(&rhs) with rhs.precision != self.precision.
    `ct_select(one_with_precision(self.precision), rhs, ..)` only debug-asserts equal precision and then
    reads `rhs.limbs[i]` for i < self.nlimbs(): with debug assertions -> panic; release -> index panic for a
    NARROWER rhs, silent truncation of a WIDER rhs to self's limb count (then `zero divisor` panic if the
    truncated value is 0, else the quotient by the TRUNCATED divisor).  Matches only exactly these
    outputs; anything else on this op is a violation."""
    t = line.split()
    if t[0] != 'c02.b.checked_div_mixed' or len(t) != 5:
        return False
    try:
        nl, dl, n, d = int(t[1]), int(t[2]), int(t[3], 16), int(t[4], 16)
    except ValueError:
        return False
    if nl == dl:
        return False
    n %= 1 << (64 * nl)
    d %= 1 << (64 * dl)
    if impl == 'panic':
        return True          # debug assertions: always; release: narrower rhs, or truncated rhs == 0
    if dl < nl or d == 0:
        return False
    nz = d % (1 << (64 * nl))
    return nz != 0 and impl == f'{nl}:{n // nz:x}'
