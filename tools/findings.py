"""
Classifiers for known_findings.json.  A classifier decides whether ONE disagreement
(op line, implementation output, model output) is exactly the listed finding; anything else on
the same operation or property is still reported as a VIOLATION.
"""

def exact_line(f, line, impl, model):
    return line in f.get('lines', [])

def op_and_outputs(f, line, impl, model):
    """op name matches and (impl, model) output pair matches the recorded regexes"""
    import re
    if line.split()[0] not in f.get('ops', []):
        return False
    return bool(re.fullmatch(f.get('impl_re', '.*'), impl)) and bool(re.fullmatch(f.get('model_re', '.*'), model))
