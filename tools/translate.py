#!/usr/bin/env python3
"""
translate.py — a small Rust -> Lean 4 translator for the WORD-LEVEL layer of the crate: the straight-line
`const fn`s of src/primitives.rs (adc, sbb, mac, mul_wide, mulhilo, addhilo, overflowing_add) and of
`impl ConstChoice` in src/const_choice.rs (the Hacker's-Delight predicates, mask constructors, selects).

It is run on every check (from tools/extract.py), reads /repo's CURRENT source and writes
lean/CB/Gen/Prim.lean: one Lean definition per Rust function over `BitVec 32/64/128`, statement for statement
(`let` for `let`, `wrapping_sub` -> `-`, `!` -> `~~~`, `as` -> `setWidth`, `Self(x)`/`self.0` -> the word itself).
lean/CB/Lemmas/GenBits.lean (hand-written, imports the generated file) proves with `bv_decide` what each
generated function MEANS (`from_word_lt x y = if x < y then all-ones else 0`, `adc`: lo + 2^64 hi = a + b + c, ...);
those are the facts the limb-level proofs rest on (CB/Lemmas/WordBits.lean states the same meaning for the
hand-written Nat model).  So for this layer the theorems are re-checked against what the code says NOW:
a one-token change in one of these functions changes the generated definition and the meaning theorem no longer
checks (a proof obligation of C04/C06 breaks -> search for a failing input -> report); a harmless rewrite inside the
supported subset still passes `bv_decide`, which decides the equivalence rather than matching syntax.

Supported subset (anything else makes the function "not translated": the last committed translation is kept,
and the evidence says so — the behavioural correspondence then carries the tie alone, no alarm is raised):
  types u8 u32 u64 u128 Word WideWord bool Self/ConstChoice (a 64-bit mask word), pairs of those;
  `let [mut] x = e;`, `let (a, b) = e;`, `debug_assert!(..)` (skipped), final expression, `return`-free bodies;
  operators ! - & | ^ << >> + - * == != < (shift amounts constant after folding `T::BITS`), `e as T`,
  methods wrapping_add/sub/mul/neg, overflowing_add, calls to other translated functions (`Self::f`, `x.f(..)`),
  `Self(e)`, `self.0`, `Self::TRUE/FALSE`, `T::MAX`, `T::BITS`, integer literals.

Second unit group (written to lean/CB/Gen/DivLimb.lean, which imports CB.Gen.Prim): the word-level division layer
src/uint/div_limb.rs, 64-bit configuration — `reciprocal`, `lt`, `select`, `short_div`, `div2by1`, `div3by2` and
`impl Reciprocal { new, default }`; `struct Reciprocal` becomes a Lean structure with the same field names.
Subset extensions used there (available to every unit):
  private `const fn`s (per unit), multi-line parameter lists, `&T` parameters;
  calls across units: bare `f(..)` resolves to the unit itself, then to the units it lists (primitives), `ConstChoice::f(..)`
  and methods on a `ConstChoice` value resolve to the ConstChoice unit (method chains `ConstChoice::g(x).or(..)`);
  structs with named integer fields: `s.field`, `Self { a, b: e }`; newtypes `Limb`, `NonZero<Limb>` (`.0` is the word);
  `let x: T = e`, `let (mut a, b) = e`, assignment `x = e` and compound assignment `x op= e` (each becomes a fresh `let`);
  `<<`/`>>` by a non-constant amount (release semantics: the amount is taken modulo the bit width);
  `leading_zeros()` (`BitVec.clz`); `as` between integer types;
  `while` loops with a data-independent trip count:
    - `while i > 0 { i -= 1; .. }` with a non-literal `i` becomes a structurally recursive auxiliary definition
      `<fn>_loop<k> captured.. : Nat → state.. → state` (state = the variables the body assigns, captured = the other
      variables it reads), called with `i.toNat`; inside round `n + 1` the counter is `BitVec.ofNat w n`;
    - `let mut i = K; while i < N { ..; i += 1; }` with literal K, N and a body that does not read `i` becomes the same
      kind of auxiliary definition, called with the literal trip count N - K;
    - any other loop whose condition can be evaluated (counter and bound literals) is unrolled by executing it
      symbolically (at most 256 rounds).

Third unit group (written to lean/CB/Gen/Chains.lean, imports CB.Gen.Prim): the carry chains over the limbs of a
`Uint<LIMBS>` — `impl Limb { adc, sbb, mac, is_nonzero }` (src/limb/{add,sub,mul,cmp}.rs; namespace CB.Gen.Chains.Limb)
and `impl<const LIMBS: usize> Uint<LIMBS> { adc, wrapping_add, sbb, wrapping_sub, carrying_neg, wrapping_neg, is_nonzero,
eq, lt, gt, lte }` (src/uint/{add,sub,neg,cmp}.rs; namespace CB.Gen.Chains.Uint).  Subset extensions used there:
  a unit gathered from the inherent impl blocks (`impl[<..>] Ty[<..>] {`) of SEVERAL files (`rel` a list);
  a unit generic over a limb count (`generic='LIMBS'`): every definition takes `(LIMBS : Nat)` first, calls inside the unit
  pass it on; a `Uint<LIMBS>` / `Self` / `[Limb; LIMBS]` value is the list of its limbs `List (BitVec 64)`, little endian:
  `x.limbs` is `x`, `Self { limbs }` / `Uint::new(limbs)` is `limbs`, `[Limb::ZERO; LIMBS]` is `List.replicate LIMBS 0#64`,
  `x.limbs[i]` is `x.getD i 0#64` (total; inside `while i < LIMBS` on a `LIMBS`-limb value the default is never taken),
  `arr[i] = e` / `arr[i] op= e` is a fresh `let arr' := arr.set i e`; indices are `Nat`s (the counter, literals, `+`);
  `Limb(e)`, `Limb::ZERO/ONE/MAX`, `Limb::BITS`; methods resolve by the receiver's type: on a `Limb` to the `Limb` unit, on a
  `Uint` to the `Uint` unit, on a choice to the ConstChoice unit; inside `impl Limb`/`impl Uint` a bare `adc(..)` is the
  imported free function (units listed under `use`), never the method of the same name;
  a fourth `while` form:
    - `let mut i = K; while i < BOUND { ..; i += k; }` with literal K, k >= 1, a `Nat` bound (`LIMBS`) and a body that may
      use `i` as an index becomes an auxiliary definition `<fn>_loop<j> captured.. : Nat → Nat → state.. → state` by
      recursion on a fuel argument (called with BOUND - K, which always suffices); the second `Nat` is the current `i`,
      and every round re-tests `i < BOUND` exactly like the `while` (`if i < BOUND then .. recurse with i + k else state`).
      state = the outer variables the body assigns (arrays included), captured = the other outer variables it reads, both
      in the order of their declaration in the function (not of their use: reordering the statements of the body keeps
      the signature).  An untyped state variable (`let mut carry = 1;`) gets the one integer width that type-checks the
      body (tried: 8, 32, 64, 128; none or several -> unsupported).

Fourth unit group (written to lean/CB/Gen/Encoding.lean, imports CB.Gen.Prim): the word-level helpers of the encoders /
decoders — the constant-time hex decoder `decode_nibble`, `decode_hex_byte` of src/uint/encoding.rs (namespace
CB.Gen.Encoding).  Subset extensions used there:
  `u16`; the SIGNED integer types i8 i16 i32 i64 i128: the same `BitVec w` (two's complement pattern), but `>>` is the
  arithmetic shift `BitVec.sshiftRight`, `<` `>` `<=` `>=` are the signed comparisons (`BitVec.slt` / `BitVec.sle`), `as` FROM a
  signed type to a wider type sign-extends (`BitVec.signExtend`; to a narrower or equally wide type it keeps the low bits,
  and `as` from an unsigned type zero-extends whatever the target), `+ - * & | ^ <<` and unary `-` are the operations
  on the pattern (release semantics: wrapping); literals with a signed suffix (`0x2fi16`) and `let x: i16 = -1;`;
  a fixed array of words `[u8; 2]` (parameter type) is the tuple of its elements, `bytes[K]` with a literal K its component.
Second unit of that file: the primitive conversions `impl<const LIMBS: usize> Uint<LIMBS> { from_u8, from_u16, from_u32,
from_u64, from_word, from_wide_word }` of src/uint/from.rs (namespace CB.Gen.Encoding.Uint; the 64-bit configuration).
Subset extensions used there:
  `assert!(cond, "message");` at the START of a body (before any other statement): the function `f` is translated as if
  the assertions held, and their conjunction becomes a second definition `f_asserts : <same parameters> → Bool` (emitted
  with `f`, like the loop definitions) — "the call panics" is `f_asserts .. = false`; comparisons between limb counts
  (`LIMBS >= 1`) are `decide`d on `Nat`; a function with assertions cannot be called from another translated function
  (its panic would be lost), an `assert!` anywhere else is outside the subset;
  `arr[i].0 = e` / `arr[i].0 op= e` (the word inside limb `i`): `arr[i] = Limb(e)` / `arr[i] = Limb(arr[i].0 op e)`.
Fifth unit group (round 4; written to lean/CB/Gen/MulRows.lean, imports CB.Gen.Chains): the multiplication rows —
`impl Limb { saturating_mul, wrapping_mul, mul_wide }` (src/limb/mul.rs; namespace CB.Gen.MulRows.Limb; `Limb::mac` is in the
Chains unit) and the slice function `schoolbook_multiplication` of src/uint/mul.rs (namespace CB.Gen.MulRows;
`schoolbook_squaring` is wanted too and reported `missing` until `Limb::shr` / `Limb::overflowing_add` are in a unit).
Subset extensions used there:
  slices `&[Limb]` / `&mut [Limb]`: the list of the limbs, `s.len()` is `s.length` (a `Nat`);
  a `const fn` WITHOUT a return type (unit option `private='any'`) that has `&mut [Limb]` parameters RETURNS the final values
  of those parameters (a tuple in parameter order) — the standard functional translation of in-place updates;
  a guard `if cond { panic!(".."); }` of such a function is dropped and recorded as a comment in the generated definition:
  the negated condition is a PRECONDITION, stated by the bridge theorems (`lo.len() == lhs.len()`, `hi.len() == rhs.len()`);
  NESTED `while` loops of the fourth form: an inner loop becomes an auxiliary definition of its own, emitted before and called
  from the outer loop's auxiliary definition (`<fn>_loop1` = outer, `<fn>_loop2` = inner); the inner bound may be `s.len()` or
  the outer counter; after a loop from 0 with step 1 the counter is the bound (`i + j` after the inner loop is `i + rhs.len()`);
  the state of a loop = every outer variable assigned at any depth of its body (the body's own `let`s are local);
  index arithmetic on `Nat`: `let k = i + j;`, `+`, `*` and `-` (truncated: equal to `usize` wherever Rust does not overflow,
  e.g. `k - lhs.len()` under `k >= lhs.len()`), comparisons of indices;
  an `if c { .. } else { .. }` STATEMENT (also `else if`): a conditional update of every outer variable one of the branches
  assigns — `let p := (if c then (<lets> (state..)) else (<lets> (state..)))`, then the variables are re-bound to the
  components; an index comparison is the `Nat` proposition itself (`k ≥ lhs.length`), a `bool` is `b = true`;
  destructuring assignment `(lv, lv, ..) = e;` with targets `x`, `arr[i]`, `arr[i].0`, `_` (right-hand side first, targets
  left to right); `u64::saturating_mul` (the double-width product has a zero high half, else MAX);
  methods of `Limb` are looked up in the Chains unit first, then in the units listed under `limb_more`.
Sixth unit group (round 4; written to lean/CB/Gen/SafeGcd.lean, imports CB.Gen.Prim): the word-level core of safegcd —
`iterations`, `inv_mod2_62`, `jump` (and its nested `const fn min`) of src/modular/safegcd.rs (namespace CB.Gen.SafeGcd; 64-bit
configuration; the hook module `mod verif { .. }`, which only re-exports them, is cut out: unit option `skip_mods`).
Subset extensions used there (those that change how a body is read are enabled per unit by `defer_lets=True`):
  slices of plain words `&[Word]` / `&[u64]`: the list of the words, `s[i]` is `s.getD i 0#64` of type `u64`;
  `type Name = <type>;` aliases of the file (`type Matrix = [[i64; 2]; 2];`), arrays of fixed arrays (the tuple of the rows),
  array LITERALS `[a, b]` (a tuple), `t[K][L]` (components), `t[K] = e` and `(t[0], t[1]) = (..)` on a fixed array (the variable
  is re-bound to the tuple with component K replaced; the right-hand side of a destructuring assignment first);
  block EXPRESSIONS `{ stmts; e }`, cfg-attributed inner blocks (`#[cfg(target_pointer_width = "32")] { .. }` is removed, the
  64-bit twin stays), `if c { a } else { b }` as an EXPRESSION (`if c then a else b`);
  a nested `const fn` item is cut out of the body and translated as a function of the unit under its own name (`min`);
  unsigned `/` and `%` by a non-zero CONSTANT (`BitVec` `udiv` / `umod`); `trailing_zeros()` (`BitVec.ctz`, the width for zero);
  `let (a, b, c) = (62, e1, e2);` with untyped literals among the components: component-wise `let`s, every right-hand side
  evaluated before any name is bound; the untyped one stays an untyped counter until a use fixes its type;
  a `let x = <expression of untyped literals and typed variables>;` whose integer type only its USE fixes
  (`let mask = (1 << n) - 1; .. & mask`) is translated at the use, at the type wanted there — refused if a variable it reads
  has been re-bound in between;
  `loop { pre..; if c { break; } post.. }` (exactly one `break`, in a top-level `if` of the body): a fifth loop form, the
  auxiliary definition `<fn>_loop<k> captured.. : Nat → state.. → state` by recursion on a FUEL argument
  (`| 0, s => s | n + 1, s => pre; if c then s' else post; recurse n s''`).  A `loop` has no syntactic trip bound: the fuel is
  an INPUT of the translation (unit option `fuel={'jump': '64'}`; without it the function is not translated) and the bridge
  has to prove that the `break` is reached within it and that more fuel changes nothing (`src_jump_fuel_suffices`).  An
  untyped state variable (`steps = 62`) gets the integer type that type-checks the body (signed and unsigned candidates; all
  successful candidates must produce the same text).
"""
import os, re, sys, json

VERIF = os.path.dirname(os.path.dirname(os.path.abspath(__file__)))
REPO = os.environ.get('CB_REPO', '/repo')
GEN = os.path.join(VERIF, 'lean', 'CB', 'Gen')

WIDTH = {'u8': 8, 'u32': 32, 'u64': 64, 'u128': 128, 'Word': 64, 'WideWord': 128, 'usize': 64}


class Unsupported(Exception):
    pass


# ------------------------------------------------------------------ tokenizer

TOK = re.compile(r'\s*(?:(//[^\n]*)|(0x[0-9a-fA-F_]+|\d[\d_]*)(u8|u32|u64|u128|usize)?|([A-Za-z_][A-Za-z0-9_]*)|(<<=|>>=|::|->|<<|>>|==|!=|<=|>=|&&|\|\||\+=|-=|\*=|\|=|&=|\^=|[-+*/%&|^!<>=(){}\[\],;:.#]))')


def tokenize(s):
    pos, out = 0, []
    while pos < len(s):
        m = TOK.match(s, pos)
        if not m:
            if s[pos:].strip() == '':
                break
            raise Unsupported('cannot tokenize at: ' + s[pos:pos + 30])
        pos = m.end()
        if m.group(1):
            continue
        if m.group(2):
            out.append(('num', int(m.group(2).replace('_', ''), 0), m.group(3)))
        elif m.group(4):
            out.append(('id', m.group(4)))
        else:
            out.append(('op', m.group(5)))
    return out


class SInt(int):
    """bit width of a SIGNED integer type (an `int`, so everything that handles widths handles it; only `>>`, the order
    comparisons and `as` look at the signedness)"""


WIDTH.update({'u16': 16})
SIGNED = {'i8': SInt(8), 'i16': SInt(16), 'i32': SInt(32), 'i64': SInt(64), 'i128': SInt(128)}
LIT_SUFFIX = set(SIGNED) | {'u16'}


def merge_suffixes(toks):
    """`0x2fi16` is tokenized as the number 0x2f followed by the identifier `i16` (the number pattern knows only the
    unsigned suffixes): glue them (a number directly followed by a type name is nothing else in Rust)"""
    out = []
    for tok in toks:
        if tok[0] == 'id' and tok[1] in LIT_SUFFIX and out and out[-1][0] == 'num' and out[-1][2] is None:
            out[-1] = ('num', out[-1][1], tok[1])
        else:
            out.append(tok)
    return out


_tokenize_unsigned = tokenize


def tokenize(s):
    return merge_suffixes(_tokenize_unsigned(s))


# ------------------------------------------------------------------ parser (expressions, statements -> AST tuples)

ASSIGN_OPS = ('=', '+=', '-=', '*=', '|=', '&=', '^=', '<<=', '>>=')


class P:
    def __init__(self, toks):
        self.t, self.i = toks, 0
        self.nostruct = False

    def peek(self, k=0):
        return self.t[self.i + k] if self.i + k < len(self.t) else ('eof',)

    def eat(self, kind=None, val=None):
        tok = self.peek()
        if kind and tok[0] != kind or (val is not None and tok[1] != val):
            raise Unsupported(f'expected {kind} {val}, got {tok}')
        self.i += 1
        return tok

    def at(self, val):
        tok = self.peek()
        return tok[0] in ('op', 'id') and tok[1] == val

    def at_end(self):
        tok = self.peek()
        return tok[0] == 'eof' or (tok[0] == 'op' and tok[1] == '}')

    # precedence climbing, Rust precedences
    LEVELS = [['||'], ['&&'], ['==', '!=', '<', '>', '<=', '>='], ['|'], ['^'], ['&'], ['<<', '>>'], ['+', '-'], ['*', '/', '%']]

    def expr(self, lvl=0):
        if lvl == len(self.LEVELS):
            return self.cast()
        lhs = self.expr(lvl + 1)
        while self.peek()[0] == 'op' and self.peek()[1] in self.LEVELS[lvl]:
            op = self.eat()[1]
            rhs = self.expr(lvl + 1)
            lhs = ('bin', op, lhs, rhs)
        return lhs

    def cast(self):
        e = self.unary()
        while self.at('as'):
            self.eat()
            e = ('as', e, self.type_())
        return e

    def type_(self):
        t = self.eat('id')[1]
        if self.at('<'):                           # NonZero<Limb>
            self.eat()
            t = f'{t}<{self.type_()}>'
            self.eat('op', '>')
        return t

    def unary(self):
        if self.at('!'):
            self.eat(); return ('not', self.unary())
        if self.at('-'):
            self.eat(); return ('neg', self.unary())
        if self.at('&'):
            self.eat(); return self.unary()        # references are transparent
        if self.at('*'):
            self.eat(); return self.unary()
        return self.postfix()

    def args(self):
        self.eat('op', '(')
        save, self.nostruct = self.nostruct, False
        a = []
        while not self.at(')'):
            a.append(self.expr())
            if self.at(','):
                self.eat()
        self.eat('op', ')')
        self.nostruct = save
        return a

    def postfix(self):
        e = self.primary()
        while True:
            if self.at('.'):
                self.eat()
                tok = self.eat()
                if tok[0] == 'num':
                    e = ('field', e, tok[1])
                elif tok[0] == 'id':
                    if self.at('('):
                        e = ('method', tok[1], e, self.args())
                    else:
                        e = ('nfield', e, tok[1])
                else:
                    raise Unsupported('postfix ' + str(tok))
            elif self.at('['):
                self.eat()
                save, self.nostruct = self.nostruct, False
                idx = self.expr()
                self.nostruct = save
                self.eat('op', ']')
                e = ('index', e, idx)
            else:
                return e

    def primary(self):
        tok = self.peek()
        if tok[0] == 'num':
            self.eat(); return ('lit', tok[1], tok[2])
        if tok[0] == 'op' and tok[1] == '(':
            self.eat()
            save, self.nostruct = self.nostruct, False
            e = self.expr()
            if self.at(','):
                items = [e]
                while self.at(','):
                    self.eat()
                    if self.at(')'):
                        break
                    items.append(self.expr())
                self.eat('op', ')')
                self.nostruct = save
                return ('tuple', items)
            self.eat('op', ')')
            self.nostruct = save
            return e
        if tok[0] == 'op' and tok[1] == '[':
            # `[elem; count]`
            self.eat()
            save, self.nostruct = self.nostruct, False
            elem = self.expr()
            if self.at(',') or self.at(']'):
                # an array LITERAL `[a, b, ..]` (round 4, safegcd): the tuple of its elements
                items = [elem]
                while self.at(','):
                    self.eat()
                    if self.at(']'):
                        break
                    items.append(self.expr())
                self.eat('op', ']')
                self.nostruct = save
                return ('tuple', items)
            self.eat('op', ';')
            count = self.expr()
            self.eat('op', ']')
            self.nostruct = save
            return ('arrayrep', elem, count)
        if tok[0] == 'op' and tok[1] == '{':
            # a block EXPRESSION `{ stmts; final }` (round 4, safegcd)
            self.eat()
            save, self.nostruct = self.nostruct, False
            stmts, fin = self.block()
            self.eat('op', '}')
            self.nostruct = save
            if fin is None:
                raise Unsupported('block expression without a value')
            return ('block', stmts, fin)
        if tok == ('id', 'if'):
            return self.if_expr()
        if tok[0] == 'id':
            path = [self.eat()[1]]
            while self.at('::'):
                self.eat(); path.append(self.eat('id')[1])
            if self.at('('):
                return ('call', path, self.args())
            if self.at('{') and not self.nostruct and len(path) == 1 and path[0][0].isupper():
                return self.struct_lit(path[0])
            if len(path) == 1:
                return ('var', path[0])
            return ('path', path)
        raise Unsupported('primary ' + str(tok))

    def if_expr(self):
        """`if cond { [stmts;] e } else { [stmts;] e }` as an EXPRESSION -> ('ifexpr', cond, ('block', ..), ('block', ..))"""
        self.eat('id', 'if')
        save, self.nostruct = self.nostruct, True
        cond = self.expr()
        self.nostruct = False
        arms = []
        for k in range(2):
            self.eat('op', '{')
            stmts, fin = self.block()
            self.eat('op', '}')
            if fin is None:
                raise Unsupported('if expression without a value')
            arms.append(('block', stmts, fin))
            if k == 0:
                if not self.at('else'):
                    raise Unsupported('if expression without else')
                self.eat()
                if self.at('if'):
                    arms.append(self.if_expr())
                    break
        self.nostruct = save
        return ('ifexpr', cond, arms[0], arms[1])

    def struct_lit(self, name):
        """`Name { a, b: e, .. }`"""
        self.eat('op', '{')
        fields = []
        while not self.at('}'):
            f = self.eat('id')[1]
            if self.at(':'):
                self.eat()
                fields.append((f, self.expr()))
            else:
                fields.append((f, ('var', f)))
            if self.at(','):
                self.eat()
        self.eat('op', '}')
        return ('struct', name, fields)

    # ---- statements
    def let_(self):
        self.eat('id', 'let')
        if self.at('('):
            self.eat()
            names = []
            while not self.at(')'):
                if self.at('mut'):
                    self.eat()
                names.append(self.eat('id')[1])
                if self.at(','):
                    self.eat()
            self.eat('op', ')')
            self.eat('op', '=')
            e = self.expr()
            self.eat('op', ';')
            return ('lettuple', names, e)
        if self.at('mut'):
            self.eat()
        name = self.eat('id')[1]
        ty = None
        if self.at(':'):
            self.eat()
            ty = self.type_()
        self.eat('op', '=')
        e = self.expr()
        self.eat('op', ';')
        return ('let', name, ty, e)

    def indexed_assign(self, stmts):
        """`name[idx] op= e;` -> ('assign_idx', name, idx, op, e); leaves the position untouched when it is something else"""
        save = self.i
        name = self.eat()[1]
        self.eat('op', '[')
        idx = self.expr()
        self.eat('op', ']')
        if self.at('.') and self.peek(1) == ('num', 0, None) and self.peek(2)[0] == 'op' and self.peek(2)[1] in ASSIGN_OPS:
            # `arr[i].0 op= e`: the word inside limb `i`
            self.eat(); self.eat()
            op = self.eat()[1]
            rhs = self.expr()
            self.eat('op', ';')
            if op != '=':
                rhs = ('bin', op[:-1], ('field', ('index', ('var', name), idx), 0), rhs)
            stmts.append(('assign_idx', name, idx, '=', ('call', ['Limb'], [rhs])))
            return True
        if not (self.peek()[0] == 'op' and self.peek()[1] in ASSIGN_OPS):
            self.i = save
            return False
        op = self.eat()[1]
        rhs = self.expr()
        self.eat('op', ';')
        stmts.append(('assign_idx', name, idx, op, rhs))
        return True

    def block(self):
        """statements up to the closing brace / end of input -> (statements, final expression or None)"""
        stmts = []
        while True:
            if self.at_end():
                return stmts, None
            tok = self.peek()
            if tok == ('op', ';'):
                self.eat()
            elif tok == ('id', 'let'):
                stmts.append(self.let_())
            elif tok == ('id', 'while'):
                self.eat()
                self.nostruct = True
                cond = self.expr()
                self.nostruct = False
                self.eat('op', '{')
                body, fin = self.block()
                if fin is not None:
                    raise Unsupported('loop body ends in an expression')
                self.eat('op', '}')
                stmts.append(('while', cond, body))
            elif tok == ('id', 'if'):
                save_i = self.i
                try:
                    stmts.append(self.if_())
                except Unsupported:
                    # not an `if` statement: an `if` EXPRESSION in final position (`if a > b { b } else { a }`)
                    self.i, self.nostruct = save_i, False
                    e = self.expr()
                    if self.at_end():
                        return stmts, e
                    raise Unsupported('if expression used as a statement')
            elif tok == ('id', 'loop') and self.peek(1) == ('op', '{'):
                self.eat(); self.eat()
                body, fin = self.block()
                if fin is not None:
                    raise Unsupported('loop body ends in an expression')
                self.eat('op', '}')
                stmts.append(('loop', body))
            elif tok == ('id', 'break') and self.peek(1) == ('op', ';'):
                self.eat(); self.eat()
                stmts.append(('break',))
            elif tok[0] == 'id' and self.peek(1)[0] == 'op' and self.peek(1)[1] in ASSIGN_OPS:
                name = self.eat()[1]
                op = self.eat()[1]
                rhs = self.expr()
                self.eat('op', ';')
                stmts.append(('assign', name, op, rhs))
            elif tok[0] == 'id' and self.peek(1) == ('op', '[') and self.indexed_assign(stmts):
                pass
            else:
                e = self.expr()
                if self.at_end():
                    return stmts, e
                if e[0] == 'tuple' and self.at('='):
                    # destructuring assignment `(lv, lv) = e;` (lv: a variable, `arr[i]`, `arr[i].0`, `_`)
                    self.eat()
                    rhs = self.expr()
                    self.eat('op', ';')
                    stmts.append(('assign_tuple', e[1], rhs))
                    continue
                raise Unsupported('statement at ' + str(self.peek()))

    def if_(self):
        """`if cond { .. } [else { .. } | else if ..]` as a STATEMENT -> ('if', cond, then statements, else statements or None)"""
        self.eat('id', 'if')
        self.nostruct = True
        cond = self.expr()
        self.nostruct = False
        self.eat('op', '{')
        then, fin = self.block()
        if fin is not None:
            raise Unsupported('if branch ends in an expression')
        self.eat('op', '}')
        els = None
        if self.at('else'):
            self.eat()
            if self.at('if'):
                els = [self.if_()]
            else:
                self.eat('op', '{')
                els, fin = self.block()
                if fin is not None:
                    raise Unsupported('else branch ends in an expression')
                self.eat('op', '}')
        return ('if', cond, then, els)


def strip_debug_asserts(body):
    """remove `debug_assert*!( .. );` (balanced parentheses) before tokenizing"""
    out, pos = '', 0
    for m in re.finditer(r'\bdebug_assert(?:_eq|_ne)?\s*!\s*\(', body):
        if m.start() < pos:
            continue
        depth, j = 1, m.end()
        while depth and j < len(body):
            depth += {'(': 1, ')': -1}.get(body[j], 0)
            j += 1
        while j < len(body) and body[j] in ' \t\n':
            j += 1
        if j < len(body) and body[j] == ';':
            j += 1
        out += body[pos:m.start()]
        pos = j
    return out + body[pos:]


def strip_panic_guards(body):
    """remove `if cond { panic!(".."); }` (a guard that only panics: its negation is a PRECONDITION of the translated function,
    stated by the bridge theorems); -> (body without the guards, [condition texts])"""
    conds = []

    def sub(m):
        conds.append(' '.join(m.group(1).split()))
        return ''
    body = re.sub(r'\bif\s+([^{};]*?)\s*\{\s*panic\s*!\s*\(\s*"[^"]*"\s*\)\s*;?\s*\}', sub, body)
    return body, conds


def _balanced_end(text, j, open_ch='{', close_ch='}'):
    """position just after the bracket closing the one opened right before `j`"""
    depth = 1
    while depth and j < len(text):
        depth += {open_ch: 1, close_ch: -1}.get(text[j], 0)
        j += 1
    return j


def select_cfg_blocks(body):
    """cfg-attributed inner BLOCKS `#[cfg(target_pointer_width = "32")] { .. }` are removed (the 64-bit configuration is
    the one translated); the attribute of the 64-bit twin is dropped later with every other attribute, its block stays"""
    while True:
        m = re.search(r'#\[cfg\(target_pointer_width\s*=\s*"32"\)\]\s*\{', body)
        if not m:
            return body
        body = body[:m.start()] + body[_balanced_end(body, m.end()):]


def strip_nested_fns(body):
    """remove nested items `const fn name(..) -> T { .. }` from a body (they are translated as functions of the unit:
    `find_functions` sees them too)"""
    while True:
        m = FN_PRIV.search(body)
        if not m:
            return body
        body = body[:m.start()] + body[_balanced_end(body, m.end()):]


def has_break(stmts):
    for st in stmts:
        if st[0] == 'break':
            return True
        if st[0] in ('while',) and has_break(st[2]):
            return True
        if st[0] == 'loop' and has_break(st[1]):
            return True
        if st[0] == 'if' and (has_break(st[2]) or (st[3] and has_break(st[3]))):
            return True
    return False


# `type Name = <type>;` aliases of the file being translated (round 4, safegcd: `type Matrix = [[i64; 2]; 2];`)
TYPE_ALIASES = {}


def lvalue_name(lv):
    """the variable a destructuring-assignment target writes: `x`, `arr[i]`, `arr[i].0` (None for `_`)"""
    if lv[0] == 'var':
        return None if lv[1] == '_' else lv[1]
    if lv[0] == 'index' and lv[1][0] == 'var':
        return lv[1][1]
    if lv[0] == 'field' and lv[2] == 0 and lv[1][0] == 'index' and lv[1][1][0] == 'var':
        return lv[1][1][1]
    raise Unsupported('assignment target ' + str(lv[0]))


def assigned_vars(stmts, acc=None, local=None):
    """names assigned by a statement list, nested `while` / `if` bodies included, in order of first assignment; variables
    declared by a `let` of the list itself (at any depth) are its locals and are left out"""
    acc = [] if acc is None else acc
    local = set() if local is None else local

    def add(n):
        if n is not None and n not in local and n not in acc:
            acc.append(n)
    for st in stmts:
        k = st[0]
        if k == 'let':
            local.add(st[1])
        elif k == 'lettuple':
            local.update(st[1])
        elif k in ('assign', 'assign_idx'):
            add(st[1])
        elif k == 'assign_tuple':
            for lv in st[1]:
                add(lvalue_name(lv))
        elif k == 'while':
            assigned_vars(st[2], acc, local)
        elif k == 'loop':
            assigned_vars(st[1], acc, local)
        elif k == 'if':
            assigned_vars(st[2], acc, local)
            if st[3]:
                assigned_vars(st[3], acc, local)
    return acc


def join_lines(sep, lines):
    """`sep.join(lines)`; an element spanning several lines (a translated `if`) keeps its relative indentation"""
    return sep.join(l.replace('\n', sep) for l in lines)


def free_vars(x, acc):
    """variable names used in an expression / statement list, in order of first use"""
    if isinstance(x, list):
        for y in x:
            free_vars(y, acc)
        return acc
    if not isinstance(x, tuple) or not x:
        return acc
    k = x[0]
    if k == 'var':
        if x[1] not in acc:
            acc.append(x[1])
    elif k == 'assign':
        if x[1] not in acc:
            acc.append(x[1])
        free_vars(x[3], acc)
    elif k == 'assign_idx':
        if x[1] not in acc:
            acc.append(x[1])
        free_vars(x[2], acc)
        free_vars(x[4], acc)
    elif k == 'let':
        free_vars(x[3], acc)
    elif k == 'lettuple':
        free_vars(x[2], acc)
    elif k == 'struct':
        for _, fe in x[2]:
            free_vars(fe, acc)
    elif k in ('lit', 'path'):
        pass
    elif k == 'call':
        free_vars(x[2], acc)
    else:
        for y in x[1:]:
            if isinstance(y, (tuple, list)):
                free_vars(y, acc)
    return acc


# ------------------------------------------------------------------ function extraction

FN = re.compile(r'((?:\s*#\[[^\]]*\]\s*)*)\s*pub(?:\([a-z]+\))?\s+const\s+fn\s+(\w+)\s*\(([^)]*)\)\s*->\s*([^{]+)\{')
FN_PRIV = re.compile(r'((?:\s*#\[[^\]]*\]\s*)*)\s*(?:pub(?:\([a-z]+\))?\s+)?const\s+fn\s+(\w+)\s*\(([^)]*)\)\s*->\s*([^{]+)\{')


FN_ANY = re.compile(r'((?:\s*#\[[^\]]*\]\s*)*)\s*(?:pub(?:\([a-z]+\))?\s+)?const\s+fn\s+(\w+)\s*\(([^)]*)\)\s*(?:->\s*([^{]+))?\{')


def find_functions(src, private=False):
    """yield (attrs, name, params, ret, body)"""
    for m in (FN_ANY if private == 'any' else FN_PRIV if private else FN).finditer(src):
        depth, j = 1, m.end()
        while depth and j < len(src):
            depth += {'{': 1, '}': -1}.get(src[j], 0)
            j += 1
        yield m.group(1), m.group(2), m.group(3), (m.group(4) or '').strip(), src[m.end():j - 1]


def parse_params(ps, self_ty):
    out = []
    for p in [x.strip() for x in ps.split(',') if x.strip()]:
        if p in ('&self', 'self', 'mut self', '&mut self'):
            out.append(('self', self_ty))
        else:
            n, t = [x.strip() for x in p.split(':', 1)]
            n = n.replace('mut ', '').strip()
            t = t.replace('&', '').strip()
            out.append((n, t))
    return out


# structs with named integer fields: rust name -> (lean name, [(field, type)]); filled while a unit is translated
STRUCTS = {}
# newtypes over `Word`: `.0` peels one layer
WRAP = {'Limb': 'wrap:1', 'NonZero<Limb>': 'wrap:2'}
# units whose functions are generic over a limb count: lean namespace -> name of the const parameter (first, explicit
# `Nat` argument of every definition of the unit)
GENERIC_NS = {}
# (namespace, function) of the functions translated with an `<fn>_asserts` companion (their `assert!`s)
ASSERTING = set()


def ty_of(t, self_ty):
    t = t.strip()
    if t in STRUCTS or (t == 'Self' and self_ty in STRUCTS):
        return 'struct:' + (self_ty if t == 'Self' else t)
    if (t == 'Self' and self_ty == 'Limb'):
        return 'wrap:1'
    if (t == 'Self' and self_ty == 'Uint') or (self_ty == 'Uint' and re.match(r'Uint\s*<\s*LIMBS\s*>$', t)):
        return 'uint'        # a `Uint<LIMBS>` / `[Limb; LIMBS]`: the list of its limbs, little endian
    if t in ('Self', 'ConstChoice'):
        return 'choice' if (self_ty == 'ConstChoice' or t == 'ConstChoice') else None
    if t == 'bool':
        return 'bool'
    if t in SIGNED:
        return SIGNED[t]
    m = re.match(r'\[\s*(\w+)\s*;\s*(\d+)\s*\]$', t)
    if m:
        # a fixed array of words `[u8; 2]`: the tuple of its elements
        el = ty_of(m.group(1), self_ty)
        if not isinstance(el, int) or int(m.group(2)) < 2:
            raise Unsupported('array type ' + t)
        return tuple(el for _ in range(int(m.group(2))))
    if t in WIDTH:
        return WIDTH[t]
    if t.replace(' ', '') in WRAP:
        return WRAP[t.replace(' ', '')]
    m = re.match(r'\((.*)\)$', t)
    if m:
        return tuple(ty_of(x, self_ty) for x in m.group(1).split(','))
    if re.match(r'(mut\s+)?\[\s*Limb\s*\]$', t):
        return 'uint'        # a slice `&[Limb]` / `&mut [Limb]`: the list of its limbs (`.len()` is `.length`)
    if re.match(r'\[\s*(Word|u64)\s*\]$', t):
        return 'words'       # a slice of plain words `&[Word]` / `&[u64]`: the list of the words; `s[i]` is a `u64`
    if t in TYPE_ALIASES:
        return ty_of(TYPE_ALIASES[t], self_ty)
    m = re.match(r'\[\s*(\[.*\])\s*;\s*(\d+)\s*\]$', t)
    if m:
        # an array of fixed arrays `[[i64; 2]; 2]`: the tuple of its rows
        el = ty_of(m.group(1), self_ty)
        if not isinstance(el, tuple) or int(m.group(2)) < 2:
            raise Unsupported('array type ' + t)
        return tuple(el for _ in range(int(m.group(2))))
    raise Unsupported('type ' + t)


def lean_ty(t):
    if t == 'choice':
        return 'BitVec 64'
    if t == 'bool':
        return 'Bool'
    if isinstance(t, tuple):
        return ' × '.join((f'({lean_ty(x)})' if isinstance(x, tuple) else lean_ty(x)) for x in t)
    if t == 'words':
        return 'List (BitVec 64)'
    if isinstance(t, str) and t.startswith('struct:'):
        return STRUCTS[t[7:]][0]
    if isinstance(t, str) and t.startswith('wrap:'):
        return 'BitVec 64'
    if t == 'uint':
        return 'List (BitVec 64)'
    if t == 'nat':
        return 'Nat'
    return f'BitVec {t}'


def atom(t):
    """parenthesize a lean term unless it is an identifier / literal / already one parenthesized group (for argument positions)"""
    if re.match(r'[\w.#]+$', t):
        return t
    if t.startswith('('):
        depth = 0
        for j, ch in enumerate(t):
            depth += {'(': 1, ')': -1}.get(ch, 0)
            if depth == 0:
                if j == len(t) - 1:
                    return t
                break
    return f'({t})'


def proj(idx, n):
    """projection of component idx of an n-tuple (right-nested pairs)"""
    return '.2' * idx + ('.1' if idx < n - 1 else '')


def parse_struct(src, name):
    """`struct Name { a: T, .. }` -> [(field, type)]"""
    m = re.search(r'\bstruct\s+' + name + r'\s*\{([^}]*)\}', src)
    if not m:
        raise Unsupported('struct ' + name + ' not found')
    fields = []
    body = re.sub(r'//[^\n]*', '', m.group(1))
    body = re.sub(r'#\[[^\]]*\]', '', body)
    for f in [x.strip() for x in body.split(',') if x.strip()]:
        f = re.sub(r'^pub(?:\([a-z]+\))?\s+', '', f)
        n, t = [x.strip() for x in f.split(':', 1)]
        ty = ty_of(t, None)
        if not isinstance(ty, int):
            raise Unsupported('field type ' + t)
        fields.append((n, ty))
    if not fields:
        raise Unsupported('empty struct')
    return fields


# ------------------------------------------------------------------ code generation

class Gen:
    def __init__(self, sigs, self_ty, ns, ext=None):
        self.sigs, self.self_ty, self.ns = sigs, self_ty, ns
        self.ext = ext or {}        # 'choice': (namespace, sigs) of the ConstChoice unit; 'use': [(namespace, sigs)] for bare calls;
        #                             'limb' / 'uint': (namespace, sigs) of the units holding the methods of `Limb` / `Uint<LIMBS>`
        self.generic = GENERIC_NS.get(ns)   # name of the unit's const parameter (`LIMBS`), an explicit `Nat` argument
        self.reset('')

    def reset(self, fname):
        self.fname, self.cenv, self.aux, self.pn, self.nloop = fname, {}, [], 0, 0

    def const(self, e):
        """fold a constant Nat expression (shift amounts, T::BITS - 1, untyped literal counters) or return None"""
        k = e[0]
        if k == 'lit':
            return e[1]
        if k == 'var' and e[1] in self.cenv:
            return self.cenv[e[1]]
        if k == 'path' and len(e[1]) == 2 and e[1][1] == 'BITS' and e[1][0] in WIDTH:
            return WIDTH[e[1][0]]
        if k == 'path' and e[1] == ['Limb', 'BITS']:
            return 64
        if k == 'bin' and e[1] in '+-*':
            a, b = self.const(e[2]), self.const(e[3])
            if a is None or b is None:
                return None
            return {'+': a + b, '-': a - b, '*': a * b}[e[1]]
        if k == 'as':
            return self.const(e[1])
        return None

    def cond_const(self, e):
        """a comparison of constants -> bool, else None"""
        if e[0] == 'bin' and e[1] in ('<', '>', '<=', '>=', '==', '!='):
            a, b = self.const(e[2]), self.const(e[3])
            if a is None or b is None:
                return None
            return {'<': a < b, '>': a > b, '<=': a <= b, '>=': a >= b, '==': a == b, '!=': a != b}[e[1]]
        return None

    def lookup(self, name, where):
        """-> (namespace, signature) of a callable, or (None, None)"""
        if where == 'choice' and self.self_ty != 'ConstChoice':
            c = self.ext.get('choice')
            return (c[0], c[1].get(name)) if c else (None, None)
        if where in ('limb', 'uint'):
            # a method of `Limb` / `Uint<LIMBS>`: the unit itself when it is the impl of that type, else the unit holding it
            if self.self_ty == {'limb': 'Limb', 'uint': 'Uint'}[where]:
                return (self.ns, self.sigs[name]) if name in self.sigs else (None, None)
            c = self.ext.get(where)
            if not (c and name in c[1]):
                for c2 in self.ext.get(where + '_more', []):      # further units holding methods of the same type
                    if name in c2[1]:
                        return c2[0], c2[1][name]
            return (c[0], c[1].get(name)) if c else (None, None)
        if where == 'bare' and self.self_ty in ('Limb', 'Uint'):
            # inside `impl Limb` a bare `adc(..)` is the imported free function, never the method of the same name
            for ns, sg in self.ext.get('use', []):
                if name in sg:
                    return ns, sg[name]
            return None, None
        if name in self.sigs:
            return self.ns, self.sigs[name]
        if where == 'bare':
            for ns, sg in self.ext.get('use', []):
                if name in sg:
                    return ns, sg[name]
        return None, None

    def is_lit_var(self, e, env):
        return e[0] == 'var' and e[1] in env and env[e[1]][1] == 'lit'

    def ex(self, e, env, want=None):
        """-> (lean text, type)"""
        k = e[0]
        if k == 'lit':
            if want == 'nat' and e[2] in (None, 'usize'):
                return str(e[1]), 'nat'          # an index / limb count
            if e[2] in SIGNED:
                return f'{e[1]}#{SIGNED[e[2]]}', SIGNED[e[2]]
            w = WIDTH.get(e[2]) if e[2] else (want if isinstance(want, int) else None)
            if w is None:
                raise Unsupported('untyped literal')
            return f'{e[1]}#{w}', w
        if k == 'var':
            if e[1] not in env:
                raise Unsupported('unknown variable ' + e[1])
            if env[e[1]][1] == 'defer':
                # `let mask = (1 << n) - 1;` whose integer type is fixed by its USE: translated where it is used, at the type
                # wanted there, provided no variable it reads has been re-bound since the `let`
                dexpr, snap = env[e[1]][3], env[e[1]][2]
                if not isinstance(want, int):
                    raise Unsupported('untyped literal')
                for v in free_vars(dexpr, []):
                    if v in snap and env.get(v) != snap[v]:
                        raise Unsupported('deferred let: a variable it reads was re-bound before its use')
                return self.ex(dexpr, snap, want)
            if env[e[1]][1] == 'lit':
                if want == 'nat':
                    return env[e[1]][0], 'nat'
                if not isinstance(want, int):
                    raise Unsupported('untyped literal')
                return f'{env[e[1]][0]}#{want}', want
            return env[e[1]]
        if k == 'path':
            p = e[1]
            if p[0] in ('Self', 'ConstChoice') and p[1] in ('TRUE', 'FALSE'):
                return ('(~~~0#64)' if p[1] == 'TRUE' else '0#64'), 'choice'
            if p[0] in WIDTH and p[1] == 'MAX':
                return f'(~~~0#{WIDTH[p[0]]})', WIDTH[p[0]]
            if p[0] in WIDTH and p[1] == 'BITS':
                return f'{WIDTH[p[0]]}#32', 32
            if len(p) == 2 and (p[0] == 'Limb' or (p[0] == 'Self' and self.self_ty == 'Limb')) and p[1] in ('ZERO', 'ONE', 'MAX'):
                return {'ZERO': '0#64', 'ONE': '1#64', 'MAX': '(~~~0#64)'}[p[1]], 'wrap:1'
            if len(p) == 2 and p[0] == 'Limb' and p[1] == 'BITS':
                return '64#32', 32
            raise Unsupported('path ' + '::'.join(p))
        if k == 'field':
            t, ty = self.ex(e[1], env)
            if ty == 'choice' and e[2] == 0:
                return t, 64
            if isinstance(ty, str) and ty.startswith('wrap:') and e[2] == 0:
                d = int(ty[5:])
                return t, (64 if d == 1 else f'wrap:{d - 1}')
            if isinstance(ty, tuple):
                return f'({t}).{e[2] + 1}', ty[e[2]]
            raise Unsupported('field of ' + str(ty))
        if k == 'index':
            t, ty = self.ex(e[1], env)
            if isinstance(ty, tuple):
                # a fixed array of words: component K for a literal K
                c = self.const(e[2])
                if c is None or not 0 <= c < len(ty):
                    raise Unsupported('index into a fixed array')
                return f'{atom(t)}{proj(c, len(ty))}', ty[c]
            if ty == 'words':
                ix, tix = self.ex(e[2], env, 'nat')
                if tix != 'nat':
                    raise Unsupported('index of type ' + str(tix))
                return f'({atom(t)}.getD {atom(ix)} 0#64)', 64
            if ty != 'uint':
                raise Unsupported('index into ' + str(ty))
            ix, tix = self.ex(e[2], env, 'nat')
            if tix != 'nat':
                raise Unsupported('index of type ' + str(tix))
            # total access: inside `while i < LIMBS` on a `LIMBS`-limb value the default is never taken
            return f'({atom(t)}.getD {atom(ix)} 0#64)', 'wrap:1'
        if k == 'arrayrep':
            el, tel = self.ex(e[1], env, 'wrap:1')
            n, tn = self.ex(e[2], env, 'nat')
            if tel != 'wrap:1' or tn != 'nat':
                raise Unsupported('array literal')
            return f'(List.replicate {atom(n)} {atom(el)})', 'uint'
        if k == 'nfield':
            t, ty = self.ex(e[1], env)
            if ty == 'uint' and e[2] == 'limbs':
                return t, 'uint'
            if isinstance(ty, str) and ty.startswith('struct:'):
                for f, fty in STRUCTS[ty[7:]][1]:
                    if f == e[2]:
                        return (f'{t}.{f}' if re.match(r'\w+$', t) else f'({t}).{f}'), fty
            raise Unsupported('named field ' + e[2])
        if k == 'struct':
            name = self.self_ty if e[1] == 'Self' else e[1]
            if name == 'Uint' and self.generic and [f for f, _ in e[2]] == ['limbs']:
                t, ty = self.ex(e[2][0][1], env)
                if ty != 'uint':
                    raise Unsupported('Uint { limbs } of ' + str(ty))
                return t, 'uint'
            if name not in STRUCTS:
                raise Unsupported('struct literal ' + str(e[1]))
            lname, fields = STRUCTS[name]
            given = dict(e[2])
            if len(given) != len(e[2]) or set(given) != {f for f, _ in fields}:
                raise Unsupported('struct literal fields')
            parts = []
            for f, fty in fields:
                t, ty = self.ex(given[f], env, fty)
                if ty != fty:
                    raise Unsupported(f'field type {ty} for {fty}')
                parts.append(f'{f} := {t}')
            return '({ ' + ', '.join(parts) + ' } : ' + lname + ')', 'struct:' + name
        if k == 'block':
            if not e[1]:
                return self.ex(e[2], env, want)
            e2, l2, saved = dict(env), [], dict(self.cenv)
            self.run(e[1], e2, l2)
            t, ty = self.ex(e[2], e2, want)
            self.cenv = saved
            return '(' + join_lines('\n    ', l2 + [t]) + ')', ty
        if k == 'ifexpr':
            c = self.cond_prop(e[1], env)
            a, ta = self.ex(e[2], env, want)
            b, tb = self.ex(e[3], env, ta)
            if ta != tb:
                raise Unsupported('if expression: branch types differ')
            return f'(if {c} then {a} else {b})', ta
        if k == 'tuple':
            parts = [self.ex(x, env, (want[i] if isinstance(want, tuple) and i < len(want) else None)) for i, x in enumerate(e[1])]
            return '(' + ', '.join(p[0] for p in parts) + ')', tuple(p[1] for p in parts)
        if k == 'not':
            t, ty = self.ex(e[1], env, want)
            if ty == 'bool':
                return f'(!{t})', 'bool'
            return f'(~~~{t})', ty
        if k == 'neg':
            t, ty = self.ex(e[1], env, want)
            return f'(-{t})', ty
        if k == 'as':
            tgt = ty_of(e[2], self.self_ty)
            if not isinstance(tgt, int):
                raise Unsupported('cast to ' + str(e[2]))
            t, ty = self.ex(e[1], env, tgt if (e[1][0] == 'lit' or self.is_lit_var(e[1], env)) else None)
            if ty == 'bool':
                return f'(if {t} then 1#{tgt} else 0#{tgt})', tgt
            if ty == 'choice':
                ty = 64
            if ty == tgt:
                return t, tgt
            if not isinstance(ty, int):
                raise Unsupported('cast of ' + str(ty))
            if isinstance(ty, SInt) and tgt > ty:
                return f'({t}).signExtend {tgt}', tgt      # `as` from a signed type to a wider one
            return f'({t}).setWidth {tgt}', tgt
        if k == 'bin':
            op = e[1]
            if op in ('<<', '>>'):
                t, ty = self.ex(e[2], env, want)
                lop = '<<<' if op == '<<' else '>>>'
                c = self.const(e[3])
                if c is None:
                    # release semantics of a non-constant amount: taken modulo the bit width of the shifted value
                    if not isinstance(ty, int):
                        raise Unsupported('shift of ' + str(ty))
                    s, ts = self.ex(e[3], env)
                    if not isinstance(ts, int) or ty >= 2 ** ts:
                        raise Unsupported('shift amount type')
                    if isinstance(ty, SInt) and op == '>>':
                        return f'(BitVec.sshiftRight {atom(t)} ({s} % {ty}#{ts}).toNat)', ty
                    return f'({t} {lop} ({s} % {ty}#{ts}))', ty
                if isinstance(ty, SInt) and op == '>>':
                    if not 0 <= c < ty:
                        raise Unsupported('shift amount')
                    return f'(BitVec.sshiftRight {atom(t)} {c})', ty      # arithmetic shift of a signed value
                return f'({t} {lop} {c})', ty
            if want == 'nat' and op == '+':
                a, ta = self.ex(e[2], env, 'nat'); b, tb = self.ex(e[3], env, 'nat')
                if ta != 'nat' or tb != 'nat':
                    raise Unsupported('index arithmetic')
                return f'({a} + {b})', 'nat'
            if op in ('+', '-', '*') and (want == 'nat' or self.is_nat(e, env)):
                # index arithmetic on `Nat`s (`-` is truncated: it agrees with `usize` wherever Rust does not overflow)
                a, ta = self.ex(e[2], env, 'nat'); b, tb = self.ex(e[3], env, 'nat')
                if ta != 'nat' or tb != 'nat':
                    raise Unsupported('index arithmetic')
                return f'({a} {op} {b})', 'nat'
            if op in ('==', '!=', '<', '>', '<=', '>=') and (self.is_nat(e[2], env) or self.is_nat(e[3], env)):
                return f'(decide ({self.nat_cmp(e, env)}))', 'bool'
            a, ta = None, None
            # literals take the type of the other operand
            if (e[2][0] == 'lit' and not e[2][2]) or self.is_lit_var(e[2], env):
                b, tb = self.ex(e[3], env, want); a, ta = self.ex(e[2], env, tb)
            else:
                a, ta = self.ex(e[2], env, want); b, tb = self.ex(e[3], env, ta)
            if ta == 'choice':
                ta = 64
            if tb == 'choice':
                tb = 64
            if ta != tb:
                raise Unsupported(f'operand types differ: {ta} {tb}')
            if ta == 'nat' and op in ('==', '!=', '<', '>', '<=', '>='):
                # a comparison between limb counts / indices (`assert!(LIMBS >= 1)`)
                return f'(decide ({a} {dict([("==", "="), ("!=", "≠"), ("<", "<"), (">", ">"), ("<=", "≤"), (">=", "≥")])[op]} {b}))', 'bool'
            if ta == 'nat':
                raise Unsupported('index arithmetic')
            if op in ('==', '!=', '<', '>', '<=', '>='):
                if ta == 'bool':
                    raise Unsupported('bool comparison')
                lop = {'==': '==', '!=': '!=', '<': '<', '>': '>', '<=': '≤', '>=': '≥'}[op]
                if op in ('==', '!='):
                    return f'({a} {lop} {b})', 'bool'
                if isinstance(ta, SInt) or isinstance(tb, SInt):
                    if not (isinstance(ta, SInt) and isinstance(tb, SInt)):
                        raise Unsupported('comparison of a signed and an unsigned value')
                    sop = {'<': f'BitVec.slt {atom(a)} {atom(b)}', '>': f'BitVec.slt {atom(b)} {atom(a)}',
                           '<=': f'BitVec.sle {atom(a)} {atom(b)}', '>=': f'BitVec.sle {atom(b)} {atom(a)}'}[op]
                    return f'({sop})', 'bool'
                return f'(decide ({a} {lop} {b}))', 'bool'
            if op in ('&&', '||'):
                return f'({a} {op} {b})', 'bool'
            if op in ('/', '%') and isinstance(ta, int) and not isinstance(ta, SInt) and ta != 'bool':
                # unsigned division / remainder (`BitVec` `/` and `%` are `udiv` / `umod`; a zero divisor panics in Rust and
                # yields 0 / the dividend here: only constant non-zero divisors are accepted)
                if not self.const(e[3]):
                    raise Unsupported('division by a non-constant')
                return f'({a} {op} {b})', ta
            lop = {'&': '&&&', '|': '|||', '^': '^^^', '+': '+', '-': '-', '*': '*'}.get(op)
            if lop is None or ta == 'bool' or not isinstance(ta, int):
                raise Unsupported('operator ' + op)
            return f'({a} {lop} {b})', ta
        if k == 'method':
            name, recv, args = e[1], e[2], e[3]
            r, tr = self.ex(recv, env)
            if name == 'len' and tr == 'uint' and not args:
                return f'{atom(r)}.length', 'nat'
            if name == 'saturating_mul' and isinstance(tr, int) and len(args) == 1:
                b, tb = self.ex(args[0], env, tr)
                if tb != tr:
                    raise Unsupported('saturating_mul types')
                return (f'(if (({r}).setWidth {2 * tr} * ({b}).setWidth {2 * tr}) >>> {tr} == 0#{2 * tr} then ({r} * {b}) else (~~~0#{tr}))'), tr
            if name in ('wrapping_add', 'wrapping_sub', 'wrapping_mul'):
                b, tb = self.ex(args[0], env, tr)
                if tb != tr:
                    raise Unsupported('wrapping op types')
                return f'({r} {dict(wrapping_add="+", wrapping_sub="-", wrapping_mul="*")[name]} {b})', tr
            if name == 'wrapping_neg':
                return f'(-{r})', tr
            if name == 'overflowing_add':
                b, tb = self.ex(args[0], env, tr)
                return f'(({r} + {b}), decide (({r} + {b}) < {r}))', (tr, 'bool')
            if name == 'trailing_zeros' and isinstance(tr, int) and not args:
                return (f'(BitVec.ctz {atom(r)})' if tr == 32 else f'((BitVec.ctz {atom(r)})).setWidth 32'), 32
            if name == 'leading_zeros' and isinstance(tr, int) and not args:
                return (f'(BitVec.clz {atom(r)})' if tr == 32 else f'((BitVec.clz {atom(r)})).setWidth 32'), 32
            if tr == 'choice':
                return self.call(name, [recv] + args, env, 'choice')
            if tr == 'wrap:1':
                return self.call(name, [recv] + args, env, 'limb')
            if tr == 'uint':
                return self.call(name, [recv] + args, env, 'uint')
            raise Unsupported('method ' + name)
        if k == 'call':
            p = e[1]
            if (p == ['Self'] and self.self_ty == 'ConstChoice') or p == ['ConstChoice']:
                t, ty = self.ex(e[2][0], env, 64)
                if ty != 64:
                    raise Unsupported('Self(non-word)')
                return t, 'choice'
            if p == ['Limb'] or (p == ['Self'] and self.self_ty == 'Limb'):
                if len(e[2]) != 1:
                    raise Unsupported('Limb(..) arity')
                t, ty = self.ex(e[2][0], env, 64)
                if ty != 64:
                    raise Unsupported('Limb(non-word)')
                return t, 'wrap:1'
            if len(p) == 2 and p[1] == 'new' and self.generic and (p[0] == 'Uint' or (p[0] == 'Self' and self.self_ty == 'Uint')):
                # `Uint::new(limbs)` is `Self { limbs }`
                if len(e[2]) != 1:
                    raise Unsupported('Uint::new arity')
                t, ty = self.ex(e[2][0], env)
                if ty != 'uint':
                    raise Unsupported('Uint::new of ' + str(ty))
                return t, 'uint'
            if len(p) == 2 and p[0] == 'Limb' and self.self_ty != 'Limb':
                return self.call(p[1], e[2], env, 'limb')
            if len(p) == 2 and p[0] == 'Uint' and self.self_ty != 'Uint':
                return self.call(p[1], e[2], env, 'uint')
            if len(p) == 2 and p[0] in ('Limb', 'Uint') and p[0] == self.self_ty:
                return self.call(p[1], e[2], env, 'self')
            if len(p) == 2 and p[0] == 'Self':
                return self.call(p[1], e[2], env, 'self')
            if len(p) == 2 and p[0] == 'ConstChoice':
                return self.call(p[1], e[2], env, 'choice')
            if len(p) == 1:
                return self.call(p[0], e[2], env, 'bare')
            raise Unsupported('call ' + '::'.join(p))
        raise Unsupported('expr ' + k)

    def is_nat(self, e, env):
        """an index expression: a `Nat` variable (loop counter, `let k = i + j`), `slice.len()`, `+ - *` with such an operand"""
        k = e[0]
        if k == 'var':
            return e[1] in env and env[e[1]][1] == 'nat'
        if k == 'method' and e[1] == 'len' and not e[3]:
            return True
        if k == 'bin' and e[1] in ('+', '-', '*'):
            return self.is_nat(e[2], env) or self.is_nat(e[3], env)
        return False

    def nat_cmp(self, e, env):
        """a comparison of index expressions as a lean proposition"""
        a, ta = self.ex(e[2], env, 'nat'); b, tb = self.ex(e[3], env, 'nat')
        if ta != 'nat' or tb != 'nat':
            raise Unsupported('index comparison')
        lop = {'==': '=', '!=': '≠', '<': '<', '>': '>', '<=': '≤', '>=': '≥'}[e[1]]
        return f'{a} {lop} {b}'

    def cond_prop(self, cond, env):
        """the condition of an `if` statement as a (decidable) lean proposition"""
        if cond[0] == 'bin' and cond[1] in ('==', '!=', '<', '>', '<=', '>=') and (self.is_nat(cond[2], env) or self.is_nat(cond[3], env)):
            return self.nat_cmp(cond, env)
        t, ty = self.ex(cond, env)
        if ty != 'bool':
            raise Unsupported('if condition of type ' + str(ty))
        return f'{t} = true'

    def call(self, name, args, env, where='self'):
        ns, sig = self.lookup(name, where)
        if sig is None:
            raise Unsupported('call to untranslated ' + name)
        if (ns, name) in ASSERTING:
            raise Unsupported('call to a function with assert! (' + name + ')')
        ptys, rty = sig
        if len(ptys) != len(args):
            raise Unsupported('arity ' + name)
        parts = []
        for a, pt in zip(args, ptys):
            t, ty = self.ex(a, env, pt)
            if ty != pt and not (ty == 64 and pt == 'choice') and not (ty == 'choice' and pt == 64):
                raise Unsupported(f'argument type {ty} for {pt} in {name}')
            parts.append(atom(t))
        if ns in GENERIC_NS:
            # same limb count as the caller (`Self` is `Uint<LIMBS>` on both sides)
            if self.generic != GENERIC_NS[ns] or env.get(self.generic, (None, None))[1] != 'nat':
                raise Unsupported('call into a generic unit from outside')
            parts.insert(0, env[self.generic][0])
        return f'({ns}.{name} ' + ' '.join(parts) + ')', rty

    # ---- statements
    def bind(self, v, t, ty, env, lines):
        nm = self.fresh(v, env)
        lines.append(f'let {nm} := {t}')
        env[v] = (nm, ty)
        self.cenv.pop(v, None)

    def run(self, stmts, env, lines, declared=None):
        """execute statements symbolically: appends lean `let` lines, updates env (rust name -> (lean text, type))"""
        for st in stmts:
            k = st[0]
            if k == 'let':
                _, name, ann, e = st
                if declared is not None:
                    declared.add(name)
                if ann is None and e[0] == 'lit' and not e[2]:
                    # `let mut i = 0;` — an untyped counter: tracked as a constant, no lean text
                    env[name] = (str(e[1]), 'lit')
                    self.cenv[name] = e[1]
                    continue
                want = ty_of(ann, self.self_ty) if ann else None
                try:
                    t, ty = self.ex(e, env, want)
                except Unsupported as ex_:
                    if ann is None and str(ex_) == 'untyped literal' and self.ext.get('defer_lets'):
                        # the integer type of this `let` is fixed by its use: translated there (see `ex`, 'defer')
                        env[name] = ('?' + name, 'defer', dict(env), e)
                        continue
                    raise
                self.bind(name, t, ty, env, lines)
            elif k == 'lettuple':
                _, names, e = st
                if (e[0] == 'tuple' and len(e[1]) == len(names) and any(x[0] == 'lit' and not x[2] for x in e[1])
                        and all(not v.startswith('_') for v in names) and len(set(names)) == len(names)):
                    # `let (mut steps, mut f, mut g) = (62, f[0] as i64, g[0] as i128);`: component-wise `let`s, every
                    # right-hand side evaluated BEFORE any of the names is bound; an untyped literal stays untyped
                    vals = [None if (x[0] == 'lit' and not x[2]) else self.ex(x, env) for x in e[1]]
                    for v, x, val in zip(names, e[1], vals):
                        if declared is not None:
                            declared.add(v)
                        if val is None:
                            env[v] = (str(x[1]), 'lit')
                            self.cenv[v] = x[1]
                        else:
                            self.bind(v, val[0], val[1], env, lines)
                    continue
                t, ty = self.ex(e, env)
                if not isinstance(ty, tuple) or len(ty) != len(names) or len(names) < 2:
                    raise Unsupported('tuple pattern on non-pair')
                self.pn += 1
                tmp = f'p{self.pn}'
                lines.append(f'let {tmp} := {t}')
                for idx, v in enumerate(names):
                    if v != '_' and not v.startswith('_'):
                        if declared is not None:
                            declared.add(v)
                        self.bind(v, f'{tmp}{proj(idx, len(names))}', ty[idx], env, lines)
            elif k == 'assign':
                _, name, op, rhs = st
                if name not in env:
                    raise Unsupported('assignment to unknown ' + name)
                e = rhs if op == '=' else ('bin', op[:-1], ('var', name), rhs)
                cur = env[name][1]
                if cur == 'lit':
                    c = self.const(e)
                    if c is None or c < 0:
                        raise Unsupported('non-constant assignment to an untyped counter')
                    env[name] = (str(c), 'lit')
                    self.cenv[name] = c
                    continue
                t, ty = self.ex(e, env, cur)
                if ty != cur:
                    raise Unsupported(f'assignment changes the type of {name}')
                self.bind(name, t, ty, env, lines)
            elif k == 'assign_idx':
                # `arr[i] = e` / `arr[i] op= e`: a new list with position `i` replaced
                _, name, idx, op, rhs = st
                if name in env and isinstance(env[name][1], tuple):
                    # a fixed array (tuple): `t[K] = e` re-binds `t` to the tuple with component K replaced
                    e = rhs if op == '=' else ('bin', op[:-1], ('index', ('var', name), idx), rhs)
                    self.set_component(name, idx, e, None, env, lines)
                    continue
                if name not in env or env[name][1] != 'uint':
                    raise Unsupported('indexed assignment to ' + name)
                e = rhs if op == '=' else ('bin', op[:-1], ('index', ('var', name), idx), rhs)
                ix, tix = self.ex(idx, env, 'nat')
                if tix != 'nat':
                    raise Unsupported('index of type ' + str(tix))
                t, ty = self.ex(e, env, 'wrap:1')
                if ty != 'wrap:1':
                    raise Unsupported('array element of type ' + str(ty))
                self.bind(name, f'{atom(env[name][0])}.set {atom(ix)} {atom(t)}', 'uint', env, lines)
            elif k == 'while':
                self.do_while(st[1], st[2], env, lines)
            elif k == 'if':
                self.do_if(st[1], st[2], st[3], env, lines)
            elif k == 'assign_tuple':
                self.do_assign_tuple(st[1], st[2], env, lines)
            elif k == 'loop':
                self.do_loop(st[1], env, lines)
            else:
                raise Unsupported('statement ' + k)

    def set_component(self, name, idx, e, val, env, lines):
        """`t[K] = e` on a fixed array (a tuple): `t` re-bound to the tuple with component K replaced (`val` = an already
        translated (text, type) instead of the expression `e`)"""
        ty = env[name][1]
        c = self.const(idx)
        if c is None or not 0 <= c < len(ty):
            raise Unsupported('index into a fixed array')
        t, tt = val if val is not None else self.ex(e, env, ty[c])
        if tt != ty[c]:
            raise Unsupported('array element of type ' + str(tt))
        cur = atom(env[name][0])
        comps = [t if i == c else f'{cur}{proj(i, len(ty))}' for i in range(len(ty))]
        self.bind(name, '(' + ', '.join(comps) + ')', ty, env, lines)

    LOOP_LIT_TYPES = (SInt(64), SInt(32), SInt(128), SInt(8), SInt(16), 64, 32, 128, 8, 16)

    def do_loop(self, body, env, lines):
        """`loop { pre..; if cond { break; } post.. }` (one `break`, at the top level of the body): an auxiliary definition
            `<fn>_loop<k> captured.. : Nat → state.. → state`
        by recursion on a FUEL argument: `| 0, s => s | n + 1, s => pre; if cond then s' else post; recurse n s''`.
        A `loop` has no syntactic trip bound: the fuel is an INPUT of the translation (unit option `fuel`, per function) and
        the bridge theorems have to prove that the `break` is reached within it."""
        fuel = (self.ext.get('fuel') or {}).get(self.fname)
        if fuel is None:
            raise Unsupported('`loop` without a declared trip bound')
        brk = [j for j, st in enumerate(body) if st[0] == 'if' and st[2] == [('break',)] and st[3] is None]
        if len(brk) != 1 or has_break(body[:brk[0]]) or has_break(body[brk[0] + 1:]):
            raise Unsupported('loop form: exactly one top-level `if c { break; }`')
        pre, cond, post = body[:brk[0]], body[brk[0]][1], body[brk[0] + 1:]
        assigned = assigned_vars(pre + post)
        if not assigned or any(s not in env for s in assigned):
            raise Unsupported('loop state')
        state = [v for v in env if v in assigned]
        used = free_vars(body, [])
        captured = [v for v in env if v in used and v not in state]
        if any(env[v][1] in ('lit', 'defer') for v in captured):
            raise Unsupported('loop body reads an untyped outer variable')
        if any(env[s][1] == 'defer' for s in state):
            raise Unsupported('loop state')
        untyped = [s for s in state if env[s][1] == 'lit']
        if len(untyped) > 1:
            raise Unsupported('too many untyped loop variables')
        choices = [[w] for w in self.LOOP_LIT_TYPES] if untyped else [[]]
        saved = (self.pn, self.nloop, list(self.aux), dict(self.cenv))
        found, err = [], None
        for ch in choices:
            self.pn, self.nloop, self.aux, self.cenv = saved[0], saved[1], list(saved[2]), {}
            styp = [ch[0] if s in untyped else env[s][1] for s in state]
            try:
                found.append((styp, self.loop_break_text(pre, cond, post, state, styp, captured, env), self.pn, self.nloop, self.aux))
            except Unsupported as ex:
                err = err or ex
        self.pn, self.nloop, self.aux, self.cenv = saved[0], saved[1], list(saved[2]), saved[3]
        if not found:
            raise err
        if any(f[1] != found[0][1] for f in found[1:]):
            raise Unsupported('ambiguous type of an untyped loop variable')
        styp, (text, aux), self.pn, self.nloop, self.aux = found[0]
        self.aux.append(text)
        for s, ty in zip(state, styp):
            if env[s][1] == 'lit':
                env[s] = (f'{env[s][0]}#{ty}', ty)
                self.cenv.pop(s, None)
        callt = (f'({self.ns}.{aux}' + ''.join(f' {atom(env[v][0])}' for v in captured) + f' {fuel} '
                 + ' '.join(atom(env[s][0]) for s in state) + ')')
        if len(state) == 1:
            self.bind(state[0], callt, styp[0], env, lines)
        else:
            self.pn += 1
            tmp = f'p{self.pn}'
            lines.append(f'let {tmp} := {callt}')
            for idx, s in enumerate(state):
                self.bind(s, f'{tmp}{proj(idx, len(state))}', styp[idx], env, lines)

    def loop_break_text(self, pre, cond, post, state, styp, captured, env):
        self.nloop += 1
        aux = f'{self.fname}_loop{self.nloop}'
        env2 = {}
        for v in captured:
            env2[v] = (self.fresh(v, env2), env[v][1])
        for s, ty in zip(state, styp):
            env2[s] = (self.fresh(s, env2), ty)
        nvar = self.fresh('n', env2)
        env2['\0n'] = (nvar, 'nat')
        outer, declared = set(env2), set()
        pat = ', '.join(env2[s][0] for s in state)
        tup = f'({pat})' if len(state) > 1 else pat
        capb = ''.join(f' ({env2[v][0]} : {lean_ty(env2[v][1])})' for v in captured)
        capa = ''.join(f' {env2[v][0]}' for v in captured)
        lty = [(f'({lean_ty(t)})' if isinstance(t, tuple) else lean_ty(t)) for t in styp]
        lines1, lines2 = [], []
        self.run(pre, env2, lines1, declared)
        ctext = self.cond_prop(cond, env2)
        mid = '(' + ', '.join(env2[s][0] for s in state) + ')' if len(state) > 1 else env2[state[0]][0]
        self.run(post, env2, lines2, declared)
        if declared & outer:
            raise Unsupported('loop body shadows an outer variable')
        if any(env2[s][1] != ty for s, ty in zip(state, styp)):
            raise Unsupported('loop state changes type')
        text = (f'@[gen_defs] def {aux}{capb} : Nat → ' + ' → '.join(lty) + ' → ' + ' × '.join(lty) + '\n'
                + f'  | 0, {pat} => {tup}\n'
                + f'  | {nvar} + 1, {pat} =>\n    ' + join_lines('\n    ', lines1 + [f'if {ctext} then {mid} else'] + lines2)
                + f'\n    {self.ns}.{aux}{capa} {nvar} ' + ' '.join(atom(env2[s][0]) for s in state))
        return text, aux

    def do_assign_tuple(self, lvs, rhs, env, lines):
        """`(lv, lv, ..) = e;`: the right-hand side first, then the targets from left to right"""
        t, ty = self.ex(rhs, env)
        if not isinstance(ty, tuple) or len(ty) != len(lvs) or len(lvs) < 2:
            raise Unsupported('tuple assignment of a non-tuple')
        self.pn += 1
        tmp = f'p{self.pn}'
        lines.append(f'let {tmp} := {t}')
        for idx, lv in enumerate(lvs):
            name = lvalue_name(lv)
            if name is None:
                continue
            comp, cty = f'{tmp}{proj(idx, len(lvs))}', ty[idx]
            if name not in env:
                raise Unsupported('assignment to unknown ' + name)
            if lv[0] == 'var':
                if env[name][1] != cty or cty == 'lit':
                    raise Unsupported(f'assignment changes the type of {name}')
                self.bind(name, comp, cty, env, lines)
            else:
                ixe = lv[2] if lv[0] == 'index' else lv[1][2]
                if lv[0] == 'index' and isinstance(env[name][1], tuple):
                    self.set_component(name, ixe, None, (comp, cty), env, lines)
                    continue
                if env[name][1] != 'uint' or cty != ('wrap:1' if lv[0] == 'index' else 64):
                    raise Unsupported('indexed assignment to ' + name)
                ix, tix = self.ex(ixe, env, 'nat')
                if tix != 'nat':
                    raise Unsupported('index of type ' + str(tix))
                self.bind(name, f'{atom(env[name][0])}.set {atom(ix)} {comp}', 'uint', env, lines)

    def do_if(self, cond, then, els, env, lines):
        """an `if` STATEMENT: a conditional update of every outer variable one of the branches assigns (in the order of their
        declaration): `let p := (if c then (<then lets> (state..)) else (<else lets> (state..)))`, then the variables are
        re-bound to the components of `p`"""
        els = els or []
        assigned = assigned_vars(then)
        assigned_vars(els, assigned)
        state = [v for v in env if v in assigned]
        if not state or len(state) != len(assigned):
            raise Unsupported('if statement: assigned variables')
        if any(env[s][1] in ('lit', 'nat') for s in state):
            raise Unsupported('if statement assigns a counter')
        ctext = self.cond_prop(cond, env)
        texts = []
        for blk in (then, els):
            e2, l2, decl, saved = dict(env), [], set(), dict(self.cenv)
            self.run(blk, e2, l2, decl)
            self.cenv = saved
            if decl & set(env):
                raise Unsupported('branch shadows an outer variable')
            if any(e2[s][1] != env[s][1] for s in state):
                raise Unsupported('branch changes the type of a variable')
            l2.append('(' + ', '.join(e2[s][0] for s in state) + ')' if len(state) > 1 else e2[state[0]][0])
            texts.append(join_lines('\n    ', l2))
        self.pn += 1
        tmp = f'p{self.pn}'
        lines.append(f'let {tmp} := (if {ctext} then (\n    {texts[0]})\n  else (\n    {texts[1]}))')
        for idx, s in enumerate(state):
            self.bind(s, f'{tmp}{proj(idx, len(state))}' if len(state) > 1 else tmp, env[s][1], env, lines)

    def run_scoped(self, stmts, env, lines):
        """a loop body: its `let`s are local, its assignments to outer variables persist"""
        inner, declared = dict(env), set()
        self.run(stmts, inner, lines, declared)
        if declared & set(env):
            raise Unsupported('loop body shadows an outer variable')
        for v in env:
            env[v] = inner[v]
        for v in declared:
            self.cenv.pop(v, None)

    def do_while(self, cond, body, env, lines):
        c = self.cond_const(cond)
        if c is not None:
            # (1a) `let mut i = K; while i < N { ..; i += 1; }` with literal K, N and a body that does not read `i`:
            #      an auxiliary definition by recursion on the trip count, called with the literal N - K
            if (cond[1] == '<' and cond[2][0] == 'var' and cond[2][1] in self.cenv and body
                    and body[-1][0] == 'assign' and body[-1][1] == cond[2][1] and body[-1][2] == '+='
                    and body[-1][3][0] == 'lit' and body[-1][3][1] == 1
                    and cond[2][1] not in free_vars(body[:-1], []) and cond[2][1] not in free_vars(cond[3], [])
                    and any(st[0] == 'assign' for st in body[:-1])):
                i = cond[2][1]
                bound = self.const(cond[3])
                trip = max(bound - self.cenv[i], 0)
                self.emit_loop(body[:-1], None, env, lines, str(trip))
                if trip:
                    env[i] = (str(bound), 'lit')
                    self.cenv[i] = bound
                return
            # (1b) any other loop whose condition is a comparison of constants: executed symbolically (unrolled)
            rounds = 0
            while c:
                rounds += 1
                if rounds > 256:
                    raise Unsupported('loop too long to unroll')
                self.run_scoped(body, env, lines)
                c = self.cond_const(cond)
                if c is None:
                    raise Unsupported('loop condition stopped being constant')
            return
        # (3) `let mut i = K; while i < BOUND { ..; i += k; }` with a literal K, a limb-count BOUND (`LIMBS`) and a body that
        #     may use `i` as an index
        if (cond[0] == 'bin' and cond[1] == '<' and cond[2][0] == 'var' and cond[2][1] in self.cenv
                and env.get(cond[2][1], (None, None))[1] == 'lit'):
            return self.emit_loop_up(cond, body, env, lines)
        # (2) `while i > 0 { i -= 1; .. }`: structural recursion on i.toNat
        if not (cond[0] == 'bin' and cond[1] == '>' and cond[2][0] == 'var' and cond[3][0] == 'lit' and cond[3][1] == 0):
            raise Unsupported('loop form')
        i = cond[2][1]
        if i not in env or not isinstance(env[i][1], int):
            raise Unsupported('loop counter')
        ti, w = env[i]
        if not body or not (body[0][0] == 'assign' and body[0][1] == i and body[0][2] == '-='
                            and body[0][3][0] == 'lit' and body[0][3][1] == 1):
            raise Unsupported('loop form: the body must start with the decrement of the counter')
        self.emit_loop(body[1:], (i, w), env, lines, f'({ti}).toNat')
        env[i] = (f'0#{w}', w)

    def emit_loop(self, rest, counter, env, lines, count):
        """the loop as an auxiliary definition `<fn>_loop<k> captured.. : Nat → state.. → state` by recursion on the
        number of remaining rounds; `counter` = (rust name, width) when the body reads the (already decremented)
        counter, which is `BitVec.ofNat width n` in round `n + 1`; `count` = lean text of the trip count"""
        i = counter[0] if counter else None
        state = []
        for st in rest:
            if st[0] == 'while':
                raise Unsupported('nested loop')
            if st[0] == 'assign' and st[1] not in state:
                state.append(st[1])
        if i in state or any(s not in env or env[s][1] == 'lit' for s in state) or not state:
            raise Unsupported('loop state')
        captured = [v for v in free_vars(rest, []) if v in env and v not in state and v != i]
        if any(env[v][1] == 'lit' for v in captured):
            raise Unsupported('loop body reads an untyped counter')
        self.nloop += 1
        aux = f'{self.fname}_loop{self.nloop}'
        env2 = {}
        for v in captured + state:
            env2[v] = (self.fresh(v, env2), env[v][1])
        nvar = self.fresh('n', env2)
        env2['\0n'] = (nvar, 'nat')
        lines2 = []
        if counter:
            env2[i] = (self.fresh(i, env2), counter[1])
            lines2.append(f'let {env2[i][0]} := BitVec.ofNat {counter[1]} {nvar}')
        outer = set(env2)
        declared = set()
        pat = ', '.join(env2[s][0] for s in state)
        capb = ''.join(f' ({env2[v][0]} : {lean_ty(env2[v][1])})' for v in captured)
        capa = ''.join(f' {env2[v][0]}' for v in captured)
        styp = [env[s][1] for s in state]
        self.run(rest, env2, lines2, declared)
        if declared & outer:
            raise Unsupported('loop body shadows an outer variable')
        if any(env2[s][1] != ty for s, ty in zip(state, styp)):
            raise Unsupported('loop state changes type')
        res = ' × '.join(lean_ty(t) for t in styp)
        text = (f'@[gen_defs] def {aux}{capb} : Nat → ' + ' → '.join(lean_ty(t) for t in styp) + f' → {res}\n'
                + f'  | 0, {pat} => ' + (f'({pat})' if len(state) > 1 else pat) + '\n'
                + f'  | {nvar} + 1, {pat} =>\n    ' + join_lines('\n    ', lines2)
                + f'\n    {self.ns}.{aux}{capa} {nvar} ' + ' '.join(env2[s][0] for s in state))
        self.aux.append(text)
        callt = f'({self.ns}.{aux}' + ''.join(f' {env[v][0]}' for v in captured) + f' {count} ' + ' '.join(env[s][0] for s in state) + ')'
        if len(state) == 1:
            self.bind(state[0], callt, styp[0], env, lines)
        else:
            self.pn += 1
            tmp = f'p{self.pn}'
            lines.append(f'let {tmp} := {callt}')
            for idx, s in enumerate(state):
                self.bind(s, f'{tmp}{proj(idx, len(state))}', styp[idx], env, lines)

    LIT_WIDTHS = (8, 32, 64, 128)

    def emit_loop_up(self, cond, body, env, lines):
        """`while i < BOUND { body; i += k; }` (i an untyped counter with the constant value K at entry, BOUND a `Nat`
        expression such as `LIMBS`, k >= 1 a literal) as an auxiliary definition
            `<fn>_loop<j> captured.. : Nat → Nat → state.. → state`
        by recursion on a fuel argument (first `Nat`; BOUND - K rounds always suffice since k >= 1), the second `Nat` being
        the current value of `i`; each round re-tests the loop condition, exactly like the `while`.
        state = the outer variables the body assigns (arrays included: `arr[i] = e` is `arr.set i e`), captured = the
        other outer variables it reads; both in the order of their declaration in the function.
        An untyped state variable (`let mut carry = 1;`) gets the one integer width that type-checks the body."""
        i = cond[2][1]
        start = self.cenv[i]
        if not body or not (body[-1][0] == 'assign' and body[-1][1] == i and body[-1][2] == '+='
                            and body[-1][3][0] == 'lit' and body[-1][3][1] >= 1):
            raise Unsupported('loop form: the body must end with the increment of the counter')
        step = body[-1][3][1]
        rest = body[:-1]
        assigned = []
        for st in rest:
            if st[0] in ('while', 'if', 'assign_tuple'):
                # nested statements: everything assigned at any depth, minus the body's own `let`s; an inner loop becomes an
                # auxiliary definition of its own (emitted first), called from this loop's auxiliary definition
                assigned = assigned_vars(rest)
                break
            if st[0] in ('assign', 'assign_idx') and st[1] not in assigned:
                assigned.append(st[1])
        if i in assigned or not assigned or any(s not in env for s in assigned):
            raise Unsupported('loop state')
        if set(free_vars(cond[3], [])) & set(assigned + [i]):
            raise Unsupported('loop bound changes inside the loop')
        state = [v for v in env if v in assigned]
        used = free_vars(rest, []) + free_vars(cond[3], [])
        captured = [v for v in env if v in used and v not in state and v != i]
        if any(env[v][1] == 'lit' for v in captured):
            raise Unsupported('loop body reads an untyped counter')
        untyped = [s for s in state if env[s][1] == 'lit']
        if len(untyped) > 2:
            raise Unsupported('too many untyped loop variables')
        choices = [[]]
        for s in untyped:
            choices = [c + [w] for c in choices for w in self.LIT_WIDTHS]
        saved = (self.pn, self.nloop, list(self.aux), dict(self.cenv))
        found = []
        for ch in choices:
            self.pn, self.nloop, self.aux, self.cenv = saved[0], saved[1], list(saved[2]), {}
            styp = [ch[untyped.index(s)] if s in untyped else env[s][1] for s in state]
            try:
                found.append((styp, self.loop_up_text(i, step, cond[3], rest, state, styp, captured, env), self.pn, self.nloop, self.aux))
            except Unsupported as ex:
                err = ex
        self.pn, self.nloop, self.aux, self.cenv = saved[0], saved[1], list(saved[2]), saved[3]
        if len(found) != 1:
            raise (err if not found else Unsupported('ambiguous type of an untyped loop variable'))
        styp, (text, aux, capa, bound), self.pn, self.nloop, self.aux = found[0]
        self.aux.append(text)
        for s, ty in zip(state, styp):
            if env[s][1] == 'lit':
                env[s] = (f'{env[s][0]}#{ty}', ty)       # the literal initial value, now typed
                self.cenv.pop(s, None)
        count = bound if start == 0 else f'({bound} - {start})'
        callt = f'({self.ns}.{aux}' + ''.join(f' {atom(env[v][0])}' for v in captured) + f' {count} {start} ' + ' '.join(atom(env[s][0]) for s in state) + ')'
        if len(state) == 1:
            self.bind(state[0], callt, styp[0], env, lines)
        else:
            self.pn += 1
            tmp = f'p{self.pn}'
            lines.append(f'let {tmp} := {callt}')
            for idx, s in enumerate(state):
                self.bind(s, f'{tmp}{proj(idx, len(state))}', styp[idx], env, lines)
        # the counter after the loop: BOUND when it ran 0, 1, .., BOUND - 1; otherwise not tracked (a later use is unsupported)
        self.cenv.pop(i, None)
        if start == 0 and step == 1:
            env[i] = (bound, 'nat')
        else:
            del env[i]

    def loop_up_text(self, i, step, bound_e, rest, state, styp, captured, env):
        self.nloop += 1
        aux = f'{self.fname}_loop{self.nloop}'
        env2 = {}
        for v in captured:
            env2[v] = (self.fresh('self_' if v == 'self' else v, env2), env[v][1])
        for s, ty in zip(state, styp):
            env2[s] = (self.fresh(s, env2), ty)
        nvar = self.fresh('n', env2)
        env2['\0n'] = (nvar, 'nat')
        env2[i] = (self.fresh(i, env2), 'nat')
        ivar = env2[i][0]
        outer, declared = set(env2), set()
        pat = ', '.join(env2[s][0] for s in state)
        tup = f'({pat})' if len(state) > 1 else pat
        capb = ''.join(f' ({env2[v][0]} : {lean_ty(env2[v][1])})' for v in captured)
        capa = ''.join(f' {env2[v][0]}' for v in captured)
        bound, tb = self.ex(bound_e, env2, 'nat')
        if tb != 'nat':
            raise Unsupported('loop bound of type ' + str(tb))
        lines2 = []
        self.run(rest, env2, lines2, declared)
        if declared & outer:
            raise Unsupported('loop body shadows an outer variable')
        if any(env2[s][1] != ty for s, ty in zip(state, styp)):
            raise Unsupported('loop state changes type')
        res = ' × '.join(lean_ty(t) for t in styp)
        text = (f'@[gen_defs] def {aux}{capb} : Nat → Nat → ' + ' → '.join(lean_ty(t) for t in styp) + f' → {res}\n'
                + f'  | 0, {ivar}, {pat} => {tup}\n'
                + f'  | {nvar} + 1, {ivar}, {pat} =>\n    if {ivar} < {bound} then\n      ' + join_lines('\n      ', lines2)
                + f'\n      {self.ns}.{aux}{capa} {nvar} ({ivar} + {step}) ' + ' '.join(env2[s][0] for s in state)
                + f'\n    else {tup}')
        # the bound as seen from the caller
        bound_out, _ = self.ex(bound_e, env, 'nat')
        return text, aux, capa, bound_out

    def body(self, body, env, rty, outs=None):
        """function body -> lean lines; `outs`: the `&mut` slice parameters of a function without a return type, whose final
        values are the result"""
        body = re.sub(r'//[^\n]*', '', body)
        if self.ext.get('defer_lets'):
            # round 4 (safegcd unit): cfg-selected inner blocks, nested `const fn` items
            body = strip_nested_fns(select_cfg_blocks(body))
        body = re.sub(r'#\[[^\]]*\]', '', body)
        body = strip_debug_asserts(body)
        body = self.take_asserts(body, env)
        if outs:
            body, self.guards = strip_panic_guards(body)
        pr = P(tokenize(body))
        stmts, final = pr.block()
        if pr.peek()[0] != 'eof':
            raise Unsupported('trailing tokens in body')
        if final is None and outs:
            lines = []
            env = dict(env)
            self.run(stmts, env, lines)
            lines.append('(' + ', '.join(env[o][0] for o in outs) + ')' if len(outs) > 1 else env[outs[0]][0])
            return lines
        if final is None:
            raise Unsupported('no final expression')
        lines = []
        env = dict(env)
        self.run(stmts, env, lines)
        t, ty = self.ex(final, env, rty)
        if ty != rty and not (ty == 64 and rty == 'choice') and not (ty == 'choice' and rty == 64):
            raise Unsupported(f'return type {ty} vs {rty}')
        lines.append(t)
        return lines

    def take_asserts(self, body, env):
        """`assert!(cond, "message");` statements at the start of a body -> removed from the text; their conjunction
        becomes the auxiliary definition `<fn>_asserts : <parameters> → Bool` (env = the parameters at this point).
        An `assert!` anywhere else is left in place (and is outside the subset: the function is not translated)."""
        conds = []
        ASSERTING.discard((self.ns, self.fname))
        while True:
            m = re.match(r'\s*assert\s*!\s*\(', body)
            if not m:
                break
            depth, j, comma, instr = 1, m.end(), None, False
            while depth and j < len(body):
                ch = body[j]
                if instr:
                    if ch == '\\':
                        j += 1
                    elif ch == '"':
                        instr = False
                elif ch == '"':
                    instr = True
                elif ch in '([{':
                    depth += 1
                elif ch in ')]}':
                    depth -= 1
                elif ch == ',' and depth == 1 and comma is None:
                    comma = j
                j += 1
            if depth:
                raise Unsupported('unbalanced assert!')
            m2 = re.match(r'\s*;', body[j:])
            if not m2:
                raise Unsupported('assert! used as an expression')
            pr = P(tokenize(body[m.end():(comma if comma is not None else j - 1)]))
            ce = pr.expr()
            if pr.peek()[0] != 'eof':
                raise Unsupported('assert! condition')
            t, ty = self.ex(ce, env)
            if ty != 'bool':
                raise Unsupported('assert! condition of type ' + str(ty))
            conds.append(t)
            body = body[j + m2.end():]
        if conds:
            binders = ''.join(f'({ln} : {lean_ty(t)}) ' for ln, t in env.values())
            self.aux.append(f'@[gen_defs] def {self.fname}_asserts {binders}: Bool :=\n  ' + ' && '.join(conds))
            ASSERTING.add((self.ns, self.fname))
        return body

    def fresh(self, v, env):
        used = {x[0] for x in env.values()}
        nm, k = v, 0
        while nm in used:
            k += 1
            nm = f'{v}{k}'
        return nm


def impl_blocks(src, self_ty):
    """the bodies of all inherent impl blocks `impl[<..>] Ty[<..>] {` of a file, concatenated"""
    out = []
    for m in re.finditer(r'\bimpl\s*(?:<[^>{]*>)?\s*' + self_ty + r'\s*(?:<[^>{]*>)?\s*\{', src):
        depth, j = 1, m.end()
        while depth and j < len(src):
            depth += {'{': 1, '}': -1}.get(src[j], 0)
            j += 1
        out.append(src[m.end():j - 1])
    if not out:
        raise Unsupported('impl block of ' + self_ty + ' not found')
    return '\n'.join(out)


def translate_file(path, ns, self_ty, want=None, private=False, ext=None):
    if isinstance(path, list):
        # a unit gathered from several files: the inherent impl blocks of `self_ty` in each of them
        src = '\n'.join(impl_blocks(open(f).read(), self_ty) for f in path)
    else:
        src = open(path).read()
        for mod in (ext or {}).get('skip_mods', []):
            # a nested module that only re-exports the functions of the file (verification hooks): not part of the unit
            mm = re.search(r'\bmod\s+' + mod + r'\s*\{', src)
            if mm:
                src = src[:mm.start()] + src[_balanced_end(src, mm.end()):]
        if (ext or {}).get('defer_lets'):
            TYPE_ALIASES.clear()
            for mm in re.finditer(r'^\s*(?:pub(?:\([a-z]+\))?\s+)?type\s+(\w+)\s*=\s*([^\n]+);[ \t]*$', src, re.M):
                TYPE_ALIASES[mm.group(1)] = mm.group(2).strip()
        if self_ty:
            m = re.search(r'impl\s+' + self_ty + r'\s*\{', src)
            if not m:
                raise Unsupported('impl block of ' + self_ty + ' not found')
            depth, j = 1, m.end()
            while depth and j < len(src):
                depth += {'{': 1, '}': -1}.get(src[j], 0)
                j += 1
            src = src[m.end():j - 1]
    fns = []
    for attrs, name, params, ret, body in find_functions(src, private):
        if 'target_pointer_width = "32"' in attrs:
            continue
        if want and name not in want:
            continue
        fns.append((name, params, ret, body))
    sigs, plist, outs = {}, {}, {}
    for name, params, ret, body in fns:
        try:
            ps = parse_params(params, self_ty)
            ptys = [ty_of(t, self_ty) if n != 'self' else ('choice' if self_ty == 'ConstChoice' else ty_of('Self', self_ty)) for n, t in ps]
            mutp = [n for n, t in ps if n != 'self' and t.startswith('mut ')]
            if not ret:
                # no return type: the function RETURNS the final values of its `&mut` slice parameters (in parameter order)
                if not mutp:
                    raise Unsupported('no return type')
                rty = tuple('uint' for _ in mutp) if len(mutp) > 1 else 'uint'
                outs[name] = mutp
            elif mutp:
                raise Unsupported('`&mut` parameter and a return value')
            else:
                rty = ty_of(ret, self_ty)
            if any(t is None for t in ptys) or rty is None:
                raise Unsupported('type')
            sigs[name] = (ptys, rty); plist[name] = ps
        except (Unsupported, ValueError, IndexError, KeyError, TypeError):
            pass
    out, failed = {}, {}
    g = Gen(sigs, self_ty, ns, ext)
    for name, params, ret, body in fns:
        if name not in sigs:
            failed[name] = 'signature outside the supported subset'
            continue
        ptys, rty = sigs[name]
        try:
            env = {}
            binders = []
            g.reset(name)
            if g.generic:
                env[g.generic] = (g.generic, 'nat')
                binders.append(f'({g.generic} : Nat)')
            for (n, _), t in zip(plist[name], ptys):
                ln = 'self_' if n == 'self' else n
                env[n] = (ln, t)
                binders.append(f'({ln} : {lean_ty(t)})')
            g.guards = []
            lines = g.body(body, env, rty, outs.get(name))
            lines = [f'-- the source panics if: {c}' for c in g.guards] + lines
            out[name] = ''.join(a + '\n\n' for a in g.aux) + (f'@[gen_defs] def {name} ' + ''.join(b + ' ' for b in binders) + f': {lean_ty(rty)} :=\n  ' + join_lines('\n  ', lines))
        except Unsupported as ex:
            failed[name] = str(ex)
            sigs.pop(name, None)   # callers of an untranslated function are untranslated too (detected at call)
        except (KeyError, IndexError, TypeError, ValueError, AttributeError, RecursionError) as ex:
            # a source shape nobody anticipated: never an exception, the function is simply not translated
            failed[name] = 'translator error: ' + repr(ex)
            sigs.pop(name, None)
    # a caller translated before its (later, failing) callee was reached: untranslated too
    changed = True
    while changed:
        changed = False
        for name in list(out):
            for f in failed:
                if re.search(re.escape(f'{ns}.{f}') + r'(?![\w.])', out[name]):
                    failed[name] = 'call to untranslated ' + f
                    del out[name]
                    sigs.pop(name, None)
                    changed = True
                    break
    return [n for n, _, _, _ in fns], out, failed, sigs


DIV_LIMB = 'src/uint/div_limb.rs'
FILES = [
    # (generated file, imports, units); a unit: rust file, lean namespace, impl type or None, description, options
    ('Prim.lean', ['CB.Gen.Attr'], [
        dict(key='prim', rel='src/primitives.rs', ns='CB.Gen.Prim', self_ty=None, desc='word primitives'),
        dict(key='choice', rel='src/const_choice.rs', ns='CB.Gen.Choice', self_ty='ConstChoice',
             desc='ConstChoice: masks, comparison predicates, selects'),
    ]),
    ('DivLimb.lean', ['CB.Gen.Prim', None, 'set_option linter.unusedVariables false'], [
        dict(key='div_limb', rel=DIV_LIMB, ns='CB.Gen.DivLimb', self_ty=None,
             desc='word-level division: reciprocal, short_div, div2by1, div3by2 (64-bit configuration)',
             want=['reciprocal', 'lt', 'select', 'short_div', 'div2by1', 'div3by2'], private=True,
             struct='Reciprocal', use=['prim']),
        dict(key='reciprocal', rel=DIV_LIMB, ns='CB.Gen.DivLimb.Reciprocal', self_ty='Reciprocal',
             desc='impl Reciprocal', want=['new', 'default'], use=['div_limb', 'prim']),
    ]),
    # the carry chains over the limbs of a `Uint<LIMBS>`: a value is the list of its limbs, `LIMBS : Nat` an explicit argument
    ('Chains.lean', ['CB.Gen.Prim', None, 'set_option linter.unusedVariables false'], [
        dict(key='limb', rel=['src/limb/add.rs', 'src/limb/sub.rs', 'src/limb/mul.rs', 'src/limb/cmp.rs'],
             ns='CB.Gen.Chains.Limb', self_ty='Limb', desc='impl Limb: thin wrappers over the word primitives',
             want=['adc', 'sbb', 'mac', 'is_nonzero'], use=['prim']),
        dict(key='uint', rel=['src/uint/add.rs', 'src/uint/sub.rs', 'src/uint/neg.rs', 'src/uint/cmp.rs'],
             ns='CB.Gen.Chains.Uint', self_ty='Uint', generic='LIMBS',
             desc='impl<const LIMBS: usize> Uint<LIMBS>: add / sub / neg / compare loops over the limbs',
             want=['adc', 'wrapping_add', 'sbb', 'wrapping_sub', 'carrying_neg', 'wrapping_neg', 'is_nonzero', 'eq', 'lt', 'gt', 'lte']),
    ]),
    # the word-level helpers of the encoders / decoders
    ('Encoding.lean', ['CB.Gen.Prim', None, 'set_option linter.unusedVariables false'], [
        dict(key='hex', rel='src/uint/encoding.rs', ns='CB.Gen.Encoding', self_ty=None,
             desc='the constant-time hex decoder: decode_nibble (signed 16-bit arithmetic), decode_hex_byte',
             want=['decode_nibble', 'decode_hex_byte'], private=True),
        dict(key='uint_from', rel=['src/uint/from.rs'], ns='CB.Gen.Encoding.Uint', self_ty='Uint', generic='LIMBS',
             desc='impl<const LIMBS: usize> Uint<LIMBS>: the conversions from a primitive (64-bit configuration)',
             want=['from_u8', 'from_u16', 'from_u32', 'from_u64', 'from_u128', 'from_word', 'from_wide_word']),
    ]),
    # the multiplication rows: `impl Limb` of src/limb/mul.rs and the slice functions of src/uint/mul.rs (a slice = the list of
    # its limbs; a function with `&mut [Limb]` parameters returns their final values)
    ('MulRows.lean', ['CB.Gen.Chains', None, 'set_option linter.unusedVariables false'], [
        dict(key='limb_mul', rel=['src/limb/mul.rs'], ns='CB.Gen.MulRows.Limb', self_ty='Limb',
             desc='impl Limb: wrapping / saturating / wide multiplication', want=['saturating_mul', 'wrapping_mul', 'mul_wide'],
             use=['prim']),
        dict(key='uint_mul', rel='src/uint/mul.rs', ns='CB.Gen.MulRows', self_ty=None, private='any',
             desc='schoolbook multiplication over limb slices: nested `while` loops, `lo`/`hi` addressed by an index test',
             want=['schoolbook_multiplication', 'schoolbook_squaring'], limb_more=['limb_mul']),
    ]),
    # the word-level core of safegcd (src/modular/safegcd.rs, 64-bit configuration)
    ('SafeGcd.lean', ['CB.Gen.Prim', None, 'set_option linter.unusedVariables false'], [
        dict(key='safegcd', rel='src/modular/safegcd.rs', ns='CB.Gen.SafeGcd', self_ty=None, private=True,
             desc='safegcd word level: iterations, inv_mod2_62, jump (the 62 batched divsteps on the low words; `loop`/`break` by fuel)',
             want=['iterations', 'inv_mod2_62', 'min', 'jump'], skip_mods=['verif'], defer_lets=True, fuel=dict(jump='64')),
    ]),
]

AUX = re.compile(r'\w+_loop\d+$')
AUX = re.compile(AUX.pattern + r'|\w+_asserts$')     # the `assert!`s of a function stay with it, like its loops


def read_last(path):
    """previously generated definitions, by (namespace, name): kept for functions that cannot be re-translated;
    an auxiliary loop definition stays with the function it precedes; structures by (namespace, 'structure Name')"""
    last = {}
    if not os.path.exists(path):
        return last
    cur_ns, pending = None, ''
    txt = open(path).read()
    for blk in re.split(r'\n(?=namespace |@\[gen_defs\] def |structure |end )', txt):
        m = re.match(r'namespace (\S+)', blk)
        if m:
            cur_ns, pending = m.group(1), ''
        m = re.match(r'structure (\w+)', blk)
        if m and cur_ns:
            last[(cur_ns, 'structure ' + m.group(1))] = blk.rstrip()
        m = re.match(r'@\[gen_defs\] def (\w+)', blk)
        if m and cur_ns:
            if AUX.match(m.group(1)):
                pending += blk.rstrip() + '\n\n'
            else:
                last[(cur_ns, m.group(1))] = pending + blk.rstrip()
                pending = ''
    return last


def main():
    report = dict(translated=[], kept_last=[], missing=[])
    reg = {}     # unit key -> (namespace, signatures of the functions translated NOW)
    STRUCTS.clear()
    for fname, imports, units in FILES:
        out_path = os.path.join(GEN, fname)
        last = read_last(out_path)
        parts = ['/- GENERATED by tools/translate.py from /repo on every check run. Do not edit. -/'] + [(f'import {m}' if m and not m.startswith('set_option') else (m or '')) for m in imports] + ['']
        for u in units:
            rel, ns, self_ty, desc = u['rel'], u['ns'], u['self_ty'], u['desc']
            path = [os.path.join(REPO, r) for r in rel] if isinstance(rel, list) else os.path.join(REPO, rel)
            if u.get('generic'):
                GENERIC_NS[ns] = u['generic']
            parts.append(f'/-! {desc} ({", ".join(rel) if isinstance(rel, list) else rel}) -/')
            parts.append(f'namespace {ns}')
            if u.get('struct'):
                # `struct Name { field: intty, .. }` -> a lean structure with the same field names
                sname = u['struct']
                stext = None
                try:
                    fields = parse_struct(open(path).read(), sname)
                    stext = f'structure {sname} where\n' + '\n'.join(f'  {f} : {lean_ty(t)}' for f, t in fields)
                    report['translated'].append(f'{ns}.{sname} (struct)')
                except (Unsupported, OSError) as ex:
                    stext = last.get((ns, 'structure ' + sname))
                    fields = [(f, int(w)) for f, w in re.findall(r'^  (\w+) : BitVec (\d+)$', stext or '', re.M)]
                    report['kept_last' if stext else 'missing'].append(dict(fn=f'{ns}.{sname} (struct)', why=str(ex)))
                if stext:
                    STRUCTS[sname] = (f'{ns}.{sname}', fields)
                    parts.append(stext); parts.append('')
            ext = dict(choice=reg.get('choice'), limb=reg.get('limb'), uint=reg.get('uint'),
                       use=[reg[k] for k in u.get('use', []) if k in reg],
                       limb_more=[reg[k] for k in u.get('limb_more', []) if k in reg])
            for opt in ('fuel', 'skip_mods', 'defer_lets'):
                if u.get(opt):
                    ext[opt] = u[opt]
            try:
                order, out, failed, sigs = translate_file(path, ns, self_ty, u.get('want'), u.get('private', False), ext)
            except (Unsupported, OSError) as ex:
                order, out, failed, sigs = [], {}, {'*': str(ex)}, {}
            reg[u['key']] = (ns, sigs)
            names = list(order)
            for w in u.get('want') or []:
                if w not in names:
                    names.append(w)      # a wanted function that is not in the source any more
            for (lns, n) in last:
                if lns == ns and n not in names and not n.startswith('structure '):
                    names.append(n)      # a function that vanished from the source: keep the last translation
            # emit in dependency order: a definition after everything it calls
            emitted = set()
            texts = {}
            for n in names:
                if n in out:
                    texts[n] = out[n]; report['translated'].append(f'{ns}.{n}')
                elif (ns, n) in last:
                    texts[n] = last[(ns, n)]; report['kept_last'].append(dict(fn=f'{ns}.{n}', why=failed.get(n, failed.get('*', 'not found in the source'))))
                else:
                    report['missing'].append(dict(fn=f'{ns}.{n}', why=failed.get(n, failed.get('*', 'not found in the source') if u.get('want') else '')))
            pending = [n for n in names if n in texts]
            while pending:
                progress = False
                for n in list(pending):
                    deps = set(re.findall(re.escape(ns) + r'\.(\w+)', texts[n])) - {n}
                    if deps <= emitted or not (deps & set(pending)):
                        parts.append(texts[n]); parts.append('')
                        emitted.add(n); pending.remove(n); progress = True
                if not progress:
                    for n in pending:
                        parts.append(texts[n]); parts.append('')
                    break
            parts.append(f'end {ns}')
            parts.append('')
        new = '\n'.join(parts)
        os.makedirs(GEN, exist_ok=True)
        if not os.path.exists(out_path) or open(out_path).read() != new:
            open(out_path, 'w').write(new)
    json.dump(report, open(os.path.join(GEN, 'report.json'), 'w'), indent=1)
    if '-v' in sys.argv:
        print(json.dumps(report, indent=1))


if __name__ == '__main__':
    main()
