#!/usr/bin/env python3
"""
translate.py — a small Rust -> Lean 4 translator for the WORD-LEVEL layer of the crate: the straight-line
`const fn`s of src/primitives.rs (adc, sbb, mac, mul_wide, mulhilo, addhilo, overflowing_add) and of
`impl ConstChoice` in src/const_choice.rs (the Hacker's-Delight predicates, mask constructors, selects).

It is run on every check (from tools/extract.py), reads /repo's CURRENT source and writes
lean/CB/Gen/Prim.lean: one Lean definition per Rust function over `BitVec 32/64/128`, statement for statement
(`let` for `let`, `wrapping_sub` -> `-`, `!` -> `~~~`, `as` -> `setWidth`, `Self(x)`/`self.0` -> the word itself).
lean/CB/Lemmas/GenBits.lean (hand-written, imports the generated file) proves with `bv_decide` what each
generated function MEANS (`from_word_lt x y = if x < y then all-ones else 0`, `adc`: lo + 2^64 hi = a + b + c, ...);
those are the facts the limb-level proofs rest on (CB/Lemmas/WordBits.lean states the same meaning for the
hand-written Nat model).  So for this layer the theorems are re-checked against what the code says NOW:
a one-token change in one of these functions changes the generated definition and the meaning theorem no longer
checks (a proof obligation of C04/C06 breaks -> search for a failing input -> report); a harmless rewrite inside the
supported subset still passes `bv_decide`, which decides the equivalence rather than matching syntax.

Supported subset (anything else makes the function "not translated": the last committed translation is kept,
and the evidence says so — the behavioural correspondence then carries the tie alone, no alarm is raised):
  types u8 u32 u64 u128 Word WideWord bool Self/ConstChoice (a 64-bit mask word), pairs of those;
  `let [mut] x = e;`, `let (a, b) = e;`, `debug_assert!(..)` (skipped), final expression, `return`-free bodies;
  operators ! - & | ^ << >> + - * == != < (shift amounts constant after folding `T::BITS`), `e as T`,
  methods wrapping_add/sub/mul/neg, overflowing_add, calls to other translated functions (`Self::f`, `x.f(..)`),
  `Self(e)`, `self.0`, `Self::TRUE/FALSE`, `T::MAX`, `T::BITS`, integer literals.
"""
import os, re, sys, json

VERIF = os.path.dirname(os.path.dirname(os.path.abspath(__file__)))
REPO = os.environ.get('CB_REPO', '/repo')
OUT = os.path.join(VERIF, 'lean', 'CB', 'Gen', 'Prim.lean')

WIDTH = {'u8': 8, 'u32': 32, 'u64': 64, 'u128': 128, 'Word': 64, 'WideWord': 128, 'usize': 64}


class Unsupported(Exception):
    pass


# ------------------------------------------------------------------ tokenizer

TOK = re.compile(r'\s*(?:(//[^\n]*)|(0x[0-9a-fA-F_]+|\d[\d_]*)(u8|u32|u64|u128|usize)?|([A-Za-z_][A-Za-z0-9_]*)|(::|->|<<|>>|==|!=|<=|>=|&&|\|\||[-+*/%&|^!<>=(){}\[\],;:.#]))')


def tokenize(s):
    pos, out = 0, []
    while pos < len(s):
        m = TOK.match(s, pos)
        if not m:
            if s[pos:].strip() == '':
                break
            raise Unsupported('cannot tokenize at: ' + s[pos:pos + 30])
        pos = m.end()
        if m.group(1):
            continue
        if m.group(2):
            out.append(('num', int(m.group(2).replace('_', ''), 0), m.group(3)))
        elif m.group(4):
            out.append(('id', m.group(4)))
        else:
            out.append(('op', m.group(5)))
    return out


# ------------------------------------------------------------------ parser (expressions -> AST tuples)

class P:
    def __init__(self, toks):
        self.t, self.i = toks, 0

    def peek(self, k=0):
        return self.t[self.i + k] if self.i + k < len(self.t) else ('eof',)

    def eat(self, kind=None, val=None):
        tok = self.peek()
        if kind and tok[0] != kind or (val is not None and tok[1] != val):
            raise Unsupported(f'expected {kind} {val}, got {tok}')
        self.i += 1
        return tok

    def at(self, val):
        tok = self.peek()
        return tok[0] in ('op', 'id') and tok[1] == val

    # precedence climbing, Rust precedences
    LEVELS = [['||'], ['&&'], ['==', '!=', '<', '>', '<=', '>='], ['|'], ['^'], ['&'], ['<<', '>>'], ['+', '-'], ['*', '/', '%']]

    def expr(self, lvl=0):
        if lvl == len(self.LEVELS):
            return self.cast()
        lhs = self.expr(lvl + 1)
        while self.peek()[0] == 'op' and self.peek()[1] in self.LEVELS[lvl]:
            op = self.eat()[1]
            rhs = self.expr(lvl + 1)
            lhs = ('bin', op, lhs, rhs)
        return lhs

    def cast(self):
        e = self.unary()
        while self.at('as'):
            self.eat()
            e = ('as', e, self.type_())
        return e

    def type_(self):
        t = self.eat('id')[1]
        return t

    def unary(self):
        if self.at('!'):
            self.eat(); return ('not', self.unary())
        if self.at('-'):
            self.eat(); return ('neg', self.unary())
        if self.at('&'):
            self.eat(); return self.unary()        # references are transparent
        if self.at('*'):
            self.eat(); return self.unary()
        return self.postfix()

    def args(self):
        self.eat('op', '(')
        a = []
        while not self.at(')'):
            a.append(self.expr())
            if self.at(','):
                self.eat()
        self.eat('op', ')')
        return a

    def postfix(self):
        e = self.primary()
        while True:
            if self.at('.'):
                self.eat()
                tok = self.eat()
                if tok[0] == 'num':
                    e = ('field', e, tok[1])
                elif tok[0] == 'id':
                    if self.at('('):
                        e = ('method', tok[1], e, self.args())
                    else:
                        raise Unsupported('named field ' + tok[1])
                else:
                    raise Unsupported('postfix ' + str(tok))
            else:
                return e

    def primary(self):
        tok = self.peek()
        if tok[0] == 'num':
            self.eat(); return ('lit', tok[1], tok[2])
        if tok[0] == 'op' and tok[1] == '(':
            self.eat()
            e = self.expr()
            if self.at(','):
                items = [e]
                while self.at(','):
                    self.eat()
                    if self.at(')'):
                        break
                    items.append(self.expr())
                self.eat('op', ')')
                return ('tuple', items)
            self.eat('op', ')')
            return e
        if tok[0] == 'id':
            path = [self.eat()[1]]
            while self.at('::'):
                self.eat(); path.append(self.eat('id')[1])
            if self.at('('):
                return ('call', path, self.args())
            if len(path) == 1:
                return ('var', path[0])
            return ('path', path)
        raise Unsupported('primary ' + str(tok))


# ------------------------------------------------------------------ function extraction

FN = re.compile(r'((?:\s*#\[[^\]]*\]\s*)*)\s*pub(?:\([a-z]+\))?\s+const\s+fn\s+(\w+)\s*\(([^)]*)\)\s*->\s*([^{]+)\{')


def find_functions(src):
    """yield (attrs, name, params, ret, body)"""
    for m in FN.finditer(src):
        depth, j = 1, m.end()
        while depth and j < len(src):
            depth += {'{': 1, '}': -1}.get(src[j], 0)
            j += 1
        yield m.group(1), m.group(2), m.group(3), m.group(4).strip(), src[m.end():j - 1]


def parse_params(ps, self_ty):
    out = []
    for p in [x.strip() for x in ps.split(',') if x.strip()]:
        if p in ('&self', 'self', 'mut self', '&mut self'):
            out.append(('self', self_ty))
        else:
            n, t = [x.strip() for x in p.split(':', 1)]
            n = n.replace('mut ', '').strip()
            t = t.replace('&', '').strip()
            out.append((n, t))
    return out


def ty_of(t, self_ty):
    t = t.strip()
    if t in ('Self', 'ConstChoice'):
        return 'choice' if (self_ty == 'ConstChoice' or t == 'ConstChoice') else None
    if t == 'bool':
        return 'bool'
    if t in WIDTH:
        return WIDTH[t]
    m = re.match(r'\((.*)\)$', t)
    if m:
        return tuple(ty_of(x, self_ty) for x in m.group(1).split(','))
    raise Unsupported('type ' + t)


def lean_ty(t):
    if t == 'choice':
        return 'BitVec 64'
    if t == 'bool':
        return 'Bool'
    if isinstance(t, tuple):
        return ' × '.join(lean_ty(x) for x in t)
    return f'BitVec {t}'


# ------------------------------------------------------------------ code generation

class Gen:
    def __init__(self, sigs, self_ty, ns):
        self.sigs, self.self_ty, self.ns = sigs, self_ty, ns

    def const(self, e):
        """fold a constant Nat expression (shift amounts, T::BITS - 1) or return None"""
        k = e[0]
        if k == 'lit':
            return e[1]
        if k == 'path' and len(e[1]) == 2 and e[1][1] == 'BITS' and e[1][0] in WIDTH:
            return WIDTH[e[1][0]]
        if k == 'bin' and e[1] in '+-*':
            a, b = self.const(e[2]), self.const(e[3])
            if a is None or b is None:
                return None
            return {'+': a + b, '-': a - b, '*': a * b}[e[1]]
        if k == 'as':
            return self.const(e[1])
        return None

    def ex(self, e, env, want=None):
        """-> (lean text, type)"""
        k = e[0]
        if k == 'lit':
            w = WIDTH.get(e[2]) if e[2] else (want if isinstance(want, int) else None)
            if w is None:
                raise Unsupported('untyped literal')
            return f'{e[1]}#{w}', w
        if k == 'var':
            if e[1] not in env:
                raise Unsupported('unknown variable ' + e[1])
            return env[e[1]]
        if k == 'path':
            p = e[1]
            if p[0] in ('Self', 'ConstChoice') and p[1] in ('TRUE', 'FALSE'):
                return ('(~~~0#64)' if p[1] == 'TRUE' else '0#64'), 'choice'
            if p[0] in WIDTH and p[1] == 'MAX':
                return f'(~~~0#{WIDTH[p[0]]})', WIDTH[p[0]]
            if p[0] in WIDTH and p[1] == 'BITS':
                return f'{WIDTH[p[0]]}#32', 32
            raise Unsupported('path ' + '::'.join(p))
        if k == 'field':
            t, ty = self.ex(e[1], env)
            if ty == 'choice' and e[2] == 0:
                return t, 64
            if isinstance(ty, tuple):
                return f'({t}).{e[2] + 1}', ty[e[2]]
            raise Unsupported('field of ' + str(ty))
        if k == 'tuple':
            parts = [self.ex(x, env, (want[i] if isinstance(want, tuple) else None)) for i, x in enumerate(e[1])]
            return '(' + ', '.join(p[0] for p in parts) + ')', tuple(p[1] for p in parts)
        if k == 'not':
            t, ty = self.ex(e[1], env, want)
            if ty == 'bool':
                return f'(!{t})', 'bool'
            return f'(~~~{t})', ty
        if k == 'neg':
            t, ty = self.ex(e[1], env, want)
            return f'(-{t})', ty
        if k == 'as':
            tgt = ty_of(e[2], self.self_ty)
            t, ty = self.ex(e[1], env, tgt if e[1][0] == 'lit' else None)
            if ty == 'bool':
                return f'(if {t} then 1#{tgt} else 0#{tgt})', tgt
            if ty == 'choice':
                ty = 64
            if ty == tgt:
                return t, tgt
            return f'({t}).setWidth {tgt}', tgt
        if k == 'bin':
            op = e[1]
            if op in ('<<', '>>'):
                t, ty = self.ex(e[2], env, want)
                c = self.const(e[3])
                if c is None:
                    raise Unsupported('non-constant shift amount')
                return f'({t} {"<<<" if op == "<<" else ">>>"} {c})', ty
            a, ta = None, None
            # literals take the type of the other operand
            if e[2][0] == 'lit' and not e[2][2]:
                b, tb = self.ex(e[3], env, want); a, ta = self.ex(e[2], env, tb)
            else:
                a, ta = self.ex(e[2], env, want); b, tb = self.ex(e[3], env, ta)
            if ta == 'choice':
                ta = 64
            if tb == 'choice':
                tb = 64
            if ta != tb:
                raise Unsupported(f'operand types differ: {ta} {tb}')
            if op in ('==', '!=', '<', '>', '<=', '>='):
                if ta == 'bool':
                    raise Unsupported('bool comparison')
                lop = {'==': '==', '!=': '!=', '<': '<', '>': '>', '<=': '≤', '>=': '≥'}[op]
                if op in ('==', '!='):
                    return f'({a} {lop} {b})', 'bool'
                return f'(decide ({a} {lop} {b}))', 'bool'
            if op in ('&&', '||'):
                return f'({a} {op} {b})', 'bool'
            lop = {'&': '&&&', '|': '|||', '^': '^^^', '+': '+', '-': '-', '*': '*'}.get(op)
            if lop is None or ta == 'bool':
                raise Unsupported('operator ' + op)
            return f'({a} {lop} {b})', ta
        if k == 'method':
            name, recv, args = e[1], e[2], e[3]
            r, tr = self.ex(recv, env)
            if name in ('wrapping_add', 'wrapping_sub', 'wrapping_mul'):
                b, tb = self.ex(args[0], env, tr)
                if tb != tr:
                    raise Unsupported('wrapping op types')
                return f'({r} {dict(wrapping_add="+", wrapping_sub="-", wrapping_mul="*")[name]} {b})', tr
            if name == 'wrapping_neg':
                return f'(-{r})', tr
            if name == 'overflowing_add':
                b, tb = self.ex(args[0], env, tr)
                return f'(({r} + {b}), decide (({r} + {b}) < {r}))', (tr, 'bool')
            if tr == 'choice':
                return self.call(name, [recv] + args, env)
            raise Unsupported('method ' + name)
        if k == 'call':
            p = e[1]
            if p == ['Self'] or p == ['ConstChoice']:
                t, ty = self.ex(e[2][0], env, 64)
                if ty != 64:
                    raise Unsupported('Self(non-word)')
                return t, 'choice'
            if len(p) == 2 and p[0] in ('Self', 'ConstChoice'):
                return self.call(p[1], e[2], env)
            if len(p) == 1:
                return self.call(p[0], e[2], env)
            raise Unsupported('call ' + '::'.join(p))
        raise Unsupported('expr ' + k)

    def call(self, name, args, env):
        if name not in self.sigs:
            raise Unsupported('call to untranslated ' + name)
        ptys, rty = self.sigs[name]
        if len(ptys) != len(args):
            raise Unsupported('arity ' + name)
        parts = []
        for a, pt in zip(args, ptys):
            t, ty = self.ex(a, env, pt)
            if ty != pt and not (ty == 64 and pt == 'choice') and not (ty == 'choice' and pt == 64):
                raise Unsupported(f'argument type {ty} for {pt} in {name}')
            parts.append(t)
        return f'({self.ns}.{name} ' + ' '.join(parts) + ')', rty

    def body(self, body, env, rty):
        """statements -> lean lines"""
        # split on ';' at depth 0
        stmts, depth, cur = [], 0, ''
        body = re.sub(r'//[^\n]*', '', body)
        body = re.sub(r'#\[[^\]]*\]', '', body)
        for ch in body:
            if ch in '({[':
                depth += 1
            if ch in ')}]':
                depth -= 1
            if ch == ';' and depth == 0:
                stmts.append(cur.strip()); cur = ''
            else:
                cur += ch
        final = cur.strip()
        lines = []
        env = dict(env)
        n = 0
        for s in stmts:
            if not s or s.startswith('debug_assert'):
                continue
            m = re.match(r'let\s+(mut\s+)?(\w+)\s*(?::\s*[\w:]+\s*)?=\s*(.*)$', s, re.S)
            m2 = re.match(r'let\s+\(\s*(\w+)\s*,\s*(\w+)\s*\)\s*=\s*(.*)$', s, re.S)
            if m2:
                t, ty = self.ex(P(tokenize(m2.group(3))).expr(), env)
                if not isinstance(ty, tuple) or len(ty) != 2:
                    raise Unsupported('tuple pattern on non-pair')
                n += 1
                tmp = f'p{n}'
                lines.append(f'let {tmp} := {t}')
                for idx, v in enumerate((m2.group(1), m2.group(2))):
                    if v != '_' and not v.startswith('_'):
                        nm = self.fresh(v, env)
                        lines.append(f'let {nm} := {tmp}.{idx + 1}')
                        env[v] = (nm, ty[idx])
                continue
            if m:
                pr = P(tokenize(m.group(3)))
                e = pr.expr()
                if pr.peek()[0] != 'eof':
                    raise Unsupported('trailing tokens in let')
                t, ty = self.ex(e, env)
                nm = self.fresh(m.group(2), env)
                lines.append(f'let {nm} := {t}')
                env[m.group(2)] = (nm, ty)
                continue
            raise Unsupported('statement: ' + s[:40])
        if not final:
            raise Unsupported('no final expression')
        pr = P(tokenize(final))
        e = pr.expr()
        if pr.peek()[0] != 'eof':
            raise Unsupported('trailing tokens in final expression')
        t, ty = self.ex(e, env, rty)
        if ty != rty and not (ty == 64 and rty == 'choice') and not (ty == 'choice' and rty == 64):
            raise Unsupported(f'return type {ty} vs {rty}')
        lines.append(t)
        return lines

    def fresh(self, v, env):
        used = {x[0] for x in env.values()}
        nm, k = v, 0
        while nm in used:
            k += 1
            nm = f'{v}{k}'
        return nm


def translate_file(path, ns, self_ty, want=None):
    src = open(path).read()
    if self_ty:
        m = re.search(r'impl\s+' + self_ty + r'\s*\{', src)
        if not m:
            raise Unsupported('impl block of ' + self_ty + ' not found')
        depth, j = 1, m.end()
        while depth and j < len(src):
            depth += {'{': 1, '}': -1}.get(src[j], 0)
            j += 1
        src = src[m.end():j - 1]
    fns = []
    for attrs, name, params, ret, body in find_functions(src):
        if 'target_pointer_width = "32"' in attrs:
            continue
        if want and name not in want:
            continue
        fns.append((name, params, ret, body))
    sigs, plist = {}, {}
    for name, params, ret, body in fns:
        try:
            ps = parse_params(params, self_ty)
            ptys = [ty_of(t, self_ty) if n != 'self' else 'choice' for n, t in ps]
            rty = ty_of(ret, self_ty)
            if any(t is None for t in ptys) or rty is None:
                raise Unsupported('type')
            sigs[name] = (ptys, rty); plist[name] = ps
        except Unsupported:
            pass
    out, failed = {}, {}
    g = Gen(sigs, self_ty, ns)
    for name, params, ret, body in fns:
        if name not in sigs:
            failed[name] = 'signature outside the supported subset'
            continue
        ptys, rty = sigs[name]
        try:
            env = {}
            binders = []
            for (n, _), t in zip(plist[name], ptys):
                ln = 'self_' if n == 'self' else n
                env[n] = (ln, t)
                binders.append(f'({ln} : {lean_ty(t)})')
            lines = g.body(body, env, rty)
            out[name] = (f'@[gen_defs] def {name} ' + ' '.join(binders) + f' : {lean_ty(rty)} :=\n  ' + '\n  '.join(lines))
        except Unsupported as ex:
            failed[name] = str(ex)
            sigs.pop(name, None)   # callers of an untranslated function are untranslated too (detected at call)
    return [n for n, _, _, _ in fns], out, failed


UNITS = [
    # (rust file, lean namespace, impl type or None, description)
    ('src/primitives.rs', 'CB.Gen.Prim', None, 'word primitives'),
    ('src/const_choice.rs', 'CB.Gen.Choice', 'ConstChoice', 'ConstChoice: masks, comparison predicates, selects'),
]


def main():
    last = {}
    if os.path.exists(OUT):
        # previously generated definitions, by (namespace, name): kept for functions that cannot be re-translated
        cur_ns = None
        txt = open(OUT).read()
        for blk in re.split(r'\n(?=namespace |@\[gen_defs\] def |end )', txt):
            m = re.match(r'namespace (\S+)', blk)
            if m:
                cur_ns = m.group(1)
            m = re.match(r'@\[gen_defs\] def (\w+)', blk)
            if m and cur_ns:
                last[(cur_ns, m.group(1))] = blk.rstrip()
    parts = ['/- GENERATED by tools/translate.py from /repo on every check run. Do not edit. -/', 'import CB.Gen.Attr', '']
    report = dict(translated=[], kept_last=[], missing=[])
    for rel, ns, self_ty, desc in UNITS:
        path = os.path.join(REPO, rel)
        parts.append(f'/-! {desc} ({rel}) -/')
        parts.append(f'namespace {ns}')
        try:
            order, out, failed = translate_file(path, ns, self_ty)
        except (Unsupported, OSError) as ex:
            order, out, failed = [], {}, {'*': str(ex)}
        names = list(order)
        for (lns, n) in last:
            if lns == ns and n not in names:
                names.append(n)      # a function that vanished from the source: keep the last translation
        # emit in dependency order: a definition after everything it calls
        emitted = set()
        texts = {}
        for n in names:
            if n in out:
                texts[n] = out[n]; report['translated'].append(f'{ns}.{n}')
            elif (ns, n) in last:
                texts[n] = last[(ns, n)]; report['kept_last'].append(dict(fn=f'{ns}.{n}', why=failed.get(n, failed.get('*', 'not found in the source'))))
            else:
                report['missing'].append(dict(fn=f'{ns}.{n}', why=failed.get(n, '')))
        pending = [n for n in names if n in texts]
        while pending:
            progress = False
            for n in list(pending):
                deps = set(re.findall(re.escape(ns) + r'\.(\w+)', texts[n])) - {n}
                if deps <= emitted or not (deps & set(pending)):
                    parts.append(texts[n]); parts.append('')
                    emitted.add(n); pending.remove(n); progress = True
            if not progress:
                for n in pending:
                    parts.append(texts[n]); parts.append('')
                break
        parts.append(f'end {ns}')
        parts.append('')
    new = '\n'.join(parts)
    os.makedirs(os.path.dirname(OUT), exist_ok=True)
    if not os.path.exists(OUT) or open(OUT).read() != new:
        open(OUT, 'w').write(new)
    json.dump(report, open(os.path.join(VERIF, 'lean', 'CB', 'Gen', 'report.json'), 'w'), indent=1)
    if '-v' in sys.argv:
        print(json.dumps(report, indent=1))


if __name__ == '__main__':
    main()
